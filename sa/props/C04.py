"""C04 -- grouping partitions the rows; one summary row per distinct key."""
import ast
from ..common import interp, ours, calls_in, norm, DF, kw
from ..model import AnalysisError, body_nodes
from ..cfg import cfg_of
from ..facts import facts_at, cfg_node_of
from ..dataflow import defs_reaching
from .shared import grd_empty
from .. import aggfeat as A

EXPLANATION = (
    "Structural necessary conditions of group_by().aggregate(), count, split and grouped modify decided from source: (IDX-2) the "
    "same key tuple drives sort, unique and select, every key sorted ascending, and the permutation used is the stable np.lexsort "
    "of DataFrame.sort only (no second, unstable ordering: rows of a group keep their original order); (IDX-3) index spaces: "
    "_index_ = arange(nrow) is attached to the frame it indexes -- in aggregate to the SORTED frame before unique picks group "
    "starts, in split to the selected frame BEFORE sorting (original positions) and _sorted_index_ AFTER sorting (split points) -- "
    "np.split receives an index vector and split points from the same frame; group slices are applied with _view_rows to the frame "
    "they index; (MPT-3) the group-aware protocol: _group_ = repeat(arange(#groups), group sizes) is assigned before any "
    "group-aware function runs, None results are replaced by function.default, the helper columns are removed again; (OWN-3) "
    "count groups a copy, not the receiver; grouped modify restores the original row order with argsort(concatenate(slices)); "
    "(GRD-sentinel / GRD-empty) group boundaries come from DataFrame.unique, whose NA handling is checked under C02 and re-checked "
    "here. Not decided: that summaries equal lambdas; group sizes."
)
ASSUMPTIONS = ["np.split(v, points) cuts v before each point; np.repeat(arange(k), sizes) labels contiguous runs",
               "np.lexsort is stable"]


def check(ctx):
    repo = ctx.repo
    I = interp(repo)
    for r, t in (("IDX-2", "one key tuple for sort / unique / select; ascending; single stable ordering"),
                 ("IDX-3", "index vectors are created on, and applied to, the frame they index; ordering of attach/sort"),
                 ("MPT-3", "group-aware protocol on the DataFrame side"),
                 ("OWN-3", "count does not regroup the receiver; modify restores row order"),
                 ("GRD-sentinel", "group boundaries: NA mask is a key component of its own in unique"),
                 ("GRD-empty", "reductions reachable from grouping guarded")):
        ctx.rule(r, t)
    ag = repo.fn(f"{DF}.aggregate")
    sp = repo.fn(f"{DF}.split")
    md = repo.fn(f"{DF}.modify")
    cn = repo.fn(f"{DF}.count")
    # ---------------------------------------------------------------- IDX-2
    for fn, keyvar in ((ag, "group_colnames"), (sp, sp.vararg)):
        sorts = [c for _, c in calls_in(fn) if isinstance(c.func, ast.Attribute) and c.func.attr == "sort"]
        uniqs = [c for _, c in calls_in(fn) if isinstance(c.func, ast.Attribute) and c.func.attr == "unique"]
        sels = [c for _, c in calls_in(fn) if isinstance(c.func, ast.Attribute) and c.func.attr == "select"]
        ok = len(sorts) == 1 and norm(sorts[0].args[0] if sorts[0].args else sorts[0].keywords[0].value) == f"dict.fromkeys({keyvar}, 1)" \
            if sorts and (sorts[0].args or sorts[0].keywords) else False
        ctx.ob("IDX-2", fn, norm(sorts[0]) if sorts else "sort(**dict.fromkeys(keys, 1))", sorts[0] if sorts else fn.node, ok,
               "rows are sorted ascending by exactly the group keys" if ok else
               "the frame is not sorted ascending by exactly the group keys", clause="ordered ascending by the group columns")
        ok = len(uniqs) == 1 and [norm(a) for a in uniqs[0].args] == [f"*{keyvar}"]
        ctx.ob("IDX-2", fn, norm(uniqs[0])[:80] if uniqs else "unique(*keys)", uniqs[0] if uniqs else fn.node, ok,
               "group starts are the first rows per key combination of the same keys" if ok else
               "group boundaries are not found with unique(*same keys)", clause="exactly one row per distinct combination")
        if fn is ag:
            ok = len(sels) >= 1 and [norm(a) for a in sels[0].args] == ["'_index_'", f"*{keyvar}"]
            ctx.ob("IDX-2", fn, norm(sels[0])[:80] if sels else "select('_index_', *keys)", sels[0] if sels else fn.node, ok,
                   "summary frame starts from the key columns plus the group start index" if ok else
                   "summary frame is not built from select('_index_', *keys)", nontrivial=False)
            defs = [n for n in body_nodes(fn.node) if isinstance(n, ast.Assign) and norm(n.targets[0]) == keyvar]
            ok = len(defs) == 1 and norm(defs[0].value) == f"{fn.params[0]}._group_colnames"
            ctx.ob("IDX-2", fn, norm(defs[0]) if defs else "group_colnames = self._group_colnames", defs[0] if defs else fn.node, ok,
                   "keys are the receiver's grouping" if ok else "keys are not taken from self._group_colnames", nontrivial=False)
    srt = repo.fn(f"{DF}.sort")
    extra = []
    for f in [srt] + list(srt.nested.values()):
        for _, c in calls_in(f, False):
            d = repo.dotted(f, c.func)
            if d in ("numpy.argsort", "numpy.sort", "builtins.sorted") or (isinstance(c.func, ast.Attribute) and c.func.attr in ("argsort",) and d is None):
                extra.append(c)
    ctx.ob("IDX-2", srt, f"ordering primitives besides np.lexsort: {[norm(c) for c in extra] or 'none'}", extra[0] if extra else srt.node, not extra,
           "rows inside a group keep their original order: the only ordering is the stable np.lexsort" if not extra else
           f"{norm(extra[0])} orders rows without a stable kind: rows of one group no longer keep their original relative order, so "
           f"first/last/nth and order-sensitive lambdas change", clause="the rows of that group taken in their original order")
    # ---------------------------------------------------------------- IDX-3
    def stmt_index(fn, pred):
        for i, s in enumerate(fn.node.body):
            if pred(s):
                return i, s
        return None, None
    def is_assign_attr(s, attr):
        return isinstance(s, ast.Assign) and isinstance(s.targets[0], ast.Attribute) and s.targets[0].attr == attr
    # aggregate: sort -> attach index -> unique -> split
    i_sort, s_sort = stmt_index(ag, lambda s: isinstance(s, ast.Assign) and ".sort(" in norm(s.value))
    i_idx, s_idx = stmt_index(ag, lambda s: is_assign_attr(s, "_index_"))
    i_uq, s_uq = stmt_index(ag, lambda s: isinstance(s, ast.Assign) and ".unique(" in norm(s.value))
    i_split, s_split = stmt_index(ag, lambda s: isinstance(s, ast.Assign) and "np.split(" in norm(s.value))
    ok = None not in (i_sort, i_idx, i_uq, i_split) and i_sort < i_idx < i_uq < i_split
    ctx.ob("IDX-3", ag, "sort; attach _index_; unique; np.split", s_idx or ag.node, bool(ok),
           "the index is attached to the sorted frame before group starts are taken" if ok else
           "the order sort -> attach index -> unique -> split is broken: group slices index another row order",
           clause="each summary is computed from exactly the rows of that group")
    if s_idx is not None and s_sort is not None:
        frame = norm(s_idx.targets[0].value)
        ok = norm(s_idx.value) == f"np.arange({frame}.nrow)" and norm(s_sort.targets[0]) == frame
        ctx.ob("IDX-3", ag, norm(s_idx), s_idx, ok, "index counts the rows of the sorted frame" if ok else
               "_index_ is not arange(nrow) of the sorted frame", clause="group sizes sum to nrow")
    if s_split is not None:
        c = s_split.value
        ok = isinstance(c, ast.Call) and len(c.args) == 2 and norm(c.args[0]) == "data._index_" and norm(c.args[1]) == "stat._index_[1:]"
        ctx.ob("IDX-3", ag, norm(s_split), s_split, ok, "sorted positions are cut at every group start but the first" if ok else
               "np.split does not cut the sorted frame's index at the group starts [1:]", clause="one summary row per distinct key")
    vr = [c for _, c in calls_in(ag) if isinstance(c.func, ast.Attribute) and c.func.attr == "_view_rows"]
    ok = bool(vr) and all(norm(c.func.value) == "data" for c in vr)
    ctx.ob("IDX-3", ag, f"{[norm(c) for c in vr]}", vr[0] if vr else ag.node, ok,
           "group slices are views of the sorted frame, which their indices refer to" if ok else
           "group slices are taken from another frame than the one the indices refer to", clause="exactly the rows of that group")
    # split: select -> attach _index_ -> sort -> attach _sorted_index_ -> unique -> np.split
    i_sel, _ = stmt_index(sp, lambda s: isinstance(s, ast.Assign) and ".select(" in norm(s.value))
    i_i, s_i = stmt_index(sp, lambda s: is_assign_attr(s, "_index_"))
    i_s, _ = stmt_index(sp, lambda s: isinstance(s, ast.Assign) and ".sort(" in norm(s.value))
    i_si, s_si = stmt_index(sp, lambda s: is_assign_attr(s, "_sorted_index_"))
    i_u, _ = stmt_index(sp, lambda s: isinstance(s, ast.Assign) and ".unique(" in norm(s.value))
    ok = None not in (i_sel, i_i, i_s, i_si, i_u) and i_sel < i_i < i_s < i_si < i_u
    ctx.ob("IDX-3", sp, "select; _index_; sort; _sorted_index_; unique", s_i or sp.node, bool(ok),
           "original positions are attached before, split points after the sort" if ok else
           "split attaches its index columns in the wrong order relative to the sort: the returned index sets are positions in the "
           "sorted frame, not in the caller's frame", clause="split returns disjoint index sets covering every row")
    rets = [n for n in body_nodes(sp.node) if isinstance(n, ast.Return)]
    ok = len(rets) == 1 and norm(rets[0].value) == "np.split(data._index_, stat._sorted_index_[1:])"
    ctx.ob("IDX-3", sp, norm(rets[0].value) if rets else "return np.split(...)", rets[0] if rets else sp.node, ok,
           "original positions, cut at the sorted group starts" if ok else
           "split does not return np.split(original positions in sorted order, sorted group starts[1:])",
           clause="disjoint index sets covering every row")
    for s in (s_i, s_si):
        if s is not None:
            ok = norm(s.value) == f"np.arange({norm(s.targets[0].value)}.nrow)"
            ctx.ob("IDX-3", sp, norm(s), s, ok, "row counter of that frame" if ok else "index column is not arange(nrow)", nontrivial=False)
    # grouped modify
    ro = [n for n in body_nodes(md.node) if isinstance(n, ast.Assign) and "argsort" in norm(n.value)]
    ok = bool(ro) and norm(ro[0].value) == "np.argsort(np.concatenate(slices))"
    ctx.ob("OWN-3", md, norm(ro[0]) if ro else "restore_indices", ro[0] if ro else md.node, ok,
           "the inverse permutation of the concatenated group indices restores the original row order" if ok else
           "grouped modify does not restore the original order with argsort(concatenate(slices))",
           clause="group-wise results aligned with the original row order")
    ys = [n for n in body_nodes(md.node) if isinstance(n, ast.Yield) and "restore_indices" in norm(n.value)]
    ok = bool(ys) and "np.concatenate(column)[restore_indices]" in norm(ys[0].value)
    ctx.ob("OWN-3", md, norm(ys[0].value) if ys else "yield concatenated[restore]", ys[0] if ys else md.node, ok,
           "group results are concatenated in group order and permuted back" if ok else "grouped results are not permuted back", nontrivial=False)
    vr = [c for _, c in calls_in(md) if isinstance(c.func, ast.Attribute) and c.func.attr == "_view_rows"]
    spc = [c for _, c in calls_in(md) if isinstance(c.func, ast.Attribute) and c.func.attr == "split"]
    ok = bool(vr) and all(norm(c.func.value) == md.params[0] for c in vr) and bool(spc) and norm(spc[0]) == f"{md.params[0]}.split(*{md.params[0]}._group_colnames)"
    ctx.ob("IDX-3", md, f"{[norm(c) for c in spc + vr]}", vr[0] if vr else md.node, ok,
           "original-position index sets from split are applied to the receiver itself" if ok else
           "grouped modify applies split's index sets to another frame / other keys", clause="grouped modify uses the same partition")
    bc = [c for _, c in calls_in(md) if "DataFrameColumn" in norm(c.func) and kw(c, "nrow") is not None]
    ok = bool(bc) and norm(kw(bc[0], "nrow")) == "x.nrow"
    ctx.ob("IDX-3", md, norm(bc[0]) if bc else "DataFrameColumn(function(x), nrow=x.nrow)", bc[0] if bc else md.node, ok,
           "a scalar group result is broadcast to its group's size" if ok else "group results are not broadcast to the group's row count", nontrivial=False)
    # ---------------------------------------------------------------- MPT-3
    ga = [n for n in body_nodes(ag.node) if isinstance(n, ast.Assign) and is_assign_attr(n, "_group_")]
    ok = False
    why = "data._group_ is never assigned"
    if ga:
        g = ga[0]
        facts = facts_at(ag, g)
        ok = norm(g.value) == "np.repeat(groups, n)" and any(k == "T" and "any(group_aware)" in t for k, t in facts)
        why = "group ids = repeat(arange(#groups), sizes), assigned whenever a group-aware function is present" if ok else \
            f"_group_ is {norm(g.value)} under {sorted(facts)}"
        dg = {norm(n.targets[0]): norm(n.value) for n in body_nodes(ag.node) if isinstance(n, ast.Assign) and norm(n.targets[0]) in ("groups", "n", "group_aware")}
        ok = ok and dg.get("groups") == "Vector.fast(range(len(indices)), int)" and dg.get("n") == "Vector.fast(map(len, indices), int)"
        if not ok and "repeat" in why:
            why = f"group labels / sizes are not derived from the same indices: {dg}"
        cfg = cfg_of(ag)
        gn = cfg_node_of(ag, g)
        calls = [n for n in body_nodes(ag.node) if isinstance(n, ast.Call) and norm(n.func) == "function" and norm(n.args[0]) == "data"]
        for c in calls:
            cnode = cfg_node_of(ag, c)
            f2 = facts_at(ag, c)
            if not any(k == "T" and "group_aware" in t for k, t in f2):
                ok, why = False, "a function is called group-wise without being tested for group_aware"
    ctx.ob("MPT-3", ag, norm(ga[0]) if ga else "data._group_ = ...", ga[0] if ga else ag.node, ok, why,
           clause="contiguous-run scan in helpers")
    rep = [n for n in body_nodes(ag.node) if isinstance(n, ast.Assign) and isinstance(n.targets[0], ast.Subscript) and norm(n.value) == "default"]
    ok = bool(rep) and any(k == "T" and t.endswith("is None") for k, t in facts_at(ag, rep[0])) and \
        any(norm(n.value) == "function.default" for n in body_nodes(ag.node) if isinstance(n, ast.Assign) and norm(n.targets[0]) == "default")
    ctx.ob("MPT-3", ag, "None -> function.default", rep[0] if rep else ag.node, ok,
           "None left by a helper is replaced by that helper's default" if ok else "None results are not replaced by function.default",
           clause="a group left with fewer elements yields the documented default")
    rets = [n for n in body_nodes(ag.node) if isinstance(n, ast.Return)]
    ok = len(rets) == 1 and norm(rets[0].value) == "stat.unselect('_index_', '_group_')"
    ctx.ob("MPT-3", ag, norm(rets[0].value) if rets else "return", rets[0] if rets else ag.node, ok,
           "helper columns are removed from the result" if ok else "result still carries (or wrongly removes) helper columns", nontrivial=False)
    asserts = [n for n in body_nodes(ag.node) if isinstance(n, ast.Assert)]
    ok = any(norm(a.test) == "len(column) == stat.nrow" for a in asserts)
    ctx.ob("MPT-3", ag, "assert len(column) == stat.nrow", asserts[0] if asserts else ag.node, ok,
           "one summary value per group" if ok else "no check that a helper returned one value per group", nontrivial=False)
    # yield_groups contiguity precondition: group change test
    for kn in ("yield_groups", "yield_groups_numba"):
        k = repo.fn(f"{A.AGG}.{kn}")
        conts = [n for n in body_nodes(k.node) if isinstance(n, ast.If) and any(isinstance(x, ast.Continue) for x in n.body)]
        ok = bool(conts) and norm(conts[0].test) == "j < n and group[j] == group[i]"
        loops = [n for n in body_nodes(k.node) if isinstance(n, ast.For)]
        ok = ok and bool(loops) and norm(loops[0].iter) == "range(1, n + 1)"
        sl = [n for n in body_nodes(k.node) if isinstance(n, ast.Assign) and norm(n.value) == "x[i:j]"]
        adv = [n for n in body_nodes(k.node) if isinstance(n, ast.Assign) and norm(n.targets[0]) == "i" and norm(n.value) == "j"]
        ok = ok and bool(sl) and bool(adv)
        ctx.ob("MPT-3", k, "scan: emit x[i:j] whenever group[j] != group[i] or j == n; i = j", conts[0] if conts else k.node, ok,
               "every maximal run of equal group ids is emitted exactly once, covering all rows" if ok else
               "the run scan no longer emits every maximal run x[i:j] (rows are lost or merged)", clause="group sizes sum to nrow")
    # ---------------------------------------------------------------- OWN-3
    summ = I.summary(cn)
    bad = [ev for ev in summ.events if ev.kind == "attr-store" and ev.detail == "._group_colnames" and ours(ev.target.alias)]
    gb = [c for _, c in calls_in(cn) if isinstance(c.func, ast.Attribute) and c.func.attr == "group_by"]
    ok = not bad and bool(gb)
    ctx.ob("OWN-3", cn, norm(gb[0]) if gb else "count", gb[0] if gb else cn.node, ok,
           "count groups a copy of the receiver" if ok else "count regroups the receiver itself: the caller's frame stays grouped",
           clause="count uses the same partition")
    ok = bool(gb) and [norm(a) for a in gb[0].args] == [f"*{cn.vararg}"] and any(
        isinstance(c.func, ast.Attribute) and c.func.attr == "aggregate" and "count()" in norm(c) for _, c in calls_in(cn))
    ctx.ob("OWN-3", cn, "group_by(*colnames).aggregate(n=count())", cn.node, ok, "count is aggregate with the count helper over the given keys" if ok else
           "count is not group_by(*colnames).aggregate(n=count())", nontrivial=False)
    # ------------------------------------------------- GRD-sentinel / empty
    uq = repo.fn(f"{DF}.unique")
    reps = [c for _, c in calls_in(uq) if isinstance(c.func, ast.Attribute) and c.func.attr == "replace_na"]
    apps = [c for _, c in calls_in(uq) if isinstance(c.func, ast.Attribute) and c.func.attr == "append" and norm(c.func.value) == "columns"]
    ok = bool(reps) and bool(apps)
    per_col = ok
    if ok:
        # the appended mask is the mask of the very column being replaced, inside the same loop iteration
        a = apps[0]
        argn = norm(a.args[0]) if a.args else ""
        defs = [d for d in defs_reaching(uq, argn, a)] if argn.isidentifier() else []
        per_col = any(d.value is not None and norm(d.value) == "column.is_na()" for d in defs)
        loop_a = _loop_of(uq, a)
        loop_r = _loop_of(uq, reps[0])
        per_col = per_col and loop_a is not None and loop_a is loop_r
    ctx.ob("GRD-sentinel", uq, "each replaced key column contributes its own NA mask as a key component", apps[0] if apps else uq.node, per_col,
           "a missing value forms a group of its own per key column" if per_col else
           "the NA masks are not added per replaced column (e.g. combined into one): keys differing only in WHICH column is missing "
           "are merged into one group", clause="a missing value forming a group of its own")
    n = grd_empty(ctx, [ag, sp, cn, md], "all frames", only=lambda f: f.module.name == "dataiter.data_frame")
    ctx.note(f"{n} partial-operation site(s) reachable from grouping inside data_frame.py")


def _loop_of(fn, node):
    p = fn.module.parent.get(node)
    while p is not None and p is not fn.node:
        if isinstance(p, ast.For):
            return p
        p = fn.module.parent.get(p)
    return None
