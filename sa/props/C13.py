"""C13 -- conversions to ListOfDicts, JSON, pandas and Arrow are invertible (boundary wiring)."""
import ast
from ..common import calls_in, norm, DF, LOD, VEC, kw
from ..model import AnalysisError, body_nodes, FunctionInfo
from ..facts import facts_at
from ..dataflow import defs_reaching
from ..pattern import pmatch, pstmt, text

EXPLANATION = (
    "Boundary wiring decided from source: (TNT-tolist) every exporter (to_arrow, to_pandas, to_list_of_dicts; to_json and "
    "write_json delegate to them) hands each column to the foreign constructor only as Vector.tolist() output -- the NA->None "
    "boundary, resolved to the override, not ndarray.tolist -- one field per column in colnames order, one record per row; "
    "(SIB-11) the importer twins from_arrow / from_pandas agree on the feature record {null mask taken from the source, "
    "object-dtype fallback to tolist() for type guessing unless object was requested, upcast to na_dtype guarded by "
    "dtype != na_dtype, masked store of na_value under na.any()} and take mask and values from the same source column; "
    "(SIB-5) na_value / na_dtype from the same column; ListOfDicts -> DataFrame fills missing keys with None via pluck/get; "
    "(GRD-sniff) a dtype decision whose only data dependence is one fixed element (object[0]) while callers pass sequences "
    "with missing values at arbitrary positions is a contradicted belief: the decision must depend on no element or on all. "
    "Not decided: the values and dtypes that come back."
)
ASSUMPTIONS = ["pandas / pyarrow treat None in a Python list as their null", "pyarrow is_null(nan_is_null=True) and pandas isna() mark exactly the nulls"]

EXPORTERS = {"to_arrow": "pyarrow.array", "to_pandas": "pandas.DataFrame", "to_list_of_dicts": None}


def check(ctx):
    repo = ctx.repo
    from . import generic as _gen
    _gen.language_traps(ctx, _gen.anchor_functions(repo, "C13"), "the property holds for every input, on every call")
    from . import generic
    generic.bool_is_int(ctx, generic.module_functions(repo, "dataiter.data_frame", "dataiter.vector", "dataiter.list_of_dicts", "dataiter.util"),
                        "the same dtype for every boolean, integer, float and string column")
    generic.finiteness_as_missing(ctx, generic.module_functions(repo, "dataiter.util", "dataiter.list_of_dicts", "dataiter.data_frame", "dataiter.vector"),
                                  "the same values and the same missing positions come back")
    for r, t in (("TNT-tolist", "cells leave the frame only through Vector.tolist (NA -> None)"),
                 ("SIB-11", "from_arrow / from_pandas agree on the import feature record"),
                 ("SIB-5", "NA value and NA dtype from the same column"),
                 ("GRD-sniff", "dtype decisions do not depend on one fixed element")):
        ctx.rule(r, t)
    # ------------------------------------------------------------ TNT-tolist
    n_exp = 0
    for name in EXPORTERS:
        fn = repo.fn(f"{DF}.{name}")
        s0 = fn.params[0]
        n_exp += 1
        # the exporter itself and module-level helpers it hands the frame to (one level)
        scopes = [(fn, s0)]
        for f_, c_ in calls_in(fn):
            r_ = repo.resolve_call(f_, c_)
            if r_[0] == "pkg" and len(r_[1]) == 1 and r_[1][0].cls is None:
                for k_, a_ in enumerate(c_.args):
                    if isinstance(a_, ast.Name) and a_.id == s0 and k_ < len(r_[1][0].params):
                        scopes.append((r_[1][0], r_[1][0].params[k_]))
        subs, raw, others, cols_attr = [], [], [], []
        for g_, p0 in scopes:
            for sub in [n for n in body_nodes(g_.node) if isinstance(n, ast.Subscript) and norm(n.value) == p0 and isinstance(n.ctx, ast.Load)]:
                subs.append((g_, sub))
                par = g_.module.parent.get(sub)
                through = isinstance(par, ast.Attribute) and par.attr == "tolist" and isinstance(g_.module.parent.get(par), ast.Call)
                if not through and isinstance(par, ast.Assign) and len(par.targets) == 1 and isinstance(par.targets[0], ast.Name):
                    # column = self[name]; ... column.tolist() : every use of the temporary is a tolist() call
                    tname = par.targets[0].id
                    loads = [n for n in body_nodes(g_.node) if isinstance(n, ast.Name) and n.id == tname and isinstance(n.ctx, ast.Load)]
                    through = bool(loads) and all(
                        isinstance(g_.module.parent.get(n), ast.Attribute) and g_.module.parent.get(n).attr == "tolist"
                        and isinstance(g_.module.parent.get(g_.module.parent.get(n)), ast.Call) for n in loads)
                if not through:
                    raw.append(sub)
            for n in [n for n in body_nodes(g_.node) if isinstance(n, ast.Call) and isinstance(n.func, ast.Attribute)
                      and n.func.attr in ("items", "values", "columns") and norm(n.func.value) == p0]:
                # for name, column in self.items(): ... column.tolist() ...  -- the column variable only ever appears as the
                # receiver of tolist(): the same sanitised exit as self[name].tolist()
                par = g_.module.parent.get(n)
                colvar = None
                if isinstance(par, (ast.For, ast.comprehension)) and par.iter is n:
                    tg = par.target
                    if n.func.attr == "items" and isinstance(tg, ast.Tuple) and len(tg.elts) == 2 and isinstance(tg.elts[1], ast.Name):
                        colvar = tg.elts[1].id
                    elif n.func.attr == "values" and isinstance(tg, ast.Name):
                        colvar = tg.id
                if colvar is not None:
                    loads = [m for m in body_nodes(g_.node) if isinstance(m, ast.Name) and m.id == colvar and isinstance(m.ctx, ast.Load)]
                    if loads and all(isinstance(g_.module.parent.get(m), ast.Attribute) and g_.module.parent.get(m).attr == "tolist"
                                     and isinstance(g_.module.parent.get(g_.module.parent.get(m)), ast.Call) for m in loads):
                        subs.append((g_, loads[0]))
                        continue
                others.append(n)
            cols_attr += [n for n in body_nodes(g_.node) if isinstance(n, ast.Attribute) and n.attr == "columns" and norm(n.value) == p0]
        ok = bool(subs) and not raw and not others and not cols_attr
        ctx.ob("TNT-tolist", fn, f"columns leave through {[norm(g_.module.parent.get(s_)) for g_, s_ in subs]}", fn.node, ok,
               "every column is exported as tolist() output: missing values cross the boundary as None" if ok else
               f"a column reaches the foreign constructor without Vector.tolist ({[norm(x) for x in raw + others + cols_attr]}): "
               f"missing values are exported as sentinel values (NaN / '' / NaT) instead of nulls",
               clause="missing values cross each boundary as that format's null, never as a sentinel value")
        it = [g.iter for n in ast.walk(fn.node) if isinstance(n, (ast.ListComp, ast.DictComp)) for g in n.generators] + \
             [n.iter for n in ast.walk(fn.node) if isinstance(n, ast.For)]
        it += [n.iter for g_, p0 in scopes[1:] for n in ast.walk(g_.node) if isinstance(n, ast.For)]
        ok = any(norm(i) in (f"{s0}.colnames", f"{s0}.items()") + tuple(f"{p0}.colnames" for _, p0 in scopes)
                 + tuple(f"{p0}.items()" for _, p0 in scopes) for i in it)
        ctx.ob("TNT-tolist", fn, "one field per column, in colnames order", fn.node, ok,
               "all columns are exported in order" if ok else "exporter does not iterate self.colnames", nontrivial=False,
               clause="same column names and order")
    ctx.count("exporters", n_exp, 3)
    ta = repo.fn(f"{DF}.to_arrow")
    tbl = [c for _, c in calls_in(ta) if repo.dotted(ta, c.func) == "pyarrow.table"]
    ok = bool(tbl) and kw(tbl[0], "names") is not None and norm(kw(tbl[0], "names")) == f"{ta.params[0]}.colnames"
    if tbl and not ok and isinstance(kw(tbl[0], "names"), ast.Name) and tbl[0].args and isinstance(tbl[0].args[0], ast.Name):
        # names collected alongside the arrays, in the same loop over self.colnames
        from ..forms import contributions, resolved_text
        cn = contributions(ta, kw(tbl[0], "names").id)
        ca = contributions(ta, tbl[0].args[0].id)
        ok = bool(cn) and bool(ca) and all(
            c["iter"] is not None and norm(c["iter"]) == f"{ta.params[0]}.colnames" and not c["conds"] and c["target"] is not None
            and resolved_text(ta, c["value"], c["node"]) == norm(c["target"]) for c in cn) \
            and all(c["iter"] is not None and any(c["iter"] is d["iter"] for d in cn) and not c["conds"] for c in ca)
    ctx.ob("TNT-tolist", ta, norm(tbl[0]) if tbl else "pa.table(data, names=self.colnames)", tbl[0] if tbl else ta.node, ok,
           "arrays are labelled with colnames in the order they were built" if ok else "arrow table is not labelled with self.colnames", nontrivial=False)
    tl = repo.fn(f"{DF}.to_list_of_dicts")
    rows = [n for n in body_nodes(tl.node) if isinstance(n, ast.Assign) and isinstance(n.value, ast.ListComp)
            and "range(" in norm(n.value) and "nrow" in norm(n.value)]
    def _record_stores():
        """data[i][colname] = value, or row[colname] = value with row walking the record list (for row, v in zip(data, ...))."""
        rname = norm(rows[0].targets[0]) if rows else None
        out = []
        for n in body_nodes(tl.node):
            if not (isinstance(n, ast.Assign) and isinstance(n.targets[0], ast.Subscript)):
                continue
            base = n.targets[0].value
            if isinstance(base, ast.Subscript) and (rname is None or norm(base.value) == rname):
                out.append(n)
            elif isinstance(base, ast.Name) and rname is not None:
                lp = tl.module.parent.get(n)
                while lp is not None and lp is not tl.node:
                    if isinstance(lp, ast.For) and any(isinstance(t, ast.Name) and t.id == base.id for t in ast.walk(lp.target)):
                        it = lp.iter
                        srcs = it.args if isinstance(it, ast.Call) and isinstance(it.func, ast.Name) and it.func.id in ("zip", "enumerate") else [it]
                        if any(norm(a) == rname for a in srcs):
                            out.append(n)
                        break
                    lp = tl.module.parent.get(lp)
        return out
    if not rows or not _record_stores():
        raise AnalysisError(f"{tl.qualname}: the records are not built as one dict per range(nrow) filled by data[i][colname] = value; "
                            f"the one-record-per-row / one-field-per-column rules have nothing to judge")
    ctx.ob("TNT-tolist", tl, norm(rows[0]) if rows else "data = [{} for i in range(self.nrow)]", rows[0] if rows else tl.node, bool(rows),
           "one record per row" if rows else "records are not created one per row", nontrivial=False, clause="one record per row")
    st = _record_stores()
    ok = bool(st)
    why = "every record receives every column, None included"
    for s_ in st:
        # conditions on the CELL (its value, its record): a test of the frame as a whole (a separate path for one-row frames)
        # selects the algorithm, it does not drop cells
        cell_names = {n.id for n in ast.walk(s_.value) if isinstance(n, ast.Name)} | \
                     {n.id for n in ast.walk(s_.targets[0]) if isinstance(n, ast.Name)}
        facts = [(k, t) for k, t in facts_at(tl, s_) if not t.startswith("iter:")
                 and ({n.id for n in ast.walk(ast.parse(t, mode="eval")) if isinstance(n, ast.Name)} & cell_names)]
        if facts:
            ok = False
            why = (f"the cell is stored only under {facts}: records lose the field when the value is missing, so the intermediate "
                   f"object no longer has one field per column and a column whose first value is missing disappears on the way back")
    ctx.ob("TNT-tolist", tl, norm(st[0]) if st else "data[i][colname] = value", st[0] if st else tl.node, ok, why,
           clause="one record per row and one field per column")
    for name in ("to_json", "write_json"):
        fn = repo.fn(f"{DF}.{name}")
        ok = any(isinstance(c.func, ast.Attribute) and c.func.attr == name and "to_list_of_dicts()" in norm(c.func.value) for _, c in calls_in(fn))
        ctx.ob("TNT-tolist", fn, f"{name} delegates to to_list_of_dicts().{name}", fn.node, ok,
               "JSON export goes through the None-converting exporter" if ok else f"{name} no longer goes through to_list_of_dicts()", nontrivial=False)
    # the JSON exporters do not switch the encoder to strict mode on their own: with allow_nan=False json.dumps REFUSES
    # +-inf, which are ordinary float values the statement says cross the boundary
    for q in (f"{DF}.to_json", f"{DF}.write_json", "dataiter.list_of_dicts.ListOfDicts.to_json", "dataiter.list_of_dicts.ListOfDicts.write_json"):
        fnj = repo.functions.get(q)
        if fnj is None:
            continue
        for node in body_nodes(fnj.node):
            hit = None
            if isinstance(node, ast.Call):
                for k in node.keywords:
                    if k.arg == "allow_nan" and isinstance(k.value, ast.Constant) and k.value.value is False:
                        hit = node
                if isinstance(node.func, ast.Attribute) and node.func.attr == "setdefault" and len(node.args) == 2 \
                        and isinstance(node.args[0], ast.Constant) and node.args[0].value == "allow_nan" \
                        and isinstance(node.args[1], ast.Constant) and node.args[1].value is False:
                    hit = node
            elif isinstance(node, ast.Assign) and isinstance(node.targets[0], ast.Subscript) and isinstance(node.targets[0].slice, ast.Constant) \
                    and node.targets[0].slice.value == "allow_nan" and isinstance(node.value, ast.Constant) and node.value.value is False:
                hit = node
            if hit is not None:
                ctx.ob("TNT-tolist", fnj, norm(hit)[:60], hit, False,
                       f"{norm(hit)[:50]} makes json.dumps raise ValueError for inf / -inf: a float column holding an infinity can no longer be "
                       f"converted to JSON at all (missing values are None already and are not affected)",
                       clause="Converting a non-empty data frame to ... JSON text ... and back yields ... the same values")
    tc = repo.functions.get("dataiter.list_of_dicts.ListOfDicts._to_columns")
    if tc is not None:
        # the columns of the frame are the KEYS of the items, whatever their values: a key whose values are all None is a column
        comps = [n for n in ast.walk(tc.node) if isinstance(n, (ast.GeneratorExp, ast.ListComp, ast.SetComp, ast.DictComp))]
        valfilt = [(n, i) for n in comps for g in n.generators for i in g.ifs
                   if any(isinstance(x, ast.Subscript) for x in ast.walk(i)) or ".get(" in norm(i) or ".values()" in norm(i)]
        ctx.ob("TNT-tolist", tc, "keys -> columns, independent of the values", valfilt[0][0] if valfilt else tc.node, not valfilt,
               "every key becomes a column" if not valfilt else
               f"keys are kept only when {norm(valfilt[0][1])}: a key whose values are all missing is dropped, and the column order follows the "
               f"first NON-missing value instead of the keys", clause="the same column names and order ... the same missing positions")
    vt = repo.fn(f"{VEC}.tolist")
    rets = [n for n in body_nodes(vt.node) if isinstance(n, ast.Return)]
    from ..forms import expand as _expand13
    ok = len(rets) == 1 and norm(_expand13(vt, rets[0].value, rets[0])) == f"np.where({vt.params[0]}.is_na(), None, {vt.params[0]}).tolist()"
    ctx.ob("TNT-tolist", vt, norm(rets[0].value) if rets else "Vector.tolist", rets[0] if rets else vt.node, ok,
           "None exactly at the missing positions" if ok else "Vector.tolist no longer puts None at exactly the is_na positions",
           clause="never as a sentinel value")
    # ---------------------------------------------------------------- SIB-11
    recs = {}
    for name in ("from_arrow", "from_pandas"):
        fn = repo.fn(f"{DF}.{name}")
        stm = sorted((x for x in body_nodes(fn.node) if isinstance(x, ast.stmt)), key=lambda x: x.lineno)
        rec = {"mask": None, "values": None, "fallback": None, "fast": None, "upcast": None, "store": None, "yield": None}
        ys = [n for n in body_nodes(fn.node) if isinstance(n, ast.Yield)]
        by = pmatch("(_NAME, _COL)", ys[0].value) if ys else None
        if by is None or not isinstance(by["_COL"], ast.Name):
            raise AnalysisError(f"{fn.qualname}: importer no longer yields (name, column)")
        COL, NAME = by["_COL"].id, text(by["_NAME"])
        # the yielded name may be a rendering of the source label (name if isinstance(name, str) else str(name)): the label
        # the source column is looked up by is the loop variable it is computed from
        if not isinstance(by["_NAME"], ast.Name):
            loopvars = {t_.id for lp_ in ast.walk(fn.node) if isinstance(lp_, ast.For) for t_ in ast.walk(lp_.target) if isinstance(t_, ast.Name)}
            used = sorted({x.id for x in ast.walk(by["_NAME"]) if isinstance(x, ast.Name) and x.id in loopvars})
            if len(used) == 1:
                NAME = used[0]
        rec["yield"] = "(NAME, COL)"

        def norm_t(t, NA=None):
            import re as _re
            t = _re.sub(rf"\b{_re.escape(COL)}\b", "COL", t)
            if NA:
                t = _re.sub(rf"\b{_re.escape(NA)}\b", "NA", t)
            return t
        NA = None
        for n in stm:
            bs = pstmt(f"{COL}[_NA] = {COL}.na_value", n)
            if bs is not None and isinstance(bs["_NA"], ast.Name):
                NA = bs["_NA"].id
                rec["store"] = ("COL[NA] = COL.na_value", sorted(norm_t(t, NA) for k, t in facts_at(fn, n) if k == "T" and not t.startswith("iter:")))
        for n in stm:
            if pstmt(f"{COL} = {COL}.astype({COL}.na_dtype)", n) is not None:
                rec["upcast"] = ("COL.astype(COL.na_dtype)", sorted(norm_t(t, NA) for k, t in facts_at(fn, n) if k == "T" and not t.startswith("iter:")))
            if pstmt(f"{COL} = {COL}.tolist()", n) is not None:
                rec["fallback"] = sorted(norm_t(t, NA).replace("np.dtype(_REQ)", "np.dtype(REQ)") for k, t in facts_at(fn, n) if k == "T" and not t.startswith("iter:"))
            bf = pstmt(f"{COL} = DataFrameColumn.fast({COL}, _REQ)", n)
            if bf is not None:
                req = bf["_REQ"]
                rdefs = [d.value for d in defs_reaching(fn, req.id, n)] if isinstance(req, ast.Name) else []
                okreq = bool(rdefs) and all(rv is not None and pmatch(f"__.get({NAME}, None)", rv) is not None for rv in rdefs)
                rec["fast"] = "DataFrameColumn.fast(COL, REQ)" if okreq else f"DataFrameColumn.fast(COL, {text(req)})"
                rec["req"] = text(req)
        if NA is not None:
            mdefs = [n for n in stm if isinstance(n, ast.Assign) and text(n.targets[0]) == NA]
            rec["mask"] = text(mdefs[0].value) if mdefs else None
        vdefs = [n for n in stm if isinstance(n, ast.Assign) and text(n.targets[0]) == COL and ".to_numpy(" in text(n.value)]
        rec["values"] = text(vdefs[0].value) if vdefs else None
        if rec.get("req") and rec["fallback"]:
            import re as _re
            rec["fallback"] = [_re.sub(rf"\b{_re.escape(rec['req'])}\b", "REQ", t) for t in rec["fallback"]]
        # The record is read along ONE variable holding the column from to_numpy() to the yield.  When the steps exist
        # but are spread over several names (a whole-function rewrite), the idiom is not the one this rule reads: say so
        # instead of reporting missing steps as violations.
        any_store = [n for n in stm if isinstance(n, ast.Assign) and isinstance(n.targets[0], ast.Subscript)
                     and isinstance(n.value, ast.Attribute) and n.value.attr == "na_value"]
        if any_store and (rec["store"] is None or rec["values"] is None or rec["fast"] is None):
            raise AnalysisError(f"{fn.qualname}: the import steps (to_numpy / DataFrameColumn.fast / masked na_value store) are no longer "
                                f"written along one column variable; SIB-11 cannot read its feature record")
        recs[name] = (fn, rec, COL, NAME)
    (fa, a, ca, na_), (fp, b, cb_, nb_) = recs["from_arrow"], recs["from_pandas"]
    src_a = a["mask"] is not None and a["values"] is not None and a["mask"].startswith(f"{ca}.is_null(nan_is_null=True)") and a["values"].startswith(f"{ca}.to_numpy(")
    src_b = False
    if b["mask"] is not None and b["values"] is not None:
        m1 = pmatch("_S.isna().to_numpy(copy=True)", ast.parse(b["mask"], mode="eval").body)
        m2 = pmatch("_S.to_numpy(copy=True)", ast.parse(b["values"], mode="eval").body)
        src_b = m1 is not None and m2 is not None and text(m1["_S"]) == text(m2["_S"]) and text(m1["_S"]).endswith(f"[{nb_}]")
    for fn, rec, src_ok in ((fa, a, src_a), (fp, b, src_b)):
        ctx.ob("SIB-11", fn, f"mask {rec['mask']} / values {rec['values']}", fn.node, bool(src_ok),
               "null mask and values are taken from the same source column, nulls incl. NaN" if src_ok else
               "null mask and values do not come from the same source column (or NaN is not treated as null)",
               clause="the same missing positions")
        ok = rec["store"] is not None and "NA.any()" in rec["store"][1]
        ctx.ob("SIB-11", fn, f"masked store {rec['store']}", fn.node, ok,
               "nulls become the column's own missing value" if ok else "nulls are not stored as column.na_value under the source's mask",
               clause="the same missing positions")
        ok = rec["upcast"] is not None and "COL.dtype != COL.na_dtype" in rec["upcast"][1] \
            and "NA.any()" in rec["upcast"][1]
        ctx.ob("SIB-11", fn, f"upcast {rec['upcast']}", fn.node, ok,
               "a column that cannot hold its missing value is cast to na_dtype first, and only then" if ok else
               "the upcast to na_dtype is missing, unconditional, or not guarded by dtype != na_dtype (integers without nulls would become float)",
               clause="the same dtype for every boolean, integer, float and string column")
        ok = rec["fallback"] is not None and any("np.object_" in t and "COL.dtype" in t for t in rec["fallback"]) and any("REQ is None" in t for t in rec["fallback"])
        ctx.ob("SIB-11", fn, f"object fallback under {rec['fallback']}", fn.node, ok,
               "object arrays are re-guessed from a Python list unless object was requested" if ok else
               "object-dtype source columns are not handed to the type guesser as lists", clause="the same dtype for string columns")
        ok = rec["fast"] == "DataFrameColumn.fast(COL, REQ)" and rec["yield"] == "(NAME, COL)"
        ctx.ob("SIB-11", fn, f"{rec['fast']} -> yield {rec['yield']}", fn.node, ok, "column built with the requested dtype and yielded under its name" if ok else
               "importer does not build DataFrameColumn.fast(column, req_dtype) / yield (name, column)", nontrivial=False)
    diff = {k: (a[k], b[k]) for k in ("fallback", "fast", "upcast", "store", "yield") if a[k] != b[k]}
    ctx.ob("SIB-11", fp, "from_pandas agrees with from_arrow", fp.node, not diff,
           "the importer twins share one feature record" if not diff else f"importer twins disagree on {diff}",
           clause="pandas.DataFrame or pyarrow.Table and back")
    # ----------------------------------------------------------------- SIB-5
    for fn in (fa, fp):
        vals = {norm(n.value) for n in body_nodes(fn.node) if isinstance(n, ast.Attribute) and n.attr == "na_value"}
        dts = {norm(n.value) for n in body_nodes(fn.node) if isinstance(n, ast.Attribute) and n.attr == "na_dtype"}
        ok = vals == dts and len(vals) == 1
        ctx.ob("SIB-5", fn, f"na_value of {sorted(vals)} / na_dtype of {sorted(dts)}", fn.node, ok,
               "value and dtype from the same column" if ok else "NA value and NA dtype are taken from different objects")
    # LoD -> DataFrame
    tc = repo.fn(f"{LOD}._to_columns")
    pl = repo.fn(f"{LOD}.pluck")
    ok = any(isinstance(c.func, ast.Attribute) and c.func.attr == "get" and len(c.args) == 2 and norm(c.args[1]) == pl.params[2]
             for _, c in calls_in(pl)) and "default=None" in norm(pl.node.args).replace(" ", "")
    ctx.ob("SIB-11", pl, "pluck: x.get(key, default=None)", pl.node, ok, "an item lacking a key contributes None" if ok else
           "pluck does not default to None", nontrivial=False, clause="one field per column")
    fj = repo.fn(f"{DF}.from_json")
    gets = [c for _, c in calls_in(fj) if isinstance(c.func, ast.Attribute) and c.func.attr == "get" and len(c.args) == 2 and norm(c.args[1]) == "None"]
    uk = [c for _, c in calls_in(fj) if repo.dotted(fj, c.func) == "dataiter.util.unique_keys"]
    ok = bool(gets) and bool(uk)
    ctx.ob("SIB-11", fj, "from_json: columns = union of keys, x.get(k, None)", fj.node, ok,
           "every key of any record becomes a column, absent values are None" if ok else "from_json does not take the union of keys / default None",
           clause="same column names and order")
    # ------------------------------------------------------------- GRD-sniff
    n_sniff = 0

    def _const_index(sl):
        return (isinstance(sl, ast.Constant) and isinstance(sl.value, int)) or (
            isinstance(sl, ast.UnaryOp) and isinstance(sl.op, ast.USub) and isinstance(sl.operand, ast.Constant)
            and isinstance(sl.operand.value, int))
    for q in (f"{VEC}._np_array", f"{VEC}.fast", f"{VEC}.__new__", f"{VEC}._std_to_np"):
        fn = repo.fn(q)

        def _fixed(e):
            return [n for n in ast.walk(e) if isinstance(n, ast.Subscript) and _const_index(n.slice)
                    and isinstance(n.value, ast.Name) and n.value.id in fn.all_params]
        reported = set()
        for a in [n for n in body_nodes(fn.node) if isinstance(n, ast.Assign) and norm(n.targets[0]) == "dtype"]:
            # the decision reads a fixed element either in a test it is made under or in the assigned value itself
            site, subs = None, []
            cur = fn.module.parent.get(a)
            while cur is not None and cur is not fn.node:
                if isinstance(cur, ast.If) and _fixed(cur.test):
                    site, subs = cur, _fixed(cur.test)
                cur = fn.module.parent.get(cur)
            if site is None and _fixed(a.value):
                site, subs = a, _fixed(a.value)
            if site is None or id(site) in reported:
                continue
            reported.add(id(site))
            n_sniff += 1
            ctx.ob("GRD-sniff", fn, norm(site.test) if isinstance(site, ast.If) else norm(site), site, False,
                   f"the dtype is decided from element {norm(subs[0])} alone; callers (from_pandas / from_arrow hand over tolist() "
                   f"output, Vector.fast any sequence, aggregate() the list of per-group results) pass sequences whose missing values "
                   f"(None) can sit at any position, so a column whose first element is of one kind and a later one missing or of "
                   f"another kind gets the wrong dtype",
                   chain=[f"decision: {norm(a)}"], clause="arbitrary missing positions (incl. first position)")
    if n_sniff == 0:
        ctx.ob("GRD-sniff", repo.fn(f"{VEC}._np_array"), "no dtype decision on a fixed element", repo.fn(f"{VEC}._np_array").node, True,
               "dtype decisions depend on no single fixed element")
