"""C19 -- dt and regex functions act element-wise like datetime and re."""
import ast
import datetime as _dt
from ..common import calls_in, norm, VEC, kw
from ..model import AnalysisError, body_nodes
from ..dataflow import defs_reaching
from ..facts import facts_at
from ..guards import partial_sites, discharge_reduction
from ..signatures import name_uses
from ..pattern import pmatch, pstmt, text, find

EXPLANATION = (
    "Wiring and skeleton agreement decided from source: (FWD-registry) every attribute of DtProxy / ReProxy is bound to the "
    "module function of the same name with the vector in the right parameter position, and every public function of dt / regex "
    "that takes the vector is exposed; (SIB-17) each of the seven regex functions calls re.<its own name> in both its scalar and "
    "its vector branch with the same remaining arguments, forwards every parameter, loops only over np.flatnonzero(~na) and "
    "returns Vector.fast of the prepared output; (SIB-18) each dt extractor's lambda reads the datetime attribute / calls the "
    "datetime method of its own name (kind taken from datetime.datetime of the analysing interpreter; isoweek and quarter are the "
    "two named exceptions); (SIB-19) the three _pull_* helpers share one skeleton: scalar input re-enters as a one-element vector "
    "and returns [0], na = np.isnat(x), results are stored only to out[~na]; (GRD-empty) np.vectorize(f)(x[~na]) is dominated by "
    "the all-missing early return; (MPT-5) if the final return converts the output (as_string(), as_datetime()) every early "
    "return converts it too. Not decided: calendar arithmetic, strftime output, regex semantics."
)
ASSUMPTIONS = ["np.vectorize without otypes raises on size-0 input", "datetime.datetime of the analysing interpreter has the same attribute/method split as at run time"]

EXCEPTIONS = {"isoweek": "isocalendar()[1]", "quarter": "ceil(month / 3)"}


def check(ctx):
    repo = ctx.repo
    from . import generic as _gen
    _gen.language_traps(ctx, _gen.anchor_functions(repo, "C19"), "the property holds for every input, on every call")
    _gen.total_functions(ctx, ["dataiter.vector.Vector.dt", "dataiter.vector.Vector.re", "dataiter.vector.Vector.str"])
    for r, t in (("FWD-registry", "proxy attribute == module function of the same name, vector bound at the right parameter, registry complete"),
                 ("SIB-17", "regex twins call re.<own name> identically in both branches"),
                 ("SIB-18", "dt extractor lambda reads the attribute/method of its own name"),
                 ("SIB-19", "_pull_* skeleton agreement"),
                 ("GRD-empty", "np.vectorize(f)(x[~na]) guarded by the all-missing early return"),
                 ("MPT-5", "early returns apply the same output conversion as the final return")):
        ctx.rule(r, t)
    dtm, rem = repo.modules["dataiter.dt"], repo.modules["dataiter.regex"]
    # --------------------------------------------------------- FWD-registry
    # .str: each attribute NAME is looked up on numpy.strings (the module the statement names), with the vector bound first
    sinit = repo.functions.get("dataiter.vector.StrProxy.__init__")
    if sinit is not None:
        lookups = [c for _, c in calls_in(sinit) if isinstance(c.func, ast.Name) and c.func.id == "getattr" and len(c.args) >= 2]
        mods = sorted({repo.dotted(sinit, c.args[0]) or norm(c.args[0]) for c in lookups})
        ok = mods == ["numpy.strings"]
        ctx.ob("FWD-registry", sinit, f"StrProxy looks its functions up on {mods}", lookups[0] if lookups else sinit.node, ok,
               "every .str attribute is the numpy.strings function of that name" if ok else
               f".str attributes are taken from {mods}, not numpy.strings: functions of the same name in a sibling module (numpy.char) "
               f"differ (its comparison functions reject StringDType arrays), so the proxy no longer returns what the module function returns",
               clause="the Vector .dt, .re and .str proxies return the same results as the module functions")
        sattrs = []
        for n in body_nodes(sinit.node):
            if not (isinstance(n, ast.Assign) and isinstance(n.targets[0], ast.Attribute) and isinstance(n.value, ast.Call)):
                continue
            if n.value.args and isinstance(n.value.args[0], ast.Constant):
                sattrs.append((n.targets[0].attr, n.value.args[0]))          # self.add = wrap("add")
                continue
            # the wrapper written out: ... getattr(np.strings, "add", not_implemented) ...
            gs = [c for c in ast.walk(n.value) if isinstance(c, ast.Call) and isinstance(c.func, ast.Name) and c.func.id == "getattr"
                  and len(c.args) >= 2 and isinstance(c.args[1], ast.Constant)]
            if gs:
                sattrs.append((n.targets[0].attr, gs[0].args[1]))
        bad = [(a, v.value) for a, v in sattrs if a != v.value]
        ctx.ob("FWD-registry", sinit, f"{len(sattrs)} .str attributes named like the function they wrap", sinit.node, not bad and bool(sattrs),
               "self.<name> = wrap('<name>') throughout" if not bad else f"attributes bound to another function's name: {bad[:4]}",
               clause="the .str proxies return the same results as the module functions")
    for proxy, mod, bind in (("DtProxy", dtm, "pos"), ("ReProxy", rem, "string")):
        init = repo.fn(f"dataiter.vector.{proxy}.__init__")
        vecp = init.params[1]
        wraps = [n for n in body_nodes(init.node) if isinstance(n, ast.Assign) and isinstance(n.value, ast.Lambda)
                 and isinstance(n.targets[0], ast.Name)]
        wname = norm(wraps[0].targets[0]) if wraps else "wrap"
        ok = False
        if wraps and isinstance(wraps[0].value, ast.Lambda):
            body = wraps[0].value.body
            if isinstance(body, ast.Call) and norm(body.func) == "functools.partial":
                if bind == "pos":
                    ok = len(body.args) == 2 and norm(body.args[1]) == vecp
                else:
                    k = kw(body, "string")
                    ok = k is not None and norm(k) == vecp and len(body.args) == 1
        from ..forms import expand as _expand
        entries = {}
        direct_bad = []
        n_direct = 0
        for n in body_nodes(init.node):
            if not (isinstance(n, ast.Assign) and isinstance(n.targets[0], ast.Attribute) and norm(n.targets[0].value) == init.params[0]):
                continue
            v = _expand(init, n.value, n, keep=(wname, vecp))
            if isinstance(v, ast.Call) and norm(v.func) == wname and v.args and wraps:
                entries[n.targets[0].attr] = (v.args[0], n)
            elif isinstance(v, ast.Call) and norm(v.func) == "functools.partial" and v.args:
                # bound without the local wrapper: functools.partial(<function>, vector) / (<function>, string=vector)
                n_direct += 1
                entries[n.targets[0].attr] = (v.args[0], n)
                if bind == "pos":
                    good = len(v.args) == 2 and norm(v.args[1]) == vecp and not v.keywords
                else:
                    k = kw(v, "string")
                    good = k is not None and norm(k) == vecp and len(v.args) == 1 and len(v.keywords) == 1
                if not good:
                    direct_bad.append(n)
        if wraps or not n_direct:
            ctx.ob("FWD-registry", init, norm(wraps[0]) if wraps else "wrap", wraps[0] if wraps else init.node, ok,
                   f"vector bound as {'first positional argument' if bind == 'pos' else 'string='}" if ok else
                   "the proxy does not bind the vector to the module function's vector parameter", clause="proxies return the same results as the module functions")
        if n_direct:
            ctx.ob("FWD-registry", init, f"{n_direct} attribute(s) bound by functools.partial directly", direct_bad[0] if direct_bad else init.node,
                   not direct_bad, f"vector bound as {'first positional argument' if bind == 'pos' else 'string='}" if not direct_bad else
                   f"{norm(direct_bad[0])[:80]} does not bind the vector to the module function's vector parameter",
                   clause="proxies return the same results as the module functions")
        for attr, (target, node) in sorted(entries.items()):
            d = repo.dotted(init, target)
            ok = d == f"{mod.name}.{attr}"
            ctx.ob("FWD-registry", init, f"self.{attr} = wrap({norm(target)})", node, ok,
                   "bound to the module function of the same name" if ok else
                   f".{proxy[:2].lower()}.{attr} is bound to {d}, not to {mod.name}.{attr}: the proxy returns another function's result",
                   clause="the Vector .dt, .re proxies return the same results as the module functions")
            f = repo.functions.get(d or "")
            if f is not None:
                ok = (f.params[:1] == ["x"]) if bind == "pos" else ("string" in f.params)
                ctx.ob("FWD-registry", f, f"vector parameter of {f.name}", f.node, ok,
                       "function takes the vector where the proxy puts it" if ok else "function does not take the vector where the proxy binds it",
                       nontrivial=False)
        public = [f for f in mod.functions.values() if not f.name.startswith("_") and
                  ((bind == "pos" and f.params[:1] == ["x"]) or (bind == "string" and "string" in f.params))]
        missing = sorted(f.name for f in public if f.name not in entries)
        ctx.ob("FWD-registry", init, f"registry covers {len(public)} public functions", init.node, not missing,
               "every public function taking the vector is exposed on the proxy" if not missing else
               f"functions {missing} are not exposed on {proxy}", nontrivial=False)
        ctx.count(f"{proxy} entries", len(entries), 15 if proxy == "DtProxy" else 7)
    # --------------------------------------------------------------- SIB-17
    n_re = 0
    for f in rem.functions.values():
        if f.name.startswith("_"):
            continue
        import re as _re_mod
        if not hasattr(_re_mod, f.name):
            # "gives what the same re function returns": a function without a namesake in re is outside the statement
            ctx.note(f"SIB-17: regex.{f.name} has no namesake in the re module; not judged")
            continue
        n_re += 1
        # the matching functions of re; helpers such as re.escape / re.compile(flags) are not results
        RE_MATCHERS = {"re.findall", "re.finditer", "re.fullmatch", "re.match", "re.search", "re.split", "re.sub", "re.subn"}
        re_calls = [c for _, c in calls_in(f) if (repo.dotted(f, c.func) or "") in RE_MATCHERS]
        names = {repo.dotted(f, c.func) for c in re_calls}
        ok = names == {f"re.{f.name}"} and len(re_calls) >= 2
        ctx.ob("SIB-17", f, f"re calls {sorted(names)}", f.node, ok,
               "scalar and vector branch both call re." + f.name if ok else
               f"{f.name} calls {sorted(names)} ({len(re_calls)} call(s)): one branch uses another re function",
               clause="what the same re function returns for that string")
        if len(re_calls) >= 2:
            strp = "string"

            def shape(c):
                pos = []
                for a in c.args:
                    t = norm(a)
                    # an element of the vector under a local name (s := string[i]; x = string[i])
                    if isinstance(a, ast.Name) and a.id != strp:
                        ds_ = defs_reaching(f, a.id, c)
                        if ds_ and all(d.value is not None and norm(d.value).startswith(strp + "[") for d in ds_):
                            t = norm(ds_[0].value)
                    pos.append(t)
                kws = {k.arg: norm(k.value) for k in c.keywords if k.arg is not None}
                # **options with options = dict(maxsplit=maxsplit, flags=flags) / {"count": count, ...}: the entries of the dict
                for k in [k for k in c.keywords if k.arg is None and isinstance(k.value, ast.Name)]:
                    for d_ in defs_reaching(f, k.value.id, c):
                        v_ = d_.value
                        if isinstance(v_, ast.Call) and isinstance(v_.func, ast.Name) and v_.func.id == "dict" and not v_.args:
                            kws.update({kk.arg: norm(kk.value) for kk in v_.keywords if kk.arg is not None})
                        elif isinstance(v_, ast.Dict) and all(isinstance(kk, ast.Constant) for kk in v_.keys):
                            kws.update({kk.value: norm(vv) for kk, vv in zip(v_.keys, v_.values)})
                return pos, kws
            (p1, k1) = shape(re_calls[0])
            for other in re_calls[1:]:
                (p2, k2) = shape(other)
                same = k1 == k2 and len(p1) == len(p2) and all(a == b or (a == strp and b.startswith(strp + "[")) for a, b in zip(p1, p2))
                ctx.ob("SIB-17", f, f"{p1} {k1} vs {p2} {k2}", other, same,
                       "both branches pass the same arguments (element string[i] in the loop)" if same else
                       "scalar and vector branch pass different arguments to re", clause="scalar arguments behave like one-element vectors")
                for p in f.params:
                    fw = all(p in pos or any(v == p for v in kws.values()) or (p == strp and any(x.startswith(strp) for x in pos))
                             for pos, kws in ((p1, k1), (p2, k2)))
                    ctx.ob("SIB-17", f, f"parameter {p} forwarded in both branches", f.node, fw,
                           f"{p} reaches re.{f.name}" if fw else f"parameter {p!r} does not reach re.{f.name} in one of the branches",
                           nontrivial=False)
                for k, v in list(k1.items()) + list(k2.items()):
                    ok = k == v
                    ctx.ob("SIB-17", f, f"{k}={v}", re_calls[0], ok, "keyword carries the parameter of the same name" if ok else
                           f"keyword {k} receives {v}", nontrivial=False)
        loops = [n for n in ast.walk(f.node) if isinstance(n, ast.For)]
        preps = [n for n in body_nodes(f.node) if isinstance(n, ast.Assign) and isinstance(n.targets[0], ast.Tuple)
                 and len(n.targets[0].elts) == 2 and isinstance(n.value, ast.Call) and norm(n.value.func) == "_prep"]
        outn = norm(preps[0].targets[0].elts[0]) if preps else "out"
        nan = norm(preps[0].targets[0].elts[1]) if preps else "na"
        if not preps:
            # the preparation written out in the function itself: out = np.full_like(string, default, dtype); na = string == <NA>
            fl = [n for n in body_nodes(f.node) if isinstance(n, ast.Assign) and isinstance(n.targets[0], ast.Name)
                  and isinstance(n.value, ast.Call) and repo.dotted(f, n.value.func) == "numpy.full_like"]
            nm = [n for n in body_nodes(f.node) if isinstance(n, ast.Assign) and isinstance(n.targets[0], ast.Name)
                  and isinstance(n.value, ast.Compare) and norm(n.value).endswith("== dtypes.string.na_object")]
            if len(fl) != 1 or len(nm) != 1:
                raise AnalysisError(f"{f.qualname}: neither `out, na = _prep(...)` nor an inline default-filled array and NA mask found")
            outn, nan = norm(fl[0].targets[0]), norm(nm[0].targets[0])
            preps = [fl[0]]
        ok = len(loops) == 1 and norm(loops[0].iter) == f"np.flatnonzero(~{nan})"
        ctx.ob("SIB-17", f, f"loop over {norm(loops[0].iter) if loops else '?'}", loops[0] if loops else f.node, ok,
               "only non-missing positions are matched" if ok else "the loop does not run over exactly the non-missing positions",
               clause="a missing value elsewhere")
        rets = [n for n in body_nodes(f.node) if isinstance(n, ast.Return)]
        ok = len(preps) == 1 and any(norm(r.value).startswith(f"Vector.fast({outn}") for r in rets if r.value is not None)
        if len(loops) == 1:
            li = norm(loops[0].target)
            st = [n for n in ast.walk(loops[0]) if isinstance(n, ast.Assign) and isinstance(n.targets[0], ast.Subscript)
                  and norm(n.targets[0].value) == outn]
            ok = ok and bool(st) and all(norm(x.targets[0]) == f"{outn}[{li}]" for x in st)
        ctx.ob("SIB-17", f, "out, na = _prep(...); return Vector.fast(out, ...)", f.node, ok,
               "missing positions keep the prepared default" if ok else "output is not the prepared array", nontrivial=False)
        # every return of the vector branch hands back an array whose missing positions hold the default: the prepared
        # array itself (only element stores since _prep), or an array that received `X[na] = ...` before the return
        if preps:
            from ..common import precedes as _prec
            for r in rets:
                if r.value is None or not _prec(f, preps[0], r):
                    continue
                got = r.value.args[0] if isinstance(r.value, ast.Call) and r.value.args else r.value
                if not isinstance(got, ast.Name):
                    continue
                ds = defs_reaching(f, got.id, r)
                from_prep = bool(ds) and all(d.node is not None and d.node.ast is preps[0] for d in ds)
                masked = any(isinstance(n, ast.Assign) and isinstance(n.targets[0], ast.Subscript) and norm(n.targets[0].value) == got.id
                             and norm(n.targets[0].slice) == nan and _prec(f, n, r) for n in body_nodes(f.node))
                okr = from_prep or masked
                ctx.ob("SIB-17", f, f"return {norm(r.value)[:50]}: {got.id} holds the default at missing positions", r, okr,
                       "the returned array is the one _prep filled with the default (or was masked with the NA positions)" if okr else
                       f"{got.id} is rebound after _prep ({'; '.join(norm(d.node.ast)[:60] for d in ds if d.node is not None and d.node.ast is not None)}) and "
                       f"returned without `{got.id}[{nan}] = ...`: on that path the missing positions are computed like ordinary strings "
                       f"instead of staying missing", clause="a missing value elsewhere")
    # ARG-pass: "what the same re function returns": pattern / repl / count / flags reach re.<name> as the caller gave them.
    # A rebinding (`repl = str(repl)`, `pattern = pattern.strip()`) changes what re sees for some legitimate argument
    # (a callable repl, a compiled pattern, bytes).  Only `string` -- the vector being mapped over -- is prepared.
    ctx.rule("ARG-pass", "the arguments of a regex function other than the string reach the re function as given")
    for f in rem.functions.values():
        import re as _re_mod2
        if f.name.startswith("_") or not hasattr(_re_mod2, f.name):
            continue
        passed = [p_ for p_ in list(f.params) + list(f.kwonly) if p_ != "string"]
        reb = [n for n in body_nodes(f.node) if isinstance(n, (ast.Assign, ast.AugAssign, ast.AnnAssign))
               and any(isinstance(t, ast.Name) and t.id in passed for tt in (n.targets if isinstance(n, ast.Assign) else [n.target]) for t in ast.walk(tt))]
        ctx.ob("ARG-pass", f, f"arguments {passed} of {f.name}", f.node, not reb,
               "none of them is rebound before the re call" if not reb else
               f"`{norm(reb[0])[:60]}` replaces an argument before re.{f.name} sees it: re accepts values (a callable repl, a compiled or "
               f"bytes pattern) that the conversion changes", clause="what the same re function returns for that string")
    ctx.count("regex functions", n_re, 7)
    prep = repo.functions.get("dataiter.regex._prep")
    if prep is None:
        ctx.note("SIB-17: no _prep helper; each function prepares its default-filled output and NA mask itself (checked per function)")
    ok = prep is None or any(pmatch(f"{prep.params[0]} == dtypes.string.na_object", n.value) is not None for n in body_nodes(prep.node) if isinstance(n, ast.Assign)) and \
        any(repo.dotted(prep, c.func) == "numpy.full_like" and len(c.args) >= 2 and norm(c.args[1]) == prep.params[2] for _, c in calls_in(prep))
    if prep is not None:
        ctx.ob("SIB-17", prep, "out = full_like(string, default); na = string == na_object", prep.node, ok,
               "default fill and NA mask of the string dtype" if ok else "_prep no longer prepares default-filled output and the NA mask",
               nontrivial=False)
    # --------------------------------------------------------------- SIB-18
    n_ex = 0
    for f in dtm.functions.values():
        if f.name.startswith("_"):
            continue
        calls = [c for _, c in calls_in(f) if norm(c.func) == "_pull_int" and len(c.args) == 2 and isinstance(c.args[1], ast.Lambda)]
        if not calls:
            continue
        n_ex += 1
        lam = calls[0].args[1]
        body = lam.body
        var = lam.args.args[0].arg
        if f.name in EXCEPTIONS:
            t = norm(body)
            ok = (f.name == "isoweek" and t == f"{var}.isocalendar()[1]")
            ctx.ob("SIB-18", f, norm(lam), lam, ok, "ISO week is element 1 of isocalendar()" if ok else
                   f"isoweek extracts {t}, expected {var}.isocalendar()[1]", clause="what Python's datetime gives for that element")
            continue
        member = getattr(_dt.datetime, f.name, None)
        if member is None:
            # an extractor the statement does not name and datetime has no attribute for: nothing to compare it with
            ctx.note(f"SIB-18: dt.{f.name} has no datetime.datetime counterpart and is not one of the statement's extractors; not judged")
            continue
        want = f"{var}.{f.name}()" if callable(member) else f"{var}.{f.name}"
        ok = norm(body) == want
        ctx.ob("SIB-18", f, norm(lam), lam, ok, f"extracts datetime.{f.name}" if ok else
               f"dt.{f.name} extracts {norm(body)} instead of {want}", clause="what Python's datetime gives for that element")
        ok = norm(calls[0].args[0]) == f.params[0]
        ctx.ob("SIB-18", f, "vector forwarded to _pull_int", calls[0], ok, "x is forwarded" if ok else "x is not forwarded", nontrivial=False)
    q = repo.fn("dataiter.dt.quarter")
    t = " ".join(norm(n) for n in q.node.body if not isinstance(n, ast.Expr))
    ok = f"np.ceil(month({q.params[0]}) / 3)" in t
    ctx.ob("SIB-18", q, "quarter = ceil(month / 3)", q.node, ok, "quarter derived from the month extractor" if ok else
           "quarter is not ceil(month(x) / 3)", clause="quarter")
    ctx.count("dt extractors via _pull_int", n_ex, 9)
    ts = repo.fn("dataiter.dt.to_string")
    def _strftime_in(e):
        """a .strftime(format) call inside ``e``, or inside a local function / lambda that ``e`` names"""
        for c in ast.walk(e):
            if isinstance(c, ast.Call) and isinstance(c.func, ast.Attribute) and c.func.attr == "strftime" \
                    and c.args and norm(c.args[0]) == (ts.params[1] if len(ts.params) > 1 else "format"):
                return True
            if isinstance(c, ast.Name) and c.id in ts.nested and any(
                    isinstance(z, ast.Call) and isinstance(z.func, ast.Attribute) and z.func.attr == "strftime" and z.args
                    and norm(z.args[0]) == (ts.params[1] if len(ts.params) > 1 else "format") for z in ast.walk(ts.nested[c.id].node)):
                return True
        return False
    ok = any(norm(c.func) == "_pull_str" and _strftime_in(c) for _, c in calls_in(ts, False))
    ctx.ob("SIB-18", ts, "to_string -> strftime(format)", ts.node, ok, "format is forwarded to strftime" if ok else "to_string does not call strftime(format)", nontrivial=False)
    # every result of to_string is produced by datetime.strftime: another formatter (np.datetime_as_string, isoformat)
    # agrees with it only on part of the domain (years below 1000, %-directives of the platform)
    from ..forms import expand as _exp19
    for r_ in [n for n in body_nodes(ts.node) if isinstance(n, ast.Return) and n.value is not None]:
        e_ = _exp19(ts, r_.value, r_)
        thr = _strftime_in(e_)
        ctx.ob("SIB-18", ts, f"return {norm(r_.value)[:50]} comes from strftime", r_, thr,
               "formatted by datetime.strftime" if thr else
               f"this exit formats without datetime.strftime ({norm(e_)[:60]}): where the two formatters differ (e.g. the year of dates "
               f"before 1000 is zero-padded by NumPy, not by strftime here) to_string no longer gives what Python's datetime gives, and "
               f"scalar and vector arguments disagree", clause="to_string ... gives at every non-missing position what Python's datetime gives")
    rp = repo.fn("dataiter.dt.replace")
    ok = any(isinstance(c.func, ast.Attribute) and c.func.attr == "replace" and any(k.arg is None for k in c.keywords) for _, c in calls_in(rp))
    ctx.ob("SIB-18", rp, "replace -> datetime.replace(**kwargs)", rp.node, ok, "components are forwarded to datetime.replace" if ok else "replace does not forward components", nontrivial=False)

    # a component is "given" when it is not None: 0 is a legitimate hour / minute / second / microsecond.  No component value
    # may be used as a bare truth value (`if v`, `... and kwargs[k]`, `not v`).
    ctx.rule("ARG-given", "dt.replace tests its components with `is not None`, never by truthiness")
    comps = [p_ for p_ in rp.params[1:] + list(getattr(rp, "kwonly", []))]
    dict_names = {n.targets[0].id for n in body_nodes(rp.node) if isinstance(n, ast.Assign) and len(n.targets) == 1 and isinstance(n.targets[0], ast.Name)
                  and ("locals()" in norm(n.value) or sum(1 for c_ in comps if c_ in {y.id for y in ast.walk(n.value) if isinstance(y, ast.Name)}) >= 3
                       or any(isinstance(y, ast.Name) and y.id in () for y in ast.walk(n.value)))}
    # dicts rebuilt from such dicts
    for _ in range(3):
        dict_names |= {n.targets[0].id for n in body_nodes(rp.node) if isinstance(n, ast.Assign) and len(n.targets) == 1 and isinstance(n.targets[0], ast.Name)
                       and isinstance(n.value, (ast.DictComp, ast.Call, ast.Dict)) and any(isinstance(y, ast.Name) and y.id in dict_names for y in ast.walk(n.value))
                       and isinstance(n.value, ast.DictComp)}
    valvars = set()
    for g_ in [y for y in ast.walk(rp.node) if isinstance(y, (ast.comprehension, ast.For))]:
        it_ = norm(g_.iter)
        if (it_.endswith(".items()") and (it_.startswith("locals()") or it_.split(".")[0] in dict_names)) and isinstance(g_.target, ast.Tuple) \
                and len(g_.target.elts) == 2 and isinstance(g_.target.elts[1], ast.Name):
            valvars.add(g_.target.elts[1].id)
        if it_.endswith(".values()") and it_.split(".")[0] in dict_names and isinstance(g_.target, ast.Name):
            valvars.add(g_.target.id)

    def is_comp_value(e):
        return (isinstance(e, ast.Name) and (e.id in comps or e.id in valvars)) or \
            (isinstance(e, ast.Subscript) and isinstance(e.value, ast.Name) and e.value.id in dict_names)

    def bool_operands(t):
        if isinstance(t, ast.BoolOp):
            for v in t.values:
                yield from bool_operands(v)
        elif isinstance(t, ast.UnaryOp) and isinstance(t.op, ast.Not):
            yield from bool_operands(t.operand)
        else:
            yield t
    tests19 = [n.test for n in ast.walk(rp.node) if isinstance(n, (ast.If, ast.IfExp, ast.While))] + \
              [c_ for g_ in ast.walk(rp.node) if isinstance(g_, ast.comprehension) for c_ in g_.ifs]
    n_tv = 0
    for t in tests19:
        for o in bool_operands(t):
            if is_comp_value(o):
                n_tv += 1
                ctx.ob("ARG-given", rp, norm(t)[:70], t, False,
                       f"`{norm(o)}` -- the value of a component -- is used as a truth value in `{norm(t)[:50]}`: a component given as 0 (hour=0, "
                       f"minute=0, second=0, microsecond=0) counts as `not given` and is not replaced",
                       clause="replace gives what Python's datetime.replace gives at every non-missing position")
    ctx.note(f"ARG-given: {len(tests19)} tests in dt.replace examined, {n_tv} truth-value uses of component values")
    loops = [n for n in ast.walk(rp.node) if isinstance(n, ast.For) and "flatnonzero" in norm(n.iter) or
             (isinstance(n, ast.For) and isinstance(n.iter, ast.Call) and norm(n.iter.func) == "enumerate")]
    for l in [n for n in ast.walk(rp.node) if isinstance(n, ast.For)]:
        rets_r = [n for n in body_nodes(rp.node) if isinstance(n, ast.Return) and isinstance(n.value, ast.Name)]
        outn = rets_r[-1].value.id if rets_r else "out"
        stores = [n for n in ast.walk(l) if isinstance(n, ast.Assign) and isinstance(n.targets[0], ast.Subscript) and norm(n.targets[0].value) == outn]
        if not stores:
            continue
        kwn = [n for n in body_nodes(rp.node) if isinstance(n, ast.Assign) and isinstance(n.value, ast.DictComp) and "locals()" in norm(n.value)]
        kwname = norm(kwn[0].targets[0]) if kwn else "kwargs"
        pos = norm(stores[0].targets[0].slice)
        vec_idx = {norm(n.slice) for n in ast.walk(l) if isinstance(n, ast.Subscript) and isinstance(n.value, ast.Subscript)
                   and norm(n.value.value) == kwname}
        if not vec_idx:
            # any other way of reaching the vector arguments: every element read at a position-like index (a counter of a
            # flatnonzero / range / enumerate loop, or an integer constant) on something that is neither the output nor x
            posvars = set()
            for f_ in [n for n in ast.walk(rp.node) if isinstance(n, ast.For)]:
                it_ = norm(f_.iter)
                if "flatnonzero" in it_ or it_.startswith("range(") or it_.startswith("enumerate("):
                    t_ = f_.target.elts[0] if isinstance(f_.target, ast.Tuple) and it_.startswith("enumerate(") else f_.target
                    posvars |= {n.id for n in ast.walk(t_) if isinstance(n, ast.Name)}
            xo_ = {norm(n.targets[0]) for n in body_nodes(rp.node) if isinstance(n, ast.Assign) and isinstance(n.targets[0], ast.Name)
                   and ".astype(object)" in norm(n.value)}
            for n in ast.walk(l):
                if isinstance(n, ast.Subscript) and isinstance(n.ctx, ast.Load) and norm(n.value) not in xo_ | {outn, rp.params[0]}:
                    sl = n.slice
                    if (isinstance(sl, ast.Constant) and isinstance(sl.value, int)) or \
                            any(isinstance(m, ast.Name) and m.id in posvars for m in ast.walk(sl)):
                        vec_idx.add(norm(sl))
        if not vec_idx:
            # the vector arguments walked in step with the NON-MISSING positions: zip(np.flatnonzero(~na), *vectors) pairs the k-th
            # valid row with the k-th argument element, whatever its position
            zs = [c for c in ast.walk(l.iter) if isinstance(c, ast.Call) and isinstance(c.func, ast.Name) and c.func.id == "zip"
                  and c.args and "flatnonzero" in norm(c.args[0]) and len(c.args) > 1]
            if zs:
                ctx.ob("SIB-19", rp, norm(zs[0])[:80], zs[0], False,
                       f"{norm(zs[0])[:60]} advances through the vector arguments once per NON-MISSING element of x: after a NaT the k-th valid "
                       f"row receives the k-th argument value instead of the value at its own position (and zip silently stops short)",
                       clause="all replace arguments (scalar or vector)")
                continue
            raise AnalysisError(f"{rp.qualname}: no element of a vector argument is read in the loop that fills {outn}; "
                                f"the position agreement of replace() arguments has nothing to judge")
        ok = vec_idx <= {pos} and bool(vec_idx)
        ctx.ob("SIB-19", rp, f"out[{pos}] built from vector arguments indexed {sorted(vec_idx)}", stores[0], ok,
               "vector arguments are read at the vector position that is written" if ok else
               f"the result for position {pos} uses argument elements at {sorted(vec_idx - {pos})}: with a NaT before a valid element "
               f"the components come from another position", clause="all replace arguments (scalar or vector)")
        xo = [n for n in body_nodes(rp.node) if isinstance(n, ast.Assign) and isinstance(n.targets[0], ast.Name)
              and ".astype(object)" in norm(n.value)]
        xon = norm(xo[0].targets[0]) if xo else "xobj"
        src_idx = {norm(n.slice) for n in ast.walk(stores[0].value) if isinstance(n, ast.Subscript) and norm(n.value) in (xon, rp.params[0])}
        full = bool(xo) and norm(xo[0].value) in (f"{rp.params[0]}.astype(object)",)
        ok = (src_idx <= {pos} and full) or (not full and src_idx and src_idx != {pos})
        ctx.ob("SIB-19", rp, f"source element {sorted(src_idx)} of {norm(xo[0].value) if xo else '?'}", stores[0], bool(ok),
               "the element replaced is the one at the written position" if ok else
               "the source element and the written position use indices of different index spaces", nontrivial=False)
    # from_string narrows its result to dates only when EVERY time-of-day component of every parsed value is zero:
    # otherwise to_string -> from_string does not give the datetimes back
    fs = repo.fn("dataiter.dt.from_string")
    dtm = repo.modules["dataiter.dt"]
    tod = []
    for name, g in sorted(dtm.functions.items()):
        lam = [n for n in ast.walk(g.node) if isinstance(n, ast.Lambda)]
        if lam and isinstance(lam[0].body, ast.Attribute) and lam[0].body.attr in ("hour", "minute", "second", "microsecond") \
                and any(isinstance(c, ast.Call) and norm(c.func) == "_pull_int" for c in ast.walk(g.node)):
            tod.append(g.name)
    ctx.count("time-of-day extractors in dataiter.dt", len(tod), 4)
    from ..pattern import pmatch as _pm19
    narrows = [n for n in body_nodes(fs.node) if isinstance(n, (ast.Assign, ast.Return)) and isinstance(n.value, ast.Call)
               and isinstance(n.value.func, ast.Attribute) and n.value.func.attr == "as_date"]
    from ..dataflow import defs_reaching as _dr19
    for n in narrows:
        zero = set()
        for k, t in facts_at(fs, n):
            if k != "T":
                continue
            try:
                e = ast.parse(t, mode="eval").body
            except SyntaxError:
                continue
            b = _pm19("(_E(_A) == 0).all()", e) or _pm19("np.all(_E(_A) == 0)", e) or _pm19("not (_E(_A) != 0).any()", e)
            if b is None or not isinstance(b["_E"], ast.Name):
                continue
            # the argument is the non-missing part of the parsed values, directly or through a local name
            args = [b["_A"]]
            if isinstance(b["_A"], ast.Name):
                args = [d.value for d in _dr19(fs, b["_A"].id, n) if d.value is not None]
            if args and all(_pm19("_O[~_NA]", a) is not None for a in args):
                zero.add(b["_E"].id)
        miss = sorted(set(tod) - zero)
        ctx.ob("SIB-19", fs, f"{norm(n)} only when {sorted(zero)} are all zero", n, not miss,
               "a value is narrowed to a date only when it has no time of day at all" if not miss else
               f"from_string narrows to dates without checking {miss}: values such as 00:00:00.5 (only {miss} non-zero) lose their time "
               f"of day, so from_string(to_string(x, f), f) != x", clause="from_string inverts to_string for unambiguous formats")
    # narrowing inside a conditional expression (return out.as_date() if <test> else out): the test is judged the same way --
    # it has to look at the parsed VALUES; a test on the format text alone cannot know about %c, %X, %T, %r, %s, %+ ...
    from ..dataflow import depends_on as _dep19
    fmt_p = fs.params[1] if len(fs.params) > 1 else "format"
    for ie in [n for n in body_nodes(fs.node) if isinstance(n, ast.IfExp)]:
        for arm, truth in ((ie.body, True), (ie.orelse, False)):
            if not (isinstance(arm, ast.Call) and isinstance(arm.func, ast.Attribute) and arm.func.attr == "as_date"):
                continue
            stmt = ie
            while not isinstance(stmt, ast.stmt):
                stmt = fs.module.parent.get(stmt)
            narrows.append(stmt)
            on_values = any(isinstance(c_, ast.Call) and isinstance(c_.func, ast.Name) and c_.func.id in tod for c_ in ast.walk(ie.test)) or \
                any(isinstance(c_, ast.Call) and isinstance(c_.func, ast.Name) and c_.func.id in tod
                    for nm in ast.walk(ie.test) if isinstance(nm, ast.Name)
                    for d_ in _dr19(fs, nm.id, stmt) if d_.value is not None for c_ in ast.walk(d_.value))
            on_format = _dep19(fs, ie.test, stmt, fmt_p)
            okv = on_values and not (on_format and not on_values)
            ctx.ob("SIB-19", fs, f"{norm(arm)} if {norm(ie.test)[:50]}", ie, okv,
                   "the narrowing test looks at the parsed values" if okv else
                   f"whether the result is narrowed to dates is decided from {'the format text' if on_format else norm(ie.test)[:40]}, not from the "
                   f"parsed values: a format whose time of day comes from a directive the test does not list (%c, %X, %T, %r ...) is "
                   f"truncated to days, so from_string(to_string(x, f), f) != x", clause="from_string inverts to_string for unambiguous formats")
    ctx.count("date-narrowing sites in from_string", len(narrows), 1)
    # --------------------------------------------------------------- SIB-19
    pulls = [repo.fn(f"dataiter.dt.{n}") for n in ("_pull_datetime", "_pull_int", "_pull_str")]
    for f in pulls + [repo.fn("dataiter.dt.from_string")]:
        x = f.params[0]
        sc = [n for n in f.node.body if isinstance(n, ast.If) and "is_scalar" in norm(n.test)]
        ok = False
        if sc:
            b = sc[0].body
            rets = [n for n in b if isinstance(n, ast.Return)]
            asg = [n for n in b if isinstance(n, ast.Assign)]
            ok = bool(rets) and bool(asg) and norm(rets[0].value).startswith(f"{f.name}(") and norm(rets[0].value).endswith(")[0]") \
                and f"[{x}]" in norm(asg[0].value)
        ctx.ob("SIB-19", f, "scalar -> one-element vector -> [0]", sc[0] if sc else f.node, ok,
               "scalar input is handled as a one-element vector" if ok else "scalar branch does not re-enter with [x] and return element 0",
               clause="scalar arguments behave like one-element vectors")
        want = f"np.isnat({x})" if f.name.startswith("_pull") else f"{x} == dtypes.string.na_object"
        nas = [n for n in body_nodes(f.node) if isinstance(n, ast.Assign) and isinstance(n.targets[0], ast.Name) and norm(n.value) == want]
        ok = len(nas) == 1
        NAV = norm(nas[0].targets[0]) if nas else "na"
        ctx.ob("SIB-19", f, norm(nas[0]) if nas else "na = ...", nas[0] if nas else f.node, ok,
               "missing positions are those of the input" if ok else f"NA mask is not {want}", clause="a missing value at every NaT")
        stores = [n for n in body_nodes(f.node) if isinstance(n, ast.Assign) and isinstance(n.targets[0], ast.Subscript)
                  and isinstance(n.targets[0].value, ast.Name)]
        rets_f = [n for n in body_nodes(f.node) if isinstance(n, ast.Return) and n.value is not None]
        outs = {y.id for r_ in rets_f for y in ast.walk(r_.value) if isinstance(y, ast.Name)}
        stores = [n for n in stores if n.targets[0].value.id in outs]
        def _closure(s_):
            """texts of the stored value and of every definition its names are (transitively) computed from"""
            texts, seen_, work_ = [norm(s_.value)], set(), [s_.value]
            for _ in range(5):
                nxt = []
                for e_ in work_:
                    for nm in [y for y in ast.walk(e_) if isinstance(y, ast.Name) and isinstance(y.ctx, ast.Load) and y.id not in seen_ and y.id != x]:
                        seen_.add(nm.id)
                        for d_ in _dr19(f, nm.id, s_):
                            if d_.value is not None and d_.kind == "assign":
                                texts.append(norm(d_.value))
                                nxt.append(d_.value)
                work_ = nxt
            return texts

        def _from_nonmissing(s_):
            tx = _closure(s_)
            import re as _re19
            subs = set(_re19.findall(rf"\b{_re19.escape(x)}\[([^\]]*)\]", " ".join(tx)))
            return f"~{NAV}" in subs and subs <= {f"~{NAV}"}
        ok = bool(stores) and all(norm(s_.targets[0].slice) == f"~{NAV}" and _from_nonmissing(s_) for s_ in stores)
        ctx.ob("SIB-19", f, norm(stores[0]) if stores else "out[~na] = f(x[~na])", stores[0] if stores else f.node, ok,
               "results of the non-missing elements are stored at the non-missing positions" if ok else
               "results are not stored from x[~na] into out[~na]", clause="at every non-missing position what datetime gives")
    # ------------------------------------------------------------ GRD-empty
    n_sites = 0
    for f in pulls + [repo.fn("dataiter.dt.from_string")]:
        for s in partial_sites(repo, f):
            n_sites += 1
            ok, why, chain = discharge_reduction(repo, s)
            ctx.ob("GRD-empty", s.fn, s.text, s.node, ok, why if ok else
                   why + " -- np.vectorize without otypes cannot determine its output type from zero elements and raises "
                   "ValueError: an empty or entirely missing vector is rejected", chain=chain,
                   clause="length >= 0, NaT anywhere")
    ctx.count("np.vectorize application sites", n_sites, 4)
    # ---------------------------------------------------------------- MPT-5
    for f in pulls + [repo.fn("dataiter.dt.from_string")]:
        rets = [n for n in body_nodes(f.node) if isinstance(n, ast.Return) and n.value is not None
                and not norm(n.value).endswith(")[0]")]
        if not rets:
            continue
        final = rets[-1]
        conv = _conversion(final.value, f)
        for r in rets[:-1]:
            c2 = _conversion(r.value, f)
            ok = conv is None or c2 == conv or (conv and c2 and c2.split("(")[0] in (conv.split("(")[0], "as_datetime", "as_date") and conv.split("(")[0] in ("as_datetime", "as_date"))
            if not ok and conv and conv.split("(")[0] in ("as_integer", "as_boolean") and c2 is None:
                # a conversion to a type that cannot hold missing values is applied only when nothing is missing: an early
                # return of the unconverted output taken BECAUSE something is missing is that same rule, not an omission
                p_ = f.module.parent.get(r)
                tests_ = []
                while p_ is not None and p_ is not f.node:
                    if isinstance(p_, ast.If):
                        tests_.append(norm(p_.test))
                    p_ = f.module.parent.get(p_)
                if any(".any()" in t_ or ".all()" in t_ for t_ in tests_) and all("not " not in t_.split(".any()")[0][-8:] for t_ in tests_):
                    ok = True
            ctx.ob("MPT-5", f, f"early return {norm(r.value)} vs final {norm(final.value)}", r, ok,
                   "early return applies the same conversion as the final return" if ok else
                   f"the final return converts the output with .{conv} but this early return hands back the raw object array: "
                   f"the result has another dtype and its missing values are not recognised by is_na",
                   clause="a missing value at every NaT")


def _conversion(expr, fn):
    """Name of the conversion method applied to `out` in a return value (looking through one assignment)."""
    if isinstance(expr, ast.Call) and isinstance(expr.func, ast.Attribute) and expr.func.attr.startswith("as_"):
        return expr.func.attr + "()"
    if isinstance(expr, ast.IfExp):
        return None      # a conditional conversion is not an unconditional one
    if isinstance(expr, ast.Name):
        # out = out.as_datetime() before the return
        from ..dataflow import defs_reaching
        for d in defs_reaching(fn, expr.id, expr):
            if d.value is not None and isinstance(d.value, ast.Call) and isinstance(d.value.func, ast.Attribute) \
                    and d.value.func.attr.startswith("as_"):
                return d.value.func.attr + "()"
    return None
