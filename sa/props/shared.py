"""Rule implementations shared by several property modules."""
import ast
from ..common import interp, ours, calls_in, norm, reachable_functions, DF, VEC, LOD
from ..model import AnalysisError, FunctionInfo, outermost, body_nodes
from ..guards import partial_sites, discharge_reduction, lower_bound, nonempty
from ..facts import facts_at, cfg_node_of
from ..dataflow import defs_reaching, comprehension_binding
from ..cfg import cfg_of


# ------------------------------------------------------------------ GRD-empty
def grd_empty(ctx, roots, clause, rule="GRD-empty", skip_modules=(), only=None, resolved_only=True):
    """Every identity-less reduction reachable from ``roots`` is guarded."""
    repo = ctx.repo
    reach = reachable_functions(repo, roots)
    n = 0
    seen = set()
    for q, f in sorted(reach.items()):
        if f.parent is not None or f.module.name in skip_modules:
            continue
        if only is not None and not only(f):
            continue
        for s in partial_sites(repo, f):
            if id(s.node) in seen:
                continue
            seen.add(id(s.node))
            n += 1
            ok, why, chain = discharge_reduction(repo, s)
            ctx.ob(rule, s.fn, s.text, s.node, ok, why, chain=chain, clause=clause)
    return n


# ------------------------------------------------------------------ GRD-width
def grd_width(ctx, roots, clause):
    """a.astype(f"U{n}") needs n >= 1 (NumPy reads U0 as the unsized flexible dtype)."""
    repo = ctx.repo
    reach = reachable_functions(repo, roots)
    n_sites = 0
    for q, f in sorted(reach.items()):
        if f.parent is not None:
            continue
        for fn, c in calls_in(f):
            if not (isinstance(c.func, ast.Attribute) and c.func.attr == "astype" and c.args
                    and isinstance(c.args[0], ast.JoinedStr)):
                continue
            js = c.args[0]
            parts = js.values
            if not (len(parts) == 2 and isinstance(parts[0], ast.Constant) and parts[0].value in ("U", "<U", "S")
                    and isinstance(parts[1], ast.FormattedValue)):
                continue
            n_sites += 1
            wexpr = parts[1].value
            from ..forms import resolved_text
            wt = resolved_text(fn, wexpr, c)
            exact = False
            if isinstance(wexpr, ast.Name):
                from ..dataflow import defs_reaching as _dr
                dv = [d.value for d in _dr(fn, wexpr.id, c) if d.value is not None]
                exact = bool(dv) and all("str_len()" in norm(v) and norm(v).endswith(".max()") for v in dv)
            ctx.ob("GRD-width", fn, f"width of {norm(c)} is the maximal string length", c, exact,
                   "the fixed width is the length of the longest string, so no element is truncated" if exact else
                   f"the fixed width {wt} is not the maximal string length itself: longer strings are truncated by the cast and distinct "
                   f"values compare equal in sort / rank / unique", clause=clause)
            lb = lower_bound(repo, fn, wexpr, c)
            ok = lb is not None and lb >= 1
            ctx.ob("GRD-width", fn, norm(c), c, ok,
                   f"width {norm(wexpr)} has lower bound {lb}" if ok else
                   f"width {norm(wexpr)} may be 0 (lower bound {lb}): an entirely missing/empty string vector gives dtype "
                   f"'U0', which NumPy treats as the unsized flexible dtype and the cast fails",
                   clause=clause)
    return n_sites


# ---------------------------------------------------------------------- IDX-1
def row_index_of(value, frames=()):
    """Decompose a yielded column expression into (column expr, row index expr, operator)
    or (column expr, None, None) when the column is yielded un-indexed.  ``frames``: names that are frames
    (the receiver, frame parameters): frame[name] is a column lookup, not a row selection."""
    v = value
    # strip trailing .copy()
    while isinstance(v, ast.Call) and isinstance(v.func, ast.Attribute) and v.func.attr in ("copy",) and not v.args:
        v = v.func.value
    if isinstance(v, ast.Call) and isinstance(v.func, ast.Attribute) and isinstance(v.func.value, ast.Name) \
            and v.func.value.id == "np" and v.func.attr in ("take", "delete") and len(v.args) >= 2:
        return v.args[0], v.args[1], v.func.attr
    if isinstance(v, ast.Subscript) and isinstance(v.value, ast.Name) and v.value.id in frames:
        return v, None, None
    if isinstance(v, ast.Subscript):
        return v.value, v.slice, "index"
    return v, None, None


def enclosing_loop(fn, node):
    p = fn.module.parent.get(node)
    while p is not None and p is not fn.node:
        if isinstance(p, (ast.For, ast.While)):
            return p
        p = fn.module.parent.get(p)
    return None


def _within(fn, node, anc):
    p = node
    while p is not None:
        if p is anc:
            return True
        p = fn.module.parent.get(p)
    return False


def loop_invariant(fn, expr, loop, at):
    """No name of ``expr`` is (re)defined inside ``loop``."""
    for n in ast.walk(expr):
        if isinstance(n, ast.Name) and not comprehension_binding(fn, n.id, n):
            for d in defs_reaching(fn, n.id, at):
                if d.node is not None and d.node.ast is not None and _within(fn, d.node.ast, loop) \
                        and d.node.ast is not loop.iter:
                    if d.kind == "for" and d.node.ast is loop:
                        return False, n.id
                    if d.kind != "for":
                        return False, n.id
    return True, None


def yields_of(fn):
    return [n for n in body_nodes(fn.node) if isinstance(n, ast.Yield)]


def idx1(ctx, fn, clause, expect_ops=None, rule="IDX-1"):
    """Every column yielded from a loop over the receiver's columns is indexed
    with one and the same loop-invariant row index."""
    ys = yields_of(fn)
    by_loop = {}
    for y in ys:
        if not (isinstance(y.value, ast.Tuple) and len(y.value.elts) == 2):
            continue
        loop = enclosing_loop(fn, y)
        by_loop.setdefault(id(loop), (loop, []))[1].append(y)
    count = 0
    for _, (loop, items) in by_loop.items():
        idxs = set()
        for y in items:
            colexpr, idx, op = row_index_of(y.value.elts[1], frames=tuple(fn.all_params))
            if idx is None:
                continue
            count += 1
            idxs.add(norm(idx))
            if loop is not None:
                inv, bad = loop_invariant(fn, idx, loop, y)
            else:
                inv, bad = True, None
            ctx.ob(rule, fn, f"yield {norm(y.value)}", y, inv,
                   f"row index {norm(idx)} is defined before the loop and not changed in it" if inv else
                   f"row index {norm(idx)} depends on {bad!r}, which is (re)defined inside the loop over the columns: "
                   f"different columns receive different rows",
                   clause=clause)
            if expect_ops is not None:
                ctx.ob(rule, fn, f"operator of {norm(y.value.elts[1])}", y, op in expect_ops,
                       f"rows applied with {op}" if op in expect_ops else
                       f"rows applied with {op}, expected one of {sorted(expect_ops)}", nontrivial=False, clause=clause)
        if len(idxs) > 1:
            ctx.ob(rule, fn, f"row indices in one loop: {sorted(idxs)}", items[0], False,
                   "columns yielded from the same loop use different row indices", clause=clause)
    return count


# ---------------------------------------------------------------------- clamp
def clamp_check(ctx, fn, size_texts, clause, rule="SIB-3"):
    """count = min(<size>, requested) dominates every use of the count; the requested count is replaced by the default
    only when it was not given.  The clamped value and the requested one may be the same variable (n = min(size, n)) or
    two (after a helper was inlined: length, n = (length_1, min(length_1, n_1)))."""
    repo = ctx.repo
    from ..forms import resolved_text as _rt
    clamps = []          # (statement, min call, clamped variable, requested variable)
    for f, c in calls_in(fn, False):
        if not (isinstance(c.func, ast.Name) and c.func.id == "min" and repo.dotted(f, c.func) == "builtins.min" and len(c.args) == 2):
            continue
        from ..forms import expand as _expand_sz
        rtexts = [_rt(fn, a, c) for a in c.args]
        ntexts = [norm(a) for a in c.args]
        xtexts = [norm(_expand_sz(fn, a, c)) for a in c.args]       # size = len(self); n = min(size, n)
        size_i = next((i_ for i_ in (0, 1) if rtexts[i_] in size_texts or ntexts[i_] in size_texts or xtexts[i_] in size_texts), None)
        if size_i is None or not isinstance(c.args[1 - size_i], ast.Name):
            continue
        req = c.args[1 - size_i].id
        par = fn.module.parent.get(c)
        tgt = None
        stmt = None
        if isinstance(par, ast.Assign) and isinstance(par.targets[0], ast.Name):
            tgt, stmt = par.targets[0].id, par
        elif isinstance(par, ast.Tuple) and isinstance(fn.module.parent.get(par), ast.Assign):
            stmt = fn.module.parent.get(par)
            t0 = stmt.targets[0]
            if isinstance(t0, ast.Tuple) and len(t0.elts) == len(par.elts) and isinstance(t0.elts[par.elts.index(c)], ast.Name):
                tgt = t0.elts[par.elts.index(c)].id
        if tgt is not None:
            clamps.append((stmt, c, tgt, req))
    ok = len(clamps) >= 1
    node = clamps[0][0] if clamps else fn.node
    if not clamps:
        # the count may be clamped inside a helper this check does not see into: that is "cannot tell", not "unclamped"
        passes_on = [c for f, c in calls_in(fn, False) if repo.resolve_call(f, c)[0] in ("pkg", "method")
                     and any(isinstance(a, ast.Name) and a.id in fn.all_params and a.id not in ("self", "cls") for a in c.args)
                     and not (isinstance(c.func, ast.Attribute) and c.func.attr in ("slice", "_new", "copy"))]
        if passes_on:
            raise AnalysisError(f"{fn.qualname}: no `min(size, n)` in the method itself and the count is handed to {norm(passes_on[0].func)}: "
                                f"the clamp was moved where {rule} does not read it")
    if ok:
        cfg = cfg_of(fn)
        stmt, call, var, req = clamps[0]
        cn = cfg_node_of(fn, stmt)
        for n in body_nodes(fn.node):
            if not (isinstance(n, ast.Name) and isinstance(n.ctx, ast.Load) and n.id in (var, req)):
                continue
            un = cfg_node_of(fn, n)
            if un is None or un is cn:
                continue
            if un.kind == "test" and "None" in norm(un.ast):
                continue
            if un.kind == "stmt" and isinstance(un.ast, ast.Assign) and any(isinstance(t, ast.Name) and t.id == req for t in un.ast.targets) \
                    and (isinstance(un.ast.value, ast.IfExp) and "None" in norm(un.ast.value.test) or norm(un.ast.value) == n.id):
                continue          # default handling / parameter hand-over: n = default if n is None else n ; n_1 = n
            if n.id == var and not cfg.dominates(cn, un):
                ok, node = False, n
            if n.id == req and req != var and cfg.dominates(cn, un):
                ok, node = False, n       # the unclamped request is used after the clamp exists
    ctx.ob(rule, fn, f"n = min({sorted(size_texts)[0]}, n)", node, ok,
           "the requested count is clamped to the available size before use" if ok else
           "the requested count is used without (or before) being clamped to the available size: "
           "n > size takes more rows than exist / raises",
           clause=clause)
    # the count the caller asked for is replaced by the default only when it was not given
    if clamps:
        stmt0, _c, _v, req = clamps[0]
        for n in body_nodes(fn.node):
            if isinstance(n, ast.Assign) and n is not stmt0 and any(isinstance(t, ast.Name) and t.id == req for t in n.targets):
                if isinstance(n.value, ast.Name) and n.value.id in fn.all_params:
                    continue      # n_1 = n : the parameter handed to an inlined helper
                facts = set(facts_at(fn, n))
                okd = ("T", f"{req} is None") in facts or ("F", f"{req} is not None") in facts
                if isinstance(n.value, ast.IfExp):
                    from ..forms import split_ifexp
                    okd = all((isinstance(leaf, ast.Name) and leaf.id == req) or ("T", f"{req} is None") in (facts | set(f_))
                              or ("F", f"{req} is not None") in (facts | set(f_)) for leaf, f_ in split_ifexp(n.value))
                ctx.ob(rule, fn, f"{norm(n)} only when {req} is None", n, okd,
                       "the default count replaces a count that was not given" if okd else
                       f"{norm(n)} is not under `{req} is None`: a count given by the caller is replaced by the default "
                       f"(and an omitted one reaches min() as None)", clause=clause)
    return 1


def own2_subset(ctx, methods, clause, rule="OWN-2"):
    """No write effect on receiver/arguments for the given methods (C06 engine)."""
    repo = ctx.repo
    I = interp(repo)
    CACHE = {"._dt", "._re", "._str"}
    for m in methods:
        summ = I.summary(m)
        bad = []
        for ev in summ.events:
            a = ours(ev.target.alias)
            if not a or ev.kind == "obsoletes-call":
                continue
            if ev.kind == "attr-store" and ev.detail in CACHE:
                continue
            if ev.kind == "list-write" and ev.target.kind in ("list", "tuple"):
                continue
            bad.append(ev)
        if bad:
            ev = bad[0]
            site_fn = ev.chain[-1][0] if ev.chain else ev.fn.qualname
            detail = ev.chain[-1][2] if ev.chain else ev.detail
            ctx.ob(rule, repo.functions.get(site_fn, m), detail, ev.node, False,
                   f"{ev.kind} on an object aliasing {sorted(ours(ev.target.alias))} of {m.qualname}",
                   chain=[f"entry {m.qualname}"] + [f"{c[0]}:{c[1]} {c[2]}" for c in ev.chain], clause=clause)
        else:
            ctx.ob(rule, m, f"write effects of {m.name}", m.node, True,
                   "no write reaches receiver or arguments", clause=clause)


# ----------------------------------------------------------------- STATE-read
def state_read(ctx, roots, clause, rule="STATE"):
    """The result of the given methods depends on the columns and the arguments only: the grouping state left
    behind by an earlier group_by() on the same object (``_group_colnames``) is read by aggregate/modify alone."""
    repo = ctx.repo
    reach = reachable_functions(repo, roots)
    n = 0
    for q, f in sorted(reach.items()):
        if f.module.name != "dataiter.data_frame":
            continue
        n += 1
        reads = [x for x in body_nodes(f.node) if isinstance(x, ast.Attribute) and x.attr == "_group_colnames"
                 and isinstance(x.ctx, ast.Load)]
        # group_by -> aggregate/modify are the designated readers; they are not reachable from the subsetting methods
        ctx.ob(rule, f, f"hidden grouping state read in {f.name}", reads[0] if reads else f.node, not reads,
               "no read of _group_colnames" if not reads else
               f"{norm(reads[0])} is read: group_by() stores the grouping on the frame itself and returns the same object, so "
               f"after data.group_by(...).aggregate(...) a later call of this method on data silently depends on that earlier call",
               nontrivial=bool(reads) or f in roots, clause=clause)
    return n


# ------------------------------------------------------------------ GRD-bcast
def grd_broadcast(ctx, roots, clause, rule="GRD-empty"):
    """DataFrameColumn(<one element>, ..., nrow=N) broadcasts -- and its constructor rejects N < 1.  Where a
    one-element literal is broadcast to a row count, that count needs a provable lower bound of 1 (or the
    call needs another construction, e.g. Vector.fast([v]).repeat(N), which is total)."""
    repo = ctx.repo
    ctor = repo.functions.get("dataiter.data_frame.DataFrameColumn.__new__")
    if ctor is None:
        raise AnalysisError("anchor vanished: DataFrameColumn.__new__")
    # arm the rule from the constructor's own precondition: raise under `nrow < 1`
    armed = False
    for n in body_nodes(ctor.node):
        if isinstance(n, ast.Raise):
            if any(("nrow < 1" in t or "nrow <= 0" in t or "nrow == 0" in t) for k, t in facts_at(ctor, n)):
                armed = True
    ctx.note(f"GRD-bcast: DataFrameColumn.__new__ {'rejects' if armed else 'accepts'} broadcasting to fewer than 1 row")
    if not armed:
        return 0
    reach = reachable_functions(repo, roots)
    k = 0
    for q, f in sorted(reach.items()):
        if f.parent is not None or f.module.name != "dataiter.data_frame":
            continue
        for fn, c in calls_in(f):
            d = repo.dotted(fn, c.func)
            if d != "dataiter.data_frame.DataFrameColumn":
                continue
            nrow = next((kk.value for kk in c.keywords if kk.arg == "nrow"), c.args[2] if len(c.args) > 2 else None)
            if nrow is None or not c.args:
                continue
            a = c.args[0]
            single = (isinstance(a, (ast.List, ast.Tuple)) and len(a.elts) == 1 and not isinstance(a.elts[0], ast.Starred)) \
                or (isinstance(a, ast.Constant) and not isinstance(a.value, (str, bytes)))
            if not single:
                continue
            k += 1
            lb = lower_bound(repo, fn, nrow, c)
            ok = lb is not None and lb >= 1
            ctx.ob(rule, fn, norm(c), c, ok,
                   f"row count {norm(nrow)} has lower bound {lb}" if ok else
                   f"a single element is broadcast to {norm(nrow)} rows, which may be 0 (lower bound {lb}): DataFrameColumn "
                   f"raises 'Bad arguments for broadcast' for nrow < 1, so the operation fails on an empty frame",
                   clause=clause)
    return k


# ------------------------------------------------------------------- MEMO-key
STD_CACHES = {"functools.lru_cache", "functools.cache"}     # keyed on all positional and keyword arguments


def memo_keys(ctx, module_names, clause, rule="MEMO-key"):
    """A memoised function is a function of its cache key: every decorator defined in the repository that stores
    results in a container must build the key from ALL parameters of its wrapper."""
    repo = ctx.repo
    n_cached = 0
    for q, f in sorted(repo.functions.items()):
        if f.module.name not in module_names or not f.decorator_nodes:
            continue
        for dnode, dname in zip(f.decorator_nodes, f.decorators):
            if dname in STD_CACHES:
                n_cached += 1
                ctx.ob(rule, f, f"@{norm(dnode)} on {f.name}", dnode, True,
                       f"{dname} keys on every positional and keyword argument", nontrivial=False, clause=clause)
                continue
            dec = repo.functions.get(dname) if dname else None
            if dec is None:
                continue
            for w in dec.nested.values():
                params = set(w.params) | set(w.kwonly) | ({w.vararg} if w.vararg else set()) | ({w.kwarg} if w.kwarg else set())
                stores = []
                for x in body_nodes(w.node):
                    if isinstance(x, ast.Assign) and isinstance(x.targets[0], ast.Subscript) and isinstance(x.targets[0].value, ast.Name):
                        cname = x.targets[0].value.id
                        # the container lives in the decorator's scope (a closure variable), not in the wrapper
                        if cname in params or any(isinstance(y, ast.Name) and y.id == cname and isinstance(y.ctx, ast.Store)
                                                  for y in body_nodes(w.node)):
                            continue
                        stores.append(x)
                for st in stores:
                    n_cached += 1
                    key = st.targets[0].slice
                    knames = set()
                    for e in [key] + [d.value for nm in {y.id for y in ast.walk(key) if isinstance(y, ast.Name)}
                                      for d in defs_reaching(w, nm, st) if d.value is not None]:
                        knames |= {y.id for y in ast.walk(e) if isinstance(y, ast.Name)}
                    missing = params - knames
                    # parameters of the wrapper that cannot carry anything the decorated function accepts are irrelevant
                    if w.kwarg in missing and not (f.kwarg or f.kwonly or len(f.params) > len(w.params)):
                        missing.discard(w.kwarg)
                    if w.vararg in missing and not (f.vararg or len(f.params) > len(w.params)):
                        missing.discard(w.vararg)
                    missing = sorted(missing)
                    ctx.ob(rule, f, f"@{dec.name}: {norm(st.targets[0])} keyed on {norm(key)}", dnode, not missing,
                           f"the cache key covers every parameter of {dec.name}.{w.name}" if not missing else
                           f"{f.name} is memoised by {dec.qualname}, whose cache key {norm(key)} leaves out {missing}: calls that "
                           f"differ only in those arguments share one cache entry, so the first value seen in the process "
                           f"(e.g. the first ddof) is reused for all later ones",
                           clause=clause)
    return n_cached
