"""C03 -- DataFrame.sort is a stable, key-ordered permutation of whole rows."""
import ast
from ..common import calls_in, norm, DF, VEC, kw
from ..model import AnalysisError, body_nodes
from ..facts import facts_at
from ..dataflow import defs_reaching
from .shared import grd_empty, grd_width, idx1, own2_subset

EXPLANATION = (
    "Structural necessary conditions of DataFrame.sort decided from source: (IDX-1) one loop-invariant permutation "
    "(the np.lexsort result) indexes every column; (ORD-1) np.lexsort receives the per-key sort keys in reversed user "
    "order (its last key is primary), the rank fallback is method='min' (ties share a rank so later keys and the stable "
    "lexsort decide), no other sort primitive is used; (DIR) every use of a direction is dominated by the check that "
    "rejects values other than 1/-1; (GRD-empty/GRD-width) reductions and fixed-width casts reached while building sort "
    "keys are guarded for empty and entirely missing columns; (OWN-2) building keys never writes the receiver; (ORD-key) a dtype-class "
    "dataflow over sort_key (which element types may reach each point, refined by the is_* tests; NumPy fact: timedelta64 is an "
    "integer) judges every negation, bitwise complement and as_* conversion of a key against the types on which it keeps all order "
    "relations. Not decided: the comparison semantics of each dtype itself, NA placement."
)
ASSUMPTIONS = ["np.lexsort is a stable sort whose last key is the primary key and returns a permutation"]


def check(ctx):
    repo = ctx.repo
    from . import generic as _gen
    _gen.language_traps(ctx, _gen.anchor_functions(repo, "C03"), "the property holds for every input, on every call")
    _gen.rank_orders_values(ctx, repo.fn("dataiter.vector.Vector.rank"), "numbers numerically ... object columns of mutually comparable values")
    ctx.rule("IDX-1", "one loop-invariant row index for all yielded columns")
    ctx.rule("ORD-1", "lexsort keys in reversed user order; rank(method='min'); no other sort primitive")
    ctx.rule("DIR", "uses of dir dominated by the 1/-1 validation")
    ctx.rule("ORD-key", "dtype-class dataflow over sort_key: negation / complement / conversions of a key only on the element "
             "types where they keep all order information")
    ctx.rule("GRD-empty", "reductions guarded for empty operands")
    ctx.rule("GRD-width", "fixed-width cast width >= 1")
    ctx.rule("OWN-2", "no write on the receiver while sorting")
    sort = repo.fn(f"{DF}.sort")
    n = idx1(ctx, sort, "permutation of whole rows", expect_ops={"index", "take"})
    ctx.count("indexed yields in sort", n, 1)
    # the index is a lexsort permutation
    lex = [(f, c) for f, c in calls_in(sort) if repo.dotted(f, c.func) == "numpy.lexsort"]
    ctx.count("np.lexsort sites", len(lex), 1)
    kwparam = sort.kwarg
    for f, c in lex:
        arg = c.args[0] if c.args else None
        a = arg
        while isinstance(a, ast.Call) and isinstance(a.func, ast.Name) and a.func.id in ("tuple", "list") and a.args:
            a = a.args[0]
        ok, why = False, f"cannot see the key order in {norm(arg) if arg is not None else '?'}"
        it = None
        if isinstance(a, (ast.GeneratorExp, ast.ListComp)) and len(a.generators) == 1:
            it = a.generators[0].iter
        elif isinstance(a, ast.Name):
            from ..forms import contributions
            cs = [x for x in contributions(f, a.id, c) if not x.get("whole")]
            its = {norm(x["iter"]) for x in cs if x["iter"] is not None}
            if len(its) == 1 and all(x["iter"] is not None for x in cs):
                it = cs[0]["iter"]
            else:
                for d in defs_reaching(f, a.id, c):
                    if d.value is not None:
                        it = d.value
        if it is not None:
            t = norm(it)
            rev = (isinstance(it, ast.Call) and isinstance(it.func, ast.Name) and it.func.id == "reversed") or t.endswith("[::-1]")
            uses_param = kwparam is not None and kwparam in {n.id for n in ast.walk(it) if isinstance(n, ast.Name)}
            ok = rev and uses_param
            why = (f"keys are generated from {t}: reversed user order, so the first named column is lexsort's last (primary) key"
                   if ok else
                   f"keys are generated from {t}: np.lexsort treats its LAST key as primary, so the user's first column "
                   f"must come last -- without the reversal the key priority is inverted")
        ctx.ob("ORD-1", sort, norm(c)[:120], c, ok, why, clause="ordered lexicographically by the named columns")
    from .shared import yields_of, row_index_of
    for y in yields_of(sort):
        colexpr, idx, op = row_index_of(y.value.elts[1])
        if isinstance(idx, ast.Name):
            ds = defs_reaching(sort, idx.id, y)
            ok = bool(ds) and all(d.kind == "assign" and isinstance(d.value, ast.Call) and repo.dotted(sort, d.value.func) == "numpy.lexsort" for d in ds)
            ctx.ob("ORD-1", sort, f"{idx.id} = {' | '.join(norm(d.value) if d.value is not None else d.kind for d in ds)[:140]}", y, ok,
                   "rows are permuted by the np.lexsort result itself" if ok else
                   f"the permutation {idx.id} applied to the rows is not (only) the np.lexsort result: reversing or otherwise "
                   f"transforming a stable permutation reverses the order of tied rows",
                   clause="rows equal on all sort keys keep their original relative order")
    if kwparam:
        rebind = [n for n in body_nodes(sort.node) if isinstance(n, ast.Name) and n.id == kwparam and isinstance(n.ctx, ast.Store)]
        ctx.ob("ORD-1", sort, f"{kwparam} is used as given", rebind[0] if rebind else sort.node, not rebind,
               "the requested (column, direction) pairs reach the key construction unchanged" if not rebind else
               f"{kwparam} is rebound before the keys are built: the requested directions/keys are rewritten",
               nontrivial=False, clause="in the requested directions")
    # the function that builds one sort key: whatever the lexsort argument's elements are computed by -- a closure of
    # sort, or a private method / module function it calls with (column name, direction)
    key = sort.nested.get("sort_key")
    if key is None:
        cands = []
        for f, c in calls_in(sort):
            tgt = None
            if isinstance(c.func, ast.Name) and c.func.id in sort.nested:
                tgt = sort.nested[c.func.id]
            elif isinstance(c.func, ast.Attribute) and isinstance(c.func.value, ast.Name) and c.func.value.id == sort.params[0]:
                tgt = repo.functions.get(f"{DF}.{c.func.attr}")
            elif isinstance(c.func, ast.Name):
                tgt = repo.functions.get(f"{sort.module.name}.{c.func.id}")
            if tgt is not None and tgt is not sort and len([p_ for p_ in tgt.params if p_ not in ("self", "cls")]) == 2 \
                    and any(isinstance(n, ast.Return) and n.value is not None for n in body_nodes(tgt.node)):
                cands.append(tgt)
        if len({id(x) for x in cands}) == 1:
            key = cands[0]
    key_params = [p_ for p_ in key.params if p_ not in ("self", "cls")] if key is not None else []
    scope = [sort] + list(sort.nested.values()) + ([key] if key is not None and key not in sort.nested.values() else [])
    for fn in scope:
        for f, c in calls_in(fn, False):
            d = repo.dotted(f, c.func)
            if isinstance(c.func, ast.Attribute) and c.func.attr == "rank":
                m = kw(c, "method")
                ok = isinstance(m, ast.Constant) and m.value == "min"
                ctx.ob("ORD-1", fn, norm(c), c, ok,
                       "rank fallback uses method='min': tied keys get equal ranks" if ok else
                       f"rank fallback uses {norm(m) if m is not None else 'the default'}: with 'ordinal'/'max' tied keys get "
                       f"ranks that depend on position, so later sort keys no longer break ties / descending ties reverse",
                       clause="rows equal on all sort keys keep their original relative order")
            if d in ("numpy.argsort", "numpy.sort", "builtins.sorted") or (
                    isinstance(c.func, ast.Attribute) and c.func.attr in ("argsort", "sort") and d is None):
                ctx.ob("ORD-1", fn, norm(c), c, False,
                       "a second sort primitive inside DataFrame.sort: stability and key priority are decided by np.lexsort alone",
                       clause="stable")
    # ------------------------------------------------------------------ DIR
    if key is None:
        raise AnalysisError("anchor vanished: DataFrame.sort.sort_key")
    dparam = key_params[1] if len(key_params) > 1 else None
    n_dir = 0
    if dparam:
        for n in body_nodes(key.node):
            if isinstance(n, ast.Name) and n.id == dparam and isinstance(n.ctx, ast.Load):
                par = key.module.parent.get(n)
                if isinstance(par, ast.Compare) and any(isinstance(o, (ast.In, ast.NotIn)) for o in par.ops):
                    continue
                n_dir += 1
                facts = facts_at(key, n)
                ok = any(("in" in t.split()) and dparam in t and "1" in t and "-1" in t and
                         ((k == "F" and "not in" in t) or (k == "T" and "not in" not in t)) for k, t in facts)
                ctx.ob("DIR", key, f"use of {dparam}: {norm(par)[:60]}", n, ok,
                       "use is dominated by the rejection of directions other than 1/-1" if ok else
                       f"direction {dparam} is used without having been validated: values other than 1/-1 silently sort "
                       f"in some direction", clause="requested directions")
    ctx.count("uses of the direction", n_dir, 1)
    # ------------------------------------------------------------- ORD-key
    from ..dtclass import operations, SAFE
    keyvars = set()
    for _, leaf, _f in __import__("sa.forms", fromlist=["value_cases"]).value_cases(key, "return"):
        for nn in ast.walk(leaf):
            if isinstance(nn, ast.Name):
                keyvars.add(nn.id)
    keyvars -= set(key.params)
    n_ops = 0
    for var in sorted(keyvars):
        for node, op, classes in operations(key, var):
            n_ops += 1
            bad = sorted(classes - SAFE[op])
            what = {"neg": "negation", "invert": "bitwise complement"}.get(op, op + "()")
            ctx.ob("ORD-key", key, f"{what} of the sort key: {norm(node)}", node, not bad,
                   f"{what} is applied only to element types {sorted(classes)} on which it keeps every order relation" if not bad else
                   f"{what} is applied to a key that may be of element type {bad} (I signed / U unsigned integer, F float, "
                   f"SF/SV string, DT datetime, B bool, O object): "
                   + ("unsigned integers wrap around (0 stays first) and the smallest signed integer overflows to itself, so a "
                      "descending sort misplaces those rows" if op == "neg" else
                      "integers above 2**53 that differ only in low bits become equal, so they are no longer ordered"
                      if op == "as_float" else "the operation does not preserve the order on that type"),
                   clause="numbers numerically ... in the requested directions")
    ctx.count("order-relevant operations on the sort key", n_ops, 1)
    # the requested direction is applied: an ascending key is returned as it is, a descending key through exactly one
    # order reversal (negation or complement)
    from ..forms import value_cases as _vc

    def _reversals(e):
        k = 0
        while True:
            if isinstance(e, ast.UnaryOp) and isinstance(e.op, (ast.USub, ast.Invert)):
                k += 1
                e = e.operand
            elif isinstance(e, ast.BinOp) and isinstance(e.op, ast.Mult) and any(
                    isinstance(z, ast.UnaryOp) and isinstance(z.op, ast.USub) and isinstance(z.operand, ast.Constant) and z.operand.value == 1
                    for z in (e.left, e.right)):
                k += 1
                e = e.left if isinstance(e.right, ast.UnaryOp) else e.right
            else:
                return k, e
    n_dirret = 0
    from ..facts import facts_at_resolved as _far
    for rnode, leaf, facts in _vc(key, "return"):
        facts = set(facts) | set(_far(key, rnode))
        k, base = _reversals(leaf)
        if not isinstance(base, ast.Name):
            continue
        asc = ("T", f"{dparam} > 0") in facts or ("T", f"{dparam} == 1") in facts or ("F", f"{dparam} < 0") in facts
        desc = ("F", f"{dparam} > 0") in facts or ("T", f"{dparam} < 0") in facts or ("T", f"{dparam} == -1") in facts
        if not (asc or desc):
            continue
        n_dirret += 1
        ok = (asc and k == 0) or (desc and k % 2 == 1)
        ctx.ob("DIR", key, f"return {norm(leaf)} for {'ascending' if asc else 'descending'} keys", rnode, ok,
               "ascending keys are returned as they are, descending keys reversed once" if ok else
               (f"the key of a DESCENDING sort is returned without an order reversal ({norm(leaf)}): dir=-1 sorts ascending" if desc else
                f"the key of an ASCENDING sort is returned reversed ({norm(leaf)})"), clause="in the requested directions")
    ctx.count("direction-specific returns of sort_key", n_dirret, 2)
    # string keys with missing values.  (a) No string constant may stand for "missing" in a key: every string can occur in
    # the data, so some real value sorts after (or ties with) the constant and the missing rows are no longer last.
    # (b) In the world where the key HAS missing values, no return of sort_key hands a string-class key to lexsort as it
    # is ('' sorts before every string); rank() is what places the missing values last.
    from ..pattern import pstmt as _ps
    from ..dtclass import analyse as _an
    from ..facts import cfg_node_of as _cn
    n_inband = 0
    for n in [m for m in body_nodes(key.node) if isinstance(m, ast.Assign)]:
        b_ = _ps("_V[_M] = _C", n)
        if b_ is None or not (isinstance(b_["_C"], ast.Constant) and isinstance(b_["_C"].value, str)):
            continue
        mtxt = norm(b_["_M"])
        if isinstance(b_["_M"], ast.Name):
            md = defs_reaching(key, b_["_M"].id, n)
            mtxt = " ".join(norm(d.value) for d in md if d.value is not None)
        if "is_na()" not in mtxt:
            continue
        n_inband += 1
        ctx.ob("ORD-key", key, norm(n), n, False,
               f"the string constant {b_['_C'].value!r} stands for the missing values of a string key: it is an ordinary string, so a value "
               f"that sorts after it (any text starting with a code point above U+{ord(b_['_C'].value[0]) if b_['_C'].value else 0:04X}) or equal to it is placed after / among "
               f"the rows whose key is missing -- they are not at the end of an ascending sort and not at one end of a descending one",
               clause="Rows whose key is missing are placed together at one end of their tie group, and at the end whenever that key is sorted ascending")
    kvars = sorted({norm(r.value.operand if isinstance(r.value, ast.UnaryOp) else r.value) for r in body_nodes(key.node)
                    if isinstance(r, ast.Return) and r.value is not None
                    and isinstance(r.value.operand if isinstance(r.value, ast.UnaryOp) else r.value, ast.Name)})
    n_kret = 0
    for kv in kvars:
        _cfg, IN = _an(key, kv, assume_true=(f"{kv}.is_na().any()",))
        for r in [m for m in body_nodes(key.node) if isinstance(m, ast.Return) and m.value is not None]:
            core = r.value.operand if isinstance(r.value, ast.UnaryOp) else r.value
            if not (isinstance(core, ast.Name) and core.id == kv):
                continue
            nd = _cn(key, r)
            st = IN.get(nd.id) if nd is not None else None
            if st is None:
                continue
            n_kret += 1
            bad = sorted(set(st) & {"SF", "SV"})
            ctx.ob("ORD-key", key, f"return {norm(r.value)}: no string-class key with missing values reaches lexsort", r, not bad,
                   "with missing values present, string keys have been replaced by their rank (missing ranked last) before this return" if not bad else
                   f"a {'fixed-width' if 'SF' in bad else 'variable-width'} string key that has missing values can reach this return as it is: "
                   f"missing strings are '' and sort BEFORE every string, so rows with a missing key come first in an ascending sort",
                   clause="Rows whose key is missing are placed ... at the end whenever that key is sorted ascending")
    _an(key, "column")     # leave the engine without a standing hypothesis
    ctx.count("returns of sort_key judged for string keys with missing values", n_kret, 2)
    ctx.note(f"ORD-key: {n_inband} in-band string sentinel(s) in sort_key")
    # the argsort optimisation keeps the key in the string family: only there does is_na() (== '') still find the
    # missing values that the sentinel / rank step places last
    opt = repo.functions.get(f"{VEC}._optimize_for_argsort")
    if opt is not None:
        casts = [c for _, c in calls_in(opt) if isinstance(c.func, ast.Attribute) and c.func.attr in ("astype", "view") and c.args]
        for c in casts:
            a = c.args[0]
            lead = None
            if isinstance(a, ast.JoinedStr) and a.values and isinstance(a.values[0], ast.Constant):
                lead = str(a.values[0].value)
            elif isinstance(a, ast.Constant) and isinstance(a.value, str):
                lead = a.value
            okc = (lead is not None and lead.lstrip("<>=|").startswith("U")) or norm(a) in ("str", "dtypes.string", "np.str_")
            ctx.ob("ORD-key", opt, norm(c), c, okc,
                   "the optimised key is still a (fixed-width) string column: '' is recognised as missing afterwards" if okc else
                   f"the key is converted to {norm(a)}, which is not a string dtype: is_na() of the converted column no longer reports the "
                   f"missing (empty) strings, so neither the sentinel nor rank() moves them to the end and they sort first",
                   clause="Rows whose key is missing are placed ... at the end whenever that key is sorted ascending")
        ctx.count("casts in _optimize_for_argsort", len(casts), 0)
    # ------------------------------------------------- GRD / OWN
    n = grd_empty(ctx, [sort], "sorting succeeds for empty frames and entirely missing columns",
                  only=lambda f: f.module.name in ("dataiter.vector", "dataiter.data_frame")
                  and f.name in ("sort", "sort_key", "rank", "_optimize_for_argsort"))
    ctx.count("partial-operation sites", n, 1)
    w = grd_width(ctx, [sort], "sorting succeeds for entirely missing columns")
    ctx.count("fixed-width cast sites", w, 1)
    own2_subset(ctx, [sort], "no value altered in any column")
