"""C12 -- writing a file and reading it back: routing, symmetry, option liveness."""
import ast
from ..common import calls_in, norm, DF, LOD, GEO, kw
from ..model import AnalysisError, FunctionInfo, body_nodes
from ..signatures import name_uses
from ..dataflow import defs_reaching
from ..facts import facts_at
from .. import tables

EXPLANATION = (
    "Routing analysis of every reader/writer pair (DataFrame csv/json/npz/parquet/pickle, ListOfDicts csv/json/pickle, GeoJSON "
    "read/write): (TNT-route) the user's path may flow only to util.xopen, util.makedirs_for_file, a delegated reader/writer, or "
    "an external API listed in the external summary table; from the sinks the check derives, for every suffix in "
    "{'', .gz, .bz2, .xz}, which file is addressed and whether the data is (de)compressed, and requires writer and reader of one "
    "format to agree -- and to (de)compress all three suffixes when the method's own docstring promises it; (SIB-10) util.xopen "
    "maps .bz2/.gz/.xz to bz2/gzip/lzma.open and forwards path and mode; (FWD-live) encoding, sep, header, compress, allow_pickle and **kwargs each reach a callee; the ListOfDicts CSV reader "
    "and writer agree on every formatting parameter that changes parsing (dialect, delimiter, quote/escape characters, "
    "skipinitialspace); every opener inside xopen receives **kwargs and every xopen call names its text/binary class explicitly "
    "('r' is text for open() but binary for gzip/bz2/lzma.open()). Not decided: equality of values/dtypes after the trip, CSV quoting, Arrow types."
)
ASSUMPTIONS = ["external summary table (sa/tables.py ROUTES): pyarrow.csv.read_csv decompresses .gz/.bz2 by suffix, "
               "pyarrow.csv.write_csv never compresses, np.savez appends .npz to str paths, np.load/open address the given path",
               "an API handed a file object addresses that object and does no (de)compression of its own"]

PAIRS = [
    (f"{DF}.write_csv", f"{DF}.read_csv"), (f"{DF}.write_json", f"{DF}.read_json"), (f"{DF}.write_npz", f"{DF}.read_npz"),
    (f"{DF}.write_parquet", f"{DF}.read_parquet"), (f"{DF}.write_pickle", f"{DF}.read_pickle"),
    (f"{LOD}.write_csv", f"{LOD}.read_csv"), (f"{LOD}.write_json", f"{LOD}.read_json"),
    (f"{LOD}.write_pickle", f"{LOD}.read_pickle"), (f"{GEO}.write", f"{GEO}.read"),
]
IGNORE = {"dataiter.util.makedirs_for_file", "builtins.str", "pathlib.Path", "builtins.print", "builtins.repr"}


def xopen_table(repo):
    """suffix -> opener, read from util.xopen's own branches."""
    xo = repo.fn("dataiter.util.xopen")
    table = {}
    details = {}
    for n in xo.node.body:
        if isinstance(n, ast.If):
            t = n.test
            if isinstance(t, ast.Call) and isinstance(t.func, ast.Attribute) and t.func.attr == "endswith" and t.args \
                    and isinstance(t.args[0], ast.Constant):
                suf = t.args[0].value
                rets = [x for x in ast.walk(n) if isinstance(x, ast.Return)]
                for r in rets:
                    if isinstance(r.value, ast.Call):
                        table[suf] = repo.dotted(xo, r.value.func)
                        details[suf] = r.value
    plain = [n for n in xo.node.body if isinstance(n, ast.Return)]
    return xo, table, details, plain


def route_of(repo, fn, pname="path", depth=0, seen=None):
    """Terminal sinks of the path parameter: list of (kind, detail, node, fn)."""
    seen = seen or set()
    if fn.qualname in seen or depth > 3:
        return []
    seen.add(fn.qualname)
    sinks = []
    for u in name_uses(fn, pname):
        par = fn.module.parent.get(u)
        if isinstance(par, ast.keyword):
            call = fn.module.parent.get(par)
        elif isinstance(par, ast.Call) and u in par.args:
            call = par
        elif isinstance(par, ast.Starred):
            call = fn.module.parent.get(par)
        else:
            sinks.append(("other", norm(par) if par is not None else pname, u, fn))
            continue
        r = repo.resolve_call(fn, call)
        d = None
        if r[0] == "ext":
            d = r[1]
        elif r[0] == "pkg":
            t = r[1][0]
            d = t.qualname
        elif r[0] == "local":
            # local alias of functions: savez = np.savez_compressed if compress else np.savez
            ds = set()
            for df in defs_reaching(fn, r[1], call):
                if df.value is not None:
                    for sub in ast.walk(df.value):
                        if isinstance(sub, (ast.Attribute, ast.Name)):
                            dd = repo.dotted(fn, sub)
                            if dd and dd in tables.ROUTES:
                                ds.add(dd)
            for dd in sorted(ds):
                sinks.append(("ext", dd, call, fn))
            if ds:
                continue
        elif r[0] == "method":
            # delegation: X.write_json(path, ...) on a converted object
            cands = [c.methods[r[1]] for c in repo.classes.values() if r[1] in c.methods]
            if len(cands) >= 1 and r[1].startswith(("read", "write", "from_", "to_")):
                for t in cands:
                    sinks += route_of(repo, t, t.params[1] if len(t.params) > 1 else pname, depth + 1, seen)
                continue
        if d is None:
            sinks.append(("other", norm(call), call, fn))
        elif d in IGNORE:
            continue
        elif d == "dataiter.util.xopen":
            mode = call.args[1] if len(call.args) > 1 else kw(call, "mode")
            sinks.append(("xopen", norm(mode) if mode is not None else "'r'", call, fn))
        elif d in tables.ROUTES:
            sinks.append(("ext", d, call, fn))
        elif d in repo.functions:
            t = repo.functions[d]
            idx = call.args.index(u) if u in call.args else None
            tp = [p for p in t.params if p not in ("self", "cls")]
            p2 = tp[idx] if idx is not None and idx < len(tp) else pname
            sinks += route_of(repo, t, p2, depth + 1, seen)
        else:
            sinks.append(("other", d, call, fn))
    return sinks


def behaviour(sinks, xtable, role):
    """(addresses, {suffix: compressed?}) for the data file, from the sinks."""
    addr = set()
    comp = {}
    for kind, detail, node, fn in sinks:
        if kind == "xopen":
            addr.add("same")
            for s in tables.SUFFIXES:
                comp.setdefault(s, set()).add(s in xtable)
        elif kind == "ext":
            row = tables.ROUTES[detail]
            addr.add(row["addresses"])
            key = "compress" if role == "write" else "decompress"
            for s in tables.SUFFIXES:
                comp.setdefault(s, set()).add(s in row.get(key, set()))
    return addr, comp


def check(ctx):
    repo = ctx.repo
    from . import generic as _gen
    _gen.language_traps(ctx, _gen.anchor_functions(repo, "C12"), "the property holds for every input, on every call")
    for r, t in (("TNT-route", "path flows only to xopen / makedirs_for_file / delegated sibling / tabled external API; writer and "
                               "reader agree on the file addressed and on (de)compression for every suffix"),
                 ("SIB-10", "xopen suffix table, mode forwarding, text/binary mode class agreement"),
                 ("FWD-live", "every option of readers/writers reaches a callee; LoD CSV reader/writer agree on dialect/delimiter")):
        ctx.rule(r, t)
    ctx.trust("external summary table sa/tables.py ROUTES")
    xo, xtable, xdetails, plain = xopen_table(repo)
    if not xtable:
        raise AnalysisError("util.xopen no longer selects its opener with `if str(path).endswith(<suffix>)` branches: the suffix table "
                            "cannot be read from the code; SIB-10 / TNT-route need re-confirmation")
    want = {".bz2": "bz2.open", ".gz": "gzip.open", ".xz": "lzma.open"}
    ctx.ob("SIB-10", xo, f"suffix table {xtable}", xo.node, xtable == want,
           "xopen maps .bz2/.gz/.xz to the matching stdlib opener" if xtable == want else
           f"xopen's suffix table {xtable} differs from {want}: a suffix is not (or wrongly) compressed",
           clause="paths ending in .gz, .bz2 or .xz are really compressed on write and transparently decompressed on read")
    for suf, call in xdetails.items():
        ok = len(call.args) >= 2 and norm(call.args[0]) == xo.params[0] and norm(call.args[1]) == xo.params[1]
        ctx.ob("SIB-10", xo, norm(call), call, ok, "path and mode are forwarded" if ok else
               f"opener for {suf} does not receive (path, mode)", nontrivial=False)
    # every opener receives the caller's keyword arguments (encoding, newline, ...)
    openers = list(xdetails.items()) + [("(none)", r.value) for r in plain if isinstance(r.value, ast.Call)]
    for suf, call in openers:
        def _carries_kwargs(k):
            """**kwargs itself, or **<local dict> whose every definition is a dict display / dict(...) that unpacks **kwargs"""
            if not (k.arg is None and isinstance(k.value, ast.Name)):
                return False
            if k.value.id == xo.kwarg:
                return True
            from ..dataflow import defs_reaching as _dr12
            ds_ = [d for d in _dr12(xo, k.value.id, call)]
            def unpacks(v):
                if isinstance(v, ast.Dict):
                    return any(kk is None and isinstance(vv, ast.Name) and vv.id == xo.kwarg for kk, vv in zip(v.keys, v.values))
                if isinstance(v, ast.Call) and isinstance(v.func, ast.Name) and v.func.id == "dict":
                    return any(kw_.arg is None and isinstance(kw_.value, ast.Name) and kw_.value.id == xo.kwarg for kw_ in v.keywords) or \
                        (v.args and isinstance(v.args[0], ast.Name) and v.args[0].id == xo.kwarg)
                return False
            return bool(ds_) and all(d.value is not None and unpacks(d.value) for d in ds_)
        fwd = xo.kwarg is not None and any(_carries_kwargs(k) for k in call.keywords)
        ctx.ob("SIB-10", xo, f"keyword arguments reach {norm(call.func)} for suffix {suf}", call, fwd,
               f"**{xo.kwarg} is forwarded" if fwd else
               f"the opener for suffix {suf} is called without **{xo.kwarg}: the encoding requested by the caller is dropped for "
               f"those paths and the platform default is used instead, so a file written in another encoding than the default "
               f"cannot be read back consistently (CSV is read back through the binary route)",
               clause="every encoding option used consistently on both sides, and for paths ending in .gz, .bz2 or .xz")
    # a mode without an explicit 't' or 'b' means text for open() but binary for gzip/bz2/lzma.open()
    n_modes = 0
    for q, f in sorted(repo.functions.items()):
        if f.module.name.startswith("dataiter.test"):
            continue
        for ff, c in calls_in(f, False):
            if repo.dotted(ff, c.func) != "dataiter.util.xopen":
                continue
            mode = c.args[1] if len(c.args) > 1 else kw(c, "mode")
            n_modes += 1
            lit = mode.value if isinstance(mode, ast.Constant) and isinstance(mode.value, str) else None
            okm = lit is not None and (("t" in lit) != ("b" in lit))
            ctx.ob("SIB-10", ff, f"mode of {norm(c)[:70]}", c, okm,
                   f"mode {lit!r} names its text/binary class explicitly" if okm else
                   f"mode {norm(mode) if mode is not None else 'default'} has no explicit 't' or 'b': builtins.open reads it as text but "
                   f"gzip.open / bz2.open / lzma.open read it as binary, so compressed paths behave differently from plain ones "
                   f"(encoding= is rejected in binary mode, str is written to a bytes stream)",
                   clause="paths ending in .gz, .bz2 or .xz ... transparently decompressed on read")
    ctx.count("xopen call sites", n_modes, 10)
    ok = bool(plain) and all(isinstance(r.value, ast.Call) and repo.dotted(xo, r.value.func) == "builtins.open"
                             and len(r.value.args) >= 2 and norm(r.value.args[1]) == xo.params[1] for r in plain)
    ctx.ob("SIB-10", xo, "fallback open(path, mode, **kwargs)", plain[0] if plain else xo.node, ok,
           "other paths are opened uncompressed with the same mode" if ok else "fallback does not open(path, mode)", nontrivial=False)
    n_methods = 0
    for wq, rq in PAIRS:
        w, r = repo.fn(wq), repo.fn(rq)
        ws, rs = route_of(repo, w), route_of(repo, r)
        n_methods += 2
        for fn, sinks in ((w, ws), (r, rs)):
            bad = [s for s in sinks if s[0] == "other"]
            ctx.ob("TNT-route", fn, f"sinks of path: {sorted({(k, d) for k, d, _, _ in sinks})}", fn.node, not bad and bool(sinks),
                   "the path reaches only xopen / tabled APIs" if (not bad and sinks) else
                   (f"the path flows to {bad[0][1]}, which is neither util.xopen nor an API in the external summary table"
                    if bad else "the path parameter is never used"),
                   clause="reading back a file written by the matching write method")
        wa, wc = behaviour(ws, xtable, "write")
        ra, rc = behaviour(rs, xtable, "read")
        ok = wa == ra == {"same"}
        ctx.ob("TNT-route", w, f"file addressed: writer {sorted(wa)} / reader {sorted(ra)}", w.node, ok,
               "writer and reader address the file named by the user" if ok else
               f"writer addresses {sorted(wa)} but reader {sorted(ra)}: e.g. np.savez(str) appends '.npz' unless the path already "
               f"ends so, and the reader then looks for a file that does not exist",
               chain=[f"writer sinks {[(k, d) for k, d, _, _ in ws]}", f"reader sinks {[(k, d) for k, d, _, _ in rs]}"],
               clause="reading back a file written by the matching write method")
        for s in tables.SUFFIXES:
            a, b = wc.get(s, set()), rc.get(s, set())
            ok = len(a) == 1 and a == b
            ctx.ob("TNT-route", w, f"suffix {s or '(none)'}: compressed on write {sorted(a)} / decompressed on read {sorted(b)}", w.node, ok,
                   "writer and reader apply inverse transformations" if ok else
                   f"for paths ending in {s!r} the writer compresses={sorted(a)} but the reader decompresses={sorted(b)}: "
                   f"the repository cannot read back its own file",
                   chain=[f"writer sinks {[(k, d) for k, d, _, _ in ws]}", f"reader sinks {[(k, d) for k, d, _, _ in rs]}"],
                   clause="paths ending in .gz, .bz2 or .xz")
        for fn, comp, verb in ((w, wc, "compress"), (r, rc, "decompress")):
            doc = ast.get_docstring(fn.node) or ""
            if ".bz2|.gz|.xz" in doc:
                missing = [s for s in (".bz2", ".gz", ".xz") if comp.get(s) != {True}]
                ctx.ob("TNT-route", fn, f"docstring promises to {verb} .bz2|.gz|.xz", fn.node, not missing,
                       f"all three suffixes are {verb}ed" if not missing else
                       f"docstring says 'Will automatically {verb} if path ends in .bz2|.gz|.xz' but {missing} are not {verb}ed "
                       f"by the API the path is handed to", clause="really compressed on write and transparently decompressed on read")
    # a file opened from the user's path is handed to the (de)serialiser as the file OBJECT; handing on its .name makes
    # the callee open a second file by name, with its own naming rules (np.savez appends '.npz' to names, not to objects)
    n_with = 0
    for wq, rq in PAIRS:
        for q in (wq, rq):
            fn = repo.fn(q)
            bound = {}
            for w_ in [n for n in body_nodes(fn.node) if isinstance(n, ast.With)]:
                for it in w_.items:
                    if isinstance(it.optional_vars, ast.Name) and isinstance(it.context_expr, ast.Call) \
                            and any(isinstance(x, ast.Name) and x.id == "path" for a in it.context_expr.args for x in ast.walk(a)):
                        bound[it.optional_vars.id] = w_
            for fname, w_ in bound.items():
                n_with += 1
                byname = [n for b in w_.body for n in ast.walk(b) if isinstance(n, ast.Attribute) and n.attr == "name"
                          and isinstance(n.value, ast.Name) and n.value.id == fname]
                ctx.ob("TNT-route", fn, f"file {fname} opened from path is used as an object", byname[0] if byname else w_, not byname,
                       "the open file itself is read / written" if not byname else
                       f"{norm(byname[0])} is handed on instead of the open file: the callee opens a file of its own by that name (np.savez "
                       f"appends '.npz' unless the name ends so), so the data lands in another file than the one the reader opens",
                       clause="reading back a file written by the matching write method")
    ctx.count("files opened from the path", n_with, 8)
    ctx.count("reader/writer methods routed", n_methods, 16)
    # -------------------------------------------------------------- FWD-live
    n_opts = 0
    for wq, rq in PAIRS:
        for q in (wq, rq):
            fn = repo.fn(q)
            for p in fn.kwonly + ([fn.kwarg] if fn.kwarg else []):
                if p in ("columns", "dtypes", "keys", "types"):
                    continue   # C14
                uses = name_uses(fn, p)
                n_opts += 1
                ctx.ob("FWD-live", fn, f"option {p}", fn.node, bool(uses),
                       f"{p} is used at line(s) {sorted({u.lineno for u in uses})}" if uses else
                       f"option {p!r} is accepted but never used: it is ignored for every value",
                       clause="every delimiter, header and encoding option used consistently on both sides")
    ctx.count("options of readers/writers", n_opts, 20)
    wc = repo.fn(f"{DF}.write_csv")
    from ..cfg import cfg_of
    from ..facts import cfg_node_of
    cfgw = cfg_of(wc)
    enc_tests = [n for n in cfgw.nodes if n.kind == "test" and "codecs.lookup" in norm(n.ast) and "encoding" in norm(n.ast)]
    rew = [c for _, c in calls_in(wc) if repo.dotted(wc, c.func) == "dataiter.util.xopen" and kw(c, "encoding") is not None
           and norm(kw(c, "encoding")) == "encoding" and len(c.args) > 1 and "w" in norm(c.args[1])]
    if enc_tests:
        ctx.ob("FWD-live", wc, "the file is re-opened for writing with encoding=encoding", rew[0] if rew else enc_tests[0].ast, bool(rew),
               "the requested encoding is the one the file is rewritten in" if rew else
               "write_csv tests for a non-UTF-8 encoding but never re-opens the file for writing with encoding=encoding: the option is "
               "accepted and the file stays UTF-8", clause="every encoding option used consistently on both sides")
    if enc_tests and rew:
        rn = cfg_node_of(wc, rew[0])
        # polarity: the rewrite happens when the requested encoding is NOT UTF-8
        fr = facts_at(wc, rew[0])
        pol = any((k == "T" and "!=" in t and "codecs.lookup" in t) or (k == "F" and "==" in t and "codecs.lookup" in t) for k, t in fr)
        ctx.ob("FWD-live", wc, "re-encoding happens when the requested encoding differs from UTF-8", rew[0], pol,
               "the rewrite is under `lookup(encoding) != lookup('utf-8')`" if pol else
               f"the rewrite is under {[t for k, t in fr if 'codecs.lookup' in t]}: a non-UTF-8 encoding is NOT re-encoded (and UTF-8 is "
               f"rewritten needlessly), so read_csv with the same encoding fails or returns mojibake",
               clause="every encoding option used consistently on both sides")
        # what is written back is what was read
        wstmt = wc.module.parent.get(rew[0])
        while wstmt is not None and not isinstance(wstmt, ast.With):
            wstmt = wc.module.parent.get(wstmt)
        writes = [c for b in (wstmt.body if wstmt is not None else []) for c in ast.walk(b)
                  if isinstance(c, ast.Call) and isinstance(c.func, ast.Attribute) and c.func.attr == "write" and c.args]
        okw = False
        if writes and isinstance(writes[0].args[0], ast.Name):
            ds = defs_reaching(wc, writes[0].args[0].id, writes[0])
            okw = bool(ds) and all(d.value is not None and isinstance(d.value, ast.Call) and isinstance(d.value.func, ast.Attribute)
                                   and d.value.func.attr == "read" for d in ds)
        ctx.ob("FWD-live", wc, "the text read back in UTF-8 is the text written in the requested encoding", writes[0] if writes else rew[0], okw,
               "f.write(text) with text = f.read()" if okw else
               "the re-encoding pass does not write back what it read: the file is left empty or with other content",
               clause="reading back a file written by the matching write method")
        starts = [s_ for s_, lab in enc_tests[0].succ if lab == "T"]
        bad = [cfgw.path_avoiding(lambda n: n is rn, start=s_) for s_ in starts if s_ is not rn]
        bad = [p_ for p_ in bad if p_ is not None]
        ctx.ob("FWD-live", wc, "non-UTF-8 encoding -> file rewritten in that encoding on every path", rew[0], not bad,
               "whenever another encoding than UTF-8 is requested the file is re-encoded" if not bad else
               "a path skips the re-encoding although a non-UTF-8 encoding was requested (e.g. depending on the text): the file stays "
               "UTF-8 and read_csv with the same encoding fails -- " + " -> ".join(map(repr, bad[0])),
               clause="every encoding option used consistently on both sides")
    lw, lr = repo.fn(f"{LOD}.write_csv"), repo.fn(f"{LOD}.read_csv")
    # the header row is written / consumed exactly when `header` is true, on both sides
    from ..facts import context_facts as _cf
    n_hdr = 0
    for fn_, what, pred in ((lw, "written", lambda c: isinstance(c.func, ast.Attribute) and c.func.attr == "writeheader"),
                            (lr, "taken off the rows", lambda c: isinstance(c.func, ast.Attribute) and c.func.attr == "pop" and c.args
                             and isinstance(c.args[0], ast.Constant) and c.args[0].value == 0
                             or (isinstance(c.func, ast.Name) and c.func.id == "next"))):
        for _, c in calls_in(fn_):
            if not pred(c):
                continue
            n_hdr += 1
            fx = set(facts_at(fn_, c)) | set(_cf(fn_, c))
            okh = ("T", "header") in fx
            ctx.ob("FWD-live", fn_, f"header row {what} by {norm(c)} only under `header`", c, okh,
                   "with header=False no header row is written and none is consumed" if okh else
                   f"{norm(c)} is not under `if header`: with header=False on both sides the first DATA row is "
                   f"{'dropped as if it were the header' if fn_ is lr else 'preceded by a header the reader takes for data'}",
                   clause="every header option used consistently on both sides")
    ctx.count("header-row sites of the ListOfDicts CSV pair", n_hdr, 2)
    feats = {}
    DIALECT = ("dialect", "delimiter", "quotechar", "escapechar", "doublequote", "skipinitialspace", "lineterminator", "quoting", "strict")
    for fn in (lw, lr):
        for f, c in calls_in(fn):
            d = repo.dotted(f, c.func)
            if d in ("csv.DictWriter", "csv.reader", "csv.writer", "csv.DictReader"):
                feats[fn.name] = {k: norm(kw(c, k)) for k in DIALECT if kw(c, k) is not None}
                if any(k.arg is None for k in c.keywords):
                    feats[fn.name]["**"] = "unknown"
    SYM = ("dialect", "delimiter", "quotechar", "escapechar", "doublequote", "**")
    # every row the csv parser returns becomes an item: the row list is never filtered by the rows' contents (a row of
    # empty fields is what an item with empty text values looks like in the file)
    rdr = [c for _, c in calls_in(lr) if repo.dotted(lr, c.func) == "csv.reader"]
    n_rowfilter = 0
    for comp in [n for n in body_nodes(lr.node) if isinstance(n, (ast.ListComp, ast.GeneratorExp)) and any(g.ifs for g in n.generators)]:
        g0 = comp.generators[0]
        if not isinstance(g0.target, ast.Name):
            continue
        # is the iterated list the parsed rows (by name, or the reader itself), and is the element kept whole?
        if isinstance(g0.iter, ast.Name):
            from_parser = any(d.value is not None and any(repo.dotted(lr, c.func) == "csv.reader" for c in ast.walk(d.value) if isinstance(c, ast.Call))
                              for d in defs_reaching(lr, g0.iter.id, comp))
        else:
            from_parser = any(isinstance(c, ast.Call) and repo.dotted(lr, c.func) == "csv.reader" for c in ast.walk(g0.iter))
        if not from_parser or norm(comp.elt) != g0.target.id:
            continue
        n_rowfilter += 1
        cond = [norm(i) for i in g0.ifs]
        ctx.ob("FWD-live", lr, f"parsed rows filtered by {cond}", comp, False,
               f"rows returned by csv.reader are dropped when {cond}: an item whose values are all empty strings is written as a line of "
               f"empty fields and does not come back", clause="The same holds for ListOfDicts with ... CSV (text values)")
    ctx.note(f"content-based filters over the parsed CSV rows: {n_rowfilter} (csv.reader call sites: {len(rdr)})")
    wf, rf = feats.get("write_csv", {}), feats.get("read_csv", {})
    neutral = {None, "csv.QUOTE_MINIMAL", "csv.QUOTE_ALL"}   # the reader parses both alike
    ok = (len(feats) == 2 and all(wf.get(k) == rf.get(k) for k in SYM) and wf.get("delimiter") == "sep"
          and rf.get("skipinitialspace") in (None, "False")
          and (wf.get("quoting") == rf.get("quoting") or {wf.get("quoting"), rf.get("quoting")} <= neutral))
    ctx.ob("FWD-live", lr, f"csv formatting parameters {feats}", lr.node, ok,
           "ListOfDicts CSV reader and writer are given the same formatting parameters (dialect, delimiter=sep, quoting, ...)" if ok else
           f"ListOfDicts CSV reader and writer disagree on the formatting parameters: {feats} -- a parameter given to one side only "
           f"(e.g. skipinitialspace on the reader) makes the reader parse text differently from how the writer wrote it",
           clause="every delimiter option used consistently on both sides")
