"""Rules that are not tied to one anchor function: they scan a set of functions for a construct whose presence
breaks a clause wherever it occurs.  Each property module calls the ones whose clause it owns, first thing in its
check(), so that a later anchor-shape ANALYSIS-ERROR cannot hide what they establish.

All of them have zero instances on the pinned tree; the count of sites they looked at is recorded as a note, and the
variant table (sa/variants.py) keeps one positive example per rule alive in every thorough run.
"""
import ast
from ..common import calls_in, norm, kw
from ..model import body_nodes, FunctionInfo, AnalysisError
from ..cfg import cfg_of

INF_POS = {"np.inf", "numpy.inf", "math.inf", "float('inf')", 'float("inf")', "np.PINF", "inf"}
INF_NEG = {"-" + x for x in INF_POS} | {"np.NINF", "-inf", "float('-inf')", 'float("-inf")'}


def _all_fns(fns):
    out = []
    for f in fns:
        out.append(f)
        out += _all_fns(f.nested.values())
    return out


def module_functions(repo, *module_names):
    """Top-level functions and methods (nested defs are reached through .nested) of the named modules."""
    return [f for f in repo.functions.values() if f.module.name in module_names and f.parent is None]


def lossy_calls(ctx, fns, clause):
    """LOSSY-call: numpy.nan_to_num rewrites +inf / -inf (ordinary values) unless posinf= / neginf= keep them."""
    ctx.rule("LOSSY-call", "np.nan_to_num is a missing-value substitution only when posinf=/neginf= keep the infinities: "
                           "its defaults replace +-inf, which are ordinary values, by the largest finite numbers")
    repo = ctx.repo
    n = 0
    seen = set()
    for fn in fns:
        for f, c in calls_in(fn):
            if id(c) in seen:
                continue
            seen.add(id(c))
            n += 1
            if repo.dotted(f, c.func) == "numpy.bincount":
                w = kw(c, "weights") or (c.args[1] if len(c.args) > 1 else None)
                if w is not None:
                    from ..facts import facts_at
                    wt = norm(w)
                    isf = any(k_ == "T" and t_ == f"{wt}.is_float()" for k_, t_ in facts_at(f, c))
                    ctx.ob("LOSSY-call", f, norm(c)[:90], c, isf,
                           "the weights are floats already" if isf else
                           f"np.bincount converts its weights to float64 before adding: integer weights above 2**53 are rounded, so the "
                           f"group totals differ from an integer sum of the same values", clause=clause)
                continue
            if repo.dotted(f, c.func) != "numpy.nan_to_num":
                continue
            pos, neg = kw(c, "posinf"), kw(c, "neginf")
            ok = pos is not None and neg is not None and norm(pos) in INF_POS and norm(neg) in INF_NEG
            ctx.ob("LOSSY-call", f, norm(c)[:90], c, ok,
                   "infinities are kept (posinf=/neginf= given)" if ok else
                   "np.nan_to_num without posinf=inf / neginf=-inf also replaces +inf and -inf by +-1.8e308: values that are "
                   "not missing are changed", clause=clause)
    ctx.note(f"LOSSY-call: {n} call sites scanned for value-rewriting substitutions")


LOSSY_DTYPE_ATTRS = {"type", "num", "kind", "char", "itemsize", "alignment", "byteorder"}


def memo_projection(ctx, module_names, clause, only=None):
    """MEMO-proj: a module-level table filled from a function and keyed by a projection of a dtype that identifies it
    only up to a family (dtype.type / .num / .kind / .char: the same for every datetime64 unit, every timedelta64 unit
    and every fixed string width), while the stored value is computed from the whole dtype or the whole object."""
    ctx.rule("MEMO-proj", "a memo keyed by dtype.type / .num / .kind / .char must store a value computed from that projection "
                          "alone: these are shared by all datetime64 / timedelta64 units and all string widths")
    from ..forms import expand
    repo = ctx.repo
    n_tables = n_stores = 0
    for mn in module_names:
        mod = repo.modules.get(mn)
        if mod is None:
            continue
        tables = set()
        for s in mod.tree.body:
            if isinstance(s, ast.Assign) and len(s.targets) == 1 and isinstance(s.targets[0], ast.Name):
                v = s.value
                if isinstance(v, ast.Dict) and not v.keys or (isinstance(v, ast.Call) and isinstance(v.func, ast.Name)
                                                              and v.func.id in ("dict", "OrderedDict", "defaultdict") and not v.args):
                    tables.add(s.targets[0].id)
        n_tables += len(tables)
        module_tables_ = set(tables)
        for fn in [f for f in repo.functions.values() if f.module is mod]:
            if only is not None and not only(fn):
                continue
            # tables local to the function (a per-call memo) are judged the same way
            tables = set(module_tables_)
            for x_ in body_nodes(fn.node):
                if isinstance(x_, ast.Assign) and len(x_.targets) == 1 and isinstance(x_.targets[0], ast.Name) and (
                        (isinstance(x_.value, ast.Dict) and not x_.value.keys) or
                        (isinstance(x_.value, ast.Call) and isinstance(x_.value.func, ast.Name) and x_.value.func.id == "dict"
                         and not x_.value.args and not x_.value.keywords)):
                    tables.add(x_.targets[0].id)
            if not tables:
                continue
            for node in body_nodes(fn.node):
                key = val = None
                if isinstance(node, ast.Assign) and len(node.targets) == 1 and isinstance(node.targets[0], ast.Subscript) \
                        and isinstance(node.targets[0].value, ast.Name) and node.targets[0].value.id in tables:
                    key, val = node.targets[0].slice, node.value
                elif isinstance(node, ast.Call) and isinstance(node.func, ast.Attribute) and node.func.attr == "setdefault" \
                        and isinstance(node.func.value, ast.Name) and node.func.value.id in tables and len(node.args) == 2:
                    key, val = node.args
                if key is None:
                    continue
                n_stores += 1
                k = expand(fn, key, node)
                proj = [a for a in ast.walk(k) if isinstance(a, ast.Attribute) and a.attr in LOSSY_DTYPE_ATTRS
                        and isinstance(a.value, ast.Attribute) and a.value.attr == "dtype"]
                ids = [c for c in ast.walk(k) if isinstance(c, ast.Call) and isinstance(c.func, ast.Name) and c.func.id == "id" and c.args]
                if ids and not proj:
                    ctx.ob("MEMO-proj", fn, f"{norm(node)[:90]}", node, False,
                           f"the table is keyed by {norm(ids[0])}: the identity of a mutable object says nothing about its contents (an in-place "
                           f"edit keeps the id, and a freed object's id is reused), so later calls are answered from stale data", clause=clause)
                    continue
                if not proj:
                    # an order- or multiplicity-blind summary of a container as the key: frozenset(X) / set(X) / len(X) / sorted(X)
                    summ = [c for c in ast.walk(k) if isinstance(c, ast.Call) and isinstance(c.func, ast.Name)
                            and c.func.id in ("frozenset", "set", "len", "sorted") and len(c.args) == 1
                            and isinstance(c.args[0], (ast.Name, ast.Attribute))]
                    if not summ:
                        continue
                    import re
                    base = norm(summ[0].args[0])
                    v = expand(fn, val, node)
                    txt = norm(v)
                    rest = txt
                    for f_ in ("frozenset", "set", "len", "sorted"):
                        rest = rest.replace(f"{f_}({base})", "")
                    reads_more = re.search(r"(?<![\w.])" + re.escape(base) + r"(?![\w])", rest) is not None
                    ctx.ob("MEMO-proj", fn, f"{norm(node)[:90]}", node, not reads_more,
                           f"the stored value depends on {norm(summ[0])} only" if not reads_more else
                           f"the memo is keyed by {norm(summ[0])}, which forgets the order (and for len the identity) of the elements of "
                           f"{base}, but the stored value {txt[:60]} is computed from {base} in its own order: a later {base} with the same "
                           f"summary and another order is answered with the first one's result", clause=clause)
                    continue
                base = norm(proj[0].value.value)          # the object whose dtype is projected
                ptxt = norm(proj[0])
                v = expand(fn, val, node)
                txt = norm(v)
                # does the value read the object or its dtype other than through the same projection?
                rest = txt.replace(ptxt, "")
                # the is_*() predicates of Vector are functions of the scalar type alone: a value chosen through them is
                # determined by any of these projections
                import re
                rest = re.sub(re.escape(base) + r"\._?is_[a-z_]+\(\)", "", rest)
                pat = r"(?<![\w.])" + re.escape(base) + r"(?![\w])"
                reads_more = re.search(pat, rest) is not None
                ctx.ob("MEMO-proj", fn, f"{norm(node)[:90]}", node, not reads_more,
                       f"the stored value depends on {ptxt} only" if not reads_more else
                       f"the table is keyed by {ptxt}, which is the same for every unit of datetime64 / timedelta64 and every "
                       f"string width, but the stored value {txt[:60]} is computed from {base} as a whole: the first dtype of a "
                       f"family that is seen decides the answer for all later ones", clause=clause)
    ctx.note(f"MEMO-proj: {n_tables} module-level dict table(s), {n_stores} store(s) from functions examined in {list(module_names)}")


INPLACE_OPTIONS = {"overwrite_input"}


def inplace_options(ctx, fns, clause):
    """INPLACE-opt: overwrite_input=True lets np.median / np.percentile / np.quantile reorder the array they are given."""
    ctx.rule("INPLACE-opt", "no call or keyword dict sets overwrite_input to anything but False: the statistic would reorder the "
                            "array it is given, which is a view of a column shared with the other aggregations")
    n = 0

    def falsy(v):
        return isinstance(v, ast.Constant) and v.value in (False, None, 0)
    for fn in fns:
        for node in [x for f in _all_fns([fn]) for x in body_nodes(f.node)]:
            hit = None
            if isinstance(node, ast.Call):
                n += 1
                for k in node.keywords:
                    if k.arg in INPLACE_OPTIONS and not falsy(k.value):
                        hit = (node, f"{k.arg}={norm(k.value)}")
                if isinstance(node.func, ast.Attribute) and node.func.attr in ("setdefault", "__setitem__") and len(node.args) == 2 \
                        and isinstance(node.args[0], ast.Constant) and node.args[0].value in INPLACE_OPTIONS and not falsy(node.args[1]):
                    hit = (node, f"[{node.args[0].value!r}] = {norm(node.args[1])}")
            elif isinstance(node, ast.Assign) and isinstance(node.targets[0], ast.Subscript) \
                    and isinstance(node.targets[0].slice, ast.Constant) and node.targets[0].slice.value in INPLACE_OPTIONS \
                    and not falsy(node.value):
                hit = (node, norm(node))
            elif isinstance(node, ast.Dict):
                for k_, v_ in zip(node.keys, node.values):
                    if isinstance(k_, ast.Constant) and k_.value in INPLACE_OPTIONS and not falsy(v_):
                        hit = (node, norm(node)[:60])
            if hit:
                ctx.ob("INPLACE-opt", fn, hit[1], hit[0], False,
                       f"{hit[1]} lets the NumPy statistic partially sort its input in place; the input is a group-wise view of the "
                       f"working column that every other helper of the same aggregate() call reads afterwards (and that the compiled "
                       f"twin copies)", clause=clause)
    ctx.note(f"INPLACE-opt: {n} calls scanned for in-place options")


def wrapper_must_call(ctx, deco_fns, clause):
    """WRAP-call: a decorator's wrapper reaches the wrapped function on every path that returns."""
    ctx.rule("WRAP-call", "every returning path of a decorator's wrapper calls the wrapped function: a wrapper that answers by "
                          "itself for some receiver skips whatever the method does with its arguments")
    n = 0
    for dec in deco_fns:
        if not dec.params:
            continue
        wrapped = dec.params[0]
        for w in dec.nested.values():
            n += 1
            cfg = cfg_of(w)

            def calls_wrapped(node):
                a = node.ast
                if a is None:
                    return False
                return any(isinstance(c, ast.Call) and isinstance(c.func, ast.Name) and c.func.id == wrapped for c in ast.walk(a))
            path = cfg.path_avoiding(calls_wrapped)
            ok = path is None
            desc = ""
            if not ok:
                tests = [norm(p.ast) for p in path if p.kind == "test" and p.ast is not None]
                desc = f" (under {tests[:2]})" if tests else ""
            ctx.ob("WRAP-call", w, f"{w.qualname} calls {wrapped}(...)", w.node, ok,
                   "the wrapped method runs on every returning path" if ok else
                   f"a path through {w.qualname} returns without calling {wrapped}(){desc}: for that receiver the method body -- "
                   f"including what it does with its arguments -- is skipped", clause=clause)
    ctx.note(f"WRAP-call: {n} decorator wrapper(s) examined")


FINITE_TESTS = {"math.isfinite", "numpy.isfinite"}
INF_TESTS = {"math.isinf", "numpy.isinf"}


def finiteness_as_missing(ctx, fns, clause):
    """NA-finite: a value is turned into the missing marker under a test of finiteness.  +inf and -inf are not finite
    but they are ordinary values; only NaN / NaT / None / "" are missing."""
    ctx.rule("NA-finite", "no value is replaced by None / NaN under an isfinite() / isinf() test: infinities are ordinary values, "
                          "missing is decided by isnan / is_na / `is None`")
    repo = ctx.repo
    n = 0

    def polarity(f, test):
        """'body' when the guarded body runs for infinite values, 'orelse' when the else part does, None otherwise."""
        for node in ast.walk(test):
            if isinstance(node, ast.UnaryOp) and isinstance(node.op, ast.Not) and isinstance(node.operand, ast.Call) \
                    and repo.dotted(f, node.operand.func) in FINITE_TESTS:
                return "body"
        for node in ast.walk(test):
            if isinstance(node, ast.Call) and repo.dotted(f, node.func) in INF_TESTS:
                return "body"
        for node in ast.walk(test):
            if isinstance(node, ast.Call) and repo.dotted(f, node.func) in FINITE_TESTS:
                return "orelse"
        return None

    def is_na_const(e):
        return (isinstance(e, ast.Constant) and e.value is None) or norm(e) in ("np.nan", "numpy.nan", "math.nan", "float('nan')")

    def gives_na(stmts):
        for s in stmts:
            for x in ast.walk(s):
                if isinstance(x, ast.Return) and (x.value is None or is_na_const(x.value)):
                    return x
                if isinstance(x, ast.Assign) and is_na_const(x.value):
                    return x
                if isinstance(x, (ast.Yield,)) and x.value is not None and is_na_const(x.value):
                    return x
        return None
    for fn in fns:
        for f in _all_fns([fn]):
            for node in body_nodes(f.node):
                if isinstance(node, ast.If):
                    n += 1
                    pol = polarity(f, node.test)
                    if pol is None:
                        continue
                    hit = gives_na(node.body if pol == "body" else node.orelse)
                    if pol == "orelse" and not node.orelse:
                        continue
                elif isinstance(node, ast.IfExp):
                    n += 1
                    pol = polarity(f, node.test)
                    if pol is None:
                        continue
                    br = node.body if pol == "body" else node.orelse
                    hit = node if is_na_const(br) else None
                else:
                    continue
                if hit is not None:
                    ctx.ob("NA-finite", f, norm(node.test)[:80], node, False,
                           f"under `{norm(node.test)[:60]}` the value becomes {norm(hit)[:30] if not isinstance(hit, ast.IfExp) else 'the missing marker'}: "
                           f"+inf and -inf, which are ordinary float values, are exported / stored as missing", clause=clause)
    ctx.note(f"NA-finite: {n} conditionals scanned for finiteness tests that produce the missing marker")


def order_by_difference(ctx, fns, clause):
    """ORD-diff: np.diff(x) compared with zero is a sortedness / adjacency test only on element types whose difference
    cannot wrap around (dtype-class dataflow of sa/dtclass.py decides which types reach the call)."""
    from ..dtclass import operations, SAFE
    ctx.rule("ORD-diff", "np.diff of a key is used as an order test only on element types whose differences do not wrap "
                         "(not unsigned / signed integers, booleans, datetimes, timedeltas)")
    n = 0
    for fn in fns:
        for f in _all_fns([fn]):
            args = {norm(c.args[0]) for _, c in calls_in(f, False) if norm(c.func) in ("np.diff", "numpy.diff", "np.ediff1d", "numpy.ediff1d")
                    and c.args and isinstance(c.args[0], (ast.Name, ast.Subscript))}
            for var in sorted(args):
                for node, op, classes in operations(f, var):
                    if op != "diff":
                        continue
                    n += 1
                    bad = sorted(classes - SAFE["diff"])
                    ctx.ob("ORD-diff", f, norm(node), node, not bad,
                           f"differences are taken only of element types {sorted(classes)}" if not bad else
                           f"the difference of neighbours is taken of a key that may be of element type {bad} (U unsigned / I signed integer, "
                           f"B bool, DT/TD datetime/timedelta): for unsigned integers b - a wraps to a huge positive number when b < a, so a "
                           f"descending step looks ascending and an unsorted key passes for sorted", clause=clause)
    ctx.note(f"ORD-diff: {n} difference-based order test(s) examined")


STACKERS = {"numpy.column_stack", "numpy.stack", "numpy.vstack", "numpy.hstack", "numpy.dstack", "numpy.row_stack"}


def cross_column_promotion(ctx, roots, clause):
    """PROMO-stack: row keys are compared column by column.  Stacking several columns into one array converts them to
    ONE common dtype first (int64 next to float64 -> float64: integers above 2**53 collapse; anything next to a string
    -> string), so distinct key combinations can become equal."""
    from ..common import reachable_functions
    from ..facts import facts_at
    ctx.rule("PROMO-stack", "functions that build or compare row keys do not stack several columns into one array "
                            "(np.column_stack / stack / vstack / hstack), unless under a test that the dtypes agree")
    repo = ctx.repo
    fns = reachable_functions(repo, roots, max_depth=3)
    n = 0
    for fn in fns.values():
        if fn.module.name not in ("dataiter.data_frame", "dataiter.util"):
            continue
        for f, c in calls_in(fn, False):
            n += 1
            d = repo.dotted(f, c.func)
            if d not in STACKERS:
                continue
            guard = [t for k, t in facts_at(f, c) if "dtype" in t and ("==" in t or "len(set(" in t)]
            ok = bool(guard)
            ctx.ob("PROMO-stack", f, norm(c)[:80], c, ok,
                   f"stacked only under {guard[:1]}" if ok else
                   f"{d.split('.')[-1]} converts the key columns to one common dtype before they are compared: an int64 column next to a "
                   f"float64 (or uint64) one becomes float64, where integers beyond 2**53 that differ by one are equal -- rows with "
                   f"distinct key combinations are treated as duplicates", clause=clause)
    ctx.note(f"PROMO-stack: {n} calls in {len(fns)} functions reachable from the key-building methods scanned")


NA_CLASSES = {"F", "C", "DT", "TD", "SF", "SV", "O"}      # element types that have a missing value


def na_blind_paths(ctx, fns, clause, rule="NA-blind"):
    """NA-blind: in a function that handles missing values (it calls is_na / isnan / isnat somewhere), an exit that can be
    reached WITHOUT passing any such call is allowed only for element types that have no missing value.  Decided with
    the dtype-class dataflow over the function's own is_*() / dtype.kind tests -- is_integer() is true for timedelta64,
    which has NaT."""
    from ..dtclass import analyse
    from ..facts import cfg_node_of
    ctx.rule(rule, "an exit that skips the missing-value handling of its function is reachable only for element types without a "
                   "missing value (bool, integers, bytes) -- is_integer() / is_number() alone also admit timedelta64 (NaT)")
    n = 0

    def na_aware(a):
        if a is None:
            return False
        for c in ast.walk(a):
            if isinstance(c, ast.Call):
                t = norm(c.func)
                if t.endswith(".is_na") or t.endswith(".drop_na") or t.endswith(".replace_na") or t in (
                        "np.isnan", "np.isnat", "numpy.isnan", "numpy.isnat", "handle_na", "np.nan_to_num", "numpy.nan_to_num",
                        "np.nanmin", "np.nanmax", "np.nansum", "np.nanmean"):
                    return True
        return False
    for fn in fns:
        if not fn.params or fn.name in ("is_na", "na_value", "na_dtype"):
            continue          # the detector itself and its tables are judged against the dtype table (SIB-9)
        if any(d.endswith("classmethod") or d.endswith("staticmethod") for d in fn.decorators):
            continue          # the first parameter is not a vector
        var = fn.params[0]
        body = [x for x in body_nodes(fn.node)]
        if not any(na_aware(x) for x in body if isinstance(x, ast.stmt)):
            continue
        cfg, IN = analyse(fn, var, init=frozenset("B I U F C SF SV BY DT TD O".split()))
        aware_nodes = {nd.id for nd in cfg.nodes if na_aware(nd.ast) and nd.kind in ("stmt", "test")}
        # nodes reachable from the entry without passing an NA-aware node
        seen = {cfg.entry.id}
        stack = [cfg.entry]
        while stack:
            nd = stack.pop()
            for s_, _ in nd.succ:
                if s_.id in seen or s_.id in aware_nodes:
                    continue
                seen.add(s_.id)
                stack.append(s_)
        for nd in cfg.nodes:
            if nd.kind != "stmt" or not isinstance(nd.ast, ast.Return) or nd.id not in seen or nd.id in aware_nodes:
                continue
            r = nd.ast
            if r.value is None or (isinstance(r.value, ast.Constant)):
                continue
            if not any(isinstance(x, ast.Name) and x.id == var for x in ast.walk(r.value)):
                continue
            from ..facts import facts_at
            empt = {f"{var}.length == 0", f"len({var}) == 0", f"not len({var})", f"{var}.size == 0", f"not {var}.length",
                    f"{var}.length < 1", f"len({var}) < 1", f"not {var}.size"}
            if any((k == "T" and t in empt) or (k == "F" and t in (f"{var}.length", f"len({var})", f"{var}.size", f"{var}.length > 0",
                                                                    f"len({var}) > 0")) for k, t in facts_at(fn, r)):
                continue          # nothing in an empty vector can be missing
            n += 1
            st = IN.get(nd.id)
            # the parameter itself: its classes at entry are everything; IN holds them refined along the way
            classes = set(st) if st else set("B I U F C SF SV BY DT TD O".split())
            if classes >= set("B I U F C SF SV BY DT TD O".split()):
                continue          # not chosen by an element-type test (an option such as drop_na=False decides): not this rule's business
            bad = sorted(classes & NA_CLASSES)
            ctx.ob(rule, fn, f"return {norm(r.value)[:60]} without looking for missing values", r, not bad,
                   f"reached only for element types {sorted(classes)}, none of which has a missing value" if not bad else
                   f"this exit skips the function's missing-value handling but can be reached for element types {bad} "
                   f"(TD = timedelta64, which is_integer() / is_number() admit and which has NaT; F float, DT datetime, SF/SV string, "
                   f"O object): their missing values are passed on as if they were ordinary values", clause=clause)
    ctx.note(f"{rule}: {n} exit(s) that bypass missing-value handling examined")


def value_casts(ctx, fns, clause, rule="CAST-safe"):
    """CAST-safe: a dtype conversion applied to an input array on ONE of two twin paths must keep every value; judged by
    the dtype-class dataflow (the classes that can reach the cast, refined by is_*() / np.issubdtype / dtype.kind tests)."""
    from ..dtclass import operations, SAFE
    ctx.rule(rule, "astype / as_* applied to an input on one twin path only is value-preserving for every element type that can "
                   "reach it (uint64 -> int64 wraps at 2**63, integers -> float64 round above 2**53, timedelta64 -> int64 drops the unit)")
    n = 0
    for fn in fns:
        for f in _all_fns([fn]):
            for p in f.all_params:
                casts = [c for _, c in calls_in(f, False) if isinstance(c.func, ast.Attribute) and isinstance(c.func.value, ast.Name)
                         and c.func.value.id == p and (c.func.attr == "astype" or c.func.attr.startswith("as_"))]
                if not casts:
                    continue
                for node, op, classes in operations(f, p, init=frozenset("B I U F C SF SV BY DT TD O".split())):
                    if op not in ("as_integer", "as_float", "as_boolean", "as_string", "as_object"):
                        continue
                    n += 1
                    bad = sorted(set(classes) - SAFE[op])
                    ctx.ob(rule, f, norm(node)[:70], node, not bad,
                           f"only element types {sorted(classes)} reach the conversion and it keeps their values" if not bad else
                           f"{norm(node)[:50]} is applied on this path only and can be reached by element types {bad} (U unsigned: values from "
                           f"2**63 wrap to negative; TD timedelta64: becomes a plain integer; F/I to a narrower type: rounded): the two "
                           f"paths no longer see the same values", clause=clause)
    ctx.note(f"{rule}: {n} conversion(s) on one-sided paths examined")


def sorted_unique_ties(ctx, fns, clause, rule="ORD-ties"):
    """ORD-ties: np.unique returns the distinct values SORTED.  Where ties are to be broken by first occurrence (mode),
    choosing among np.unique's values without return_index= breaks them by value instead."""
    ctx.rule(rule, "a function that breaks ties by first occurrence does not choose among np.unique(...) values unless the "
                   "first-occurrence indices (return_index=True) are requested")
    repo = ctx.repo
    n = 0
    for fn in fns:
        for f, c in calls_in(fn):
            if repo.dotted(f, c.func) != "numpy.unique":
                continue
            n += 1
            ri = kw(c, "return_index")
            ok = isinstance(ri, ast.Constant) and ri.value is True
            ctx.ob(rule, f, norm(c)[:80], c, ok,
                   "first-occurrence indices are requested" if ok else
                   "np.unique sorts the distinct values; taking the most frequent of them picks the SMALLEST of several equally frequent "
                   "values, not the one that occurs first (the compiled kernel and statistics.mode return the first)", clause=clause)
    ctx.note(f"{rule}: {n} np.unique call(s) in tie-breaking functions examined")


def bool_is_int(ctx, fns, clause, rule="TYPE-bool"):
    """TYPE-bool: isinstance(x, int) is also true for True / False.  A branch that decides on an INTEGER dtype under such
    a test (without excluding bool) turns boolean data into integers."""
    ctx.rule(rule, "an integer dtype is never chosen under a bare isinstance(x, int) test: bool is a subclass of int")
    n = 0

    def int_tests(test):
        out = []
        for c in ast.walk(test):
            if isinstance(c, ast.Call) and isinstance(c.func, ast.Name) and c.func.id == "isinstance" and len(c.args) == 2:
                t = c.args[1]
                names = [norm(e) for e in (t.elts if isinstance(t, ast.Tuple) else [t])]
                if "int" in names and "bool" not in names:
                    out.append(c)
        return out

    def excludes_bool(test):
        t = norm(test)
        return "bool" in t          # `not isinstance(x, bool)`, `type(x) is not bool`, ...

    def picks_int(stmts):
        for s in stmts:
            for c in ast.walk(s):
                if isinstance(c, ast.Call):
                    args = [norm(a) for a in c.args] + [norm(k.value) for k in c.keywords]
                    if any(a in ("int", "np.int64", "numpy.int64", "'int64'", '"int64"', "np.int_", "np.integer") for a in args):
                        return c
        return None
    for fn in fns:
        for f in _all_fns([fn]):
            for node in body_nodes(f.node):
                if not isinstance(node, ast.If):
                    continue
                its = int_tests(node.test)
                if not its:
                    continue
                n += 1
                if excludes_bool(node.test):
                    continue
                hit = picks_int(node.body)
                if hit is None:
                    continue
                ctx.ob(rule, f, norm(node.test)[:80], node, False,
                       f"under `{norm(node.test)[:60]}` the values are given an integer dtype ({norm(hit)[:50]}); True and False pass "
                       f"isinstance(x, int) too, so a boolean column comes back as int64", clause=clause)
    ctx.note(f"{rule}: {n} isinstance(..., int) test(s) examined")


ONE_SHOT_CALLS = {"map", "zip", "filter", "iter", "reversed", "enumerate"}


def language_traps(ctx, fns, clause):
    """TRAP-*: four Python semantics traps that turn a tidy-up into a behaviour change, each decided from the def-use
    structure of one function:
      TRAP-iter    a one-shot iterator (generator expression, map / zip / filter / reversed / enumerate object) bound to a
                   local is consumed at two places that both execute: the second sees it exhausted;
      TRAP-late    a lambda / local function created in a loop reads the loop variable and outlives the iteration (stored,
                   appended, yielded, returned): every closure sees the last value;
      TRAP-default a parameter's mutable default ([] / {} / set()) is mutated or escapes: state leaks between calls;
      TRAP-shared  dict.fromkeys(keys, <mutable>) makes every key share one object."""
    from ..dataflow import defs_reaching
    from ..common import precedes
    for r_, t_ in (("TRAP-iter", "a one-shot iterator bound to a local is consumed once"),
                   ("TRAP-late", "closures created in a loop do not read the loop variable after the iteration"),
                   ("TRAP-default", "mutable default arguments are neither mutated nor handed out"),
                   ("TRAP-shared", "dict.fromkeys is not given a mutable value"),
                   ("TRAP-negzero", "a slice x[-n:] is taken only where n >= 1 is established"),
                   ("TRAP-swallow", "no handler for Exception / BaseException / everything without re-raising, inside functions"),
                   ("TRAP-getter", "the result of operator.itemgetter(*names) is not consumed as a sequence unless there are at least two names")):
        ctx.rule(r_, t_)
    n = {"iter": 0, "late": 0, "default": 0, "shared": 0}
    for fn in fns:
        for f in _all_fns([fn]):
            parent = f.module.parent
            nodes = list(body_nodes(f.node))
            # ---- TRAP-iter
            for a in nodes:
                if not (isinstance(a, ast.Assign) and len(a.targets) == 1 and isinstance(a.targets[0], ast.Name)):
                    continue
                v = a.value
                one_shot = isinstance(v, ast.GeneratorExp) or (isinstance(v, ast.Call) and isinstance(v.func, ast.Name)
                                                               and v.func.id in ONE_SHOT_CALLS)
                if not one_shot:
                    continue
                name = a.targets[0].id
                n["iter"] += 1
                uses = [u for u in nodes if isinstance(u, ast.Name) and u.id == name and isinstance(u.ctx, ast.Load)
                        and any(d.node is not None and d.node.ast is a for d in defs_reaching(f, name, u))
                        and len(defs_reaching(f, name, u)) == 1]
                # uses inside a loop body that the definition is outside of run repeatedly
                def in_loop_after_def(u):
                    p = parent.get(u)
                    while p is not None and p is not f.node:
                        if isinstance(p, (ast.For, ast.While)) and not any(x is a for x in ast.walk(p)):
                            # the iterable position of that very loop is evaluated once
                            if isinstance(p, ast.For) and any(x is u for x in ast.walk(p.iter)):
                                return False
                            return True
                        if isinstance(p, (ast.ListComp, ast.SetComp, ast.DictComp, ast.GeneratorExp)):
                            # not the first iterable of a comprehension: evaluated once per outer element
                            if not any(x is u for x in ast.walk(p.generators[0].iter)):
                                return True
                        p = parent.get(p)
                    return False
                again = [u for u in uses if in_loop_after_def(u)]
                pairs = [(u1, u2) for i_, u1 in enumerate(uses) for u2 in uses[i_ + 1:] if precedes(f, u1, u2) or precedes(f, u2, u1)]
                bad = again or pairs
                if bad:
                    where = again[0] if again else pairs[0][1]
                    ctx.ob("TRAP-iter", f, f"{name} = {norm(v)[:50]}", where, False,
                           f"{name} is a one-shot iterator ({norm(v)[:40]}) and is consumed "
                           + ("inside a loop, once per iteration" if again else f"at lines {sorted({pairs[0][0].lineno, pairs[0][1].lineno})}")
                           + ": after the first pass it is empty, so the later pass sees no elements", clause=clause)
            # ---- TRAP-late
            for loop in [x for x in nodes if isinstance(x, ast.For)]:
                lvars = {t.id for t in ast.walk(loop.target) if isinstance(t, ast.Name)}
                for lam in [x for b in loop.body for x in ast.walk(b) if isinstance(x, (ast.Lambda, ast.FunctionDef))]:
                    params = {p.arg for p in lam.args.posonlyargs + lam.args.args + lam.args.kwonlyargs}
                    body = [lam.body] if isinstance(lam, ast.Lambda) else lam.body
                    reads = {m.id for b in body for m in ast.walk(b) if isinstance(m, ast.Name) and isinstance(m.ctx, ast.Load)} - params
                    cap = reads & lvars
                    if not cap:
                        continue
                    n["late"] += 1
                    par = parent.get(lam)
                    # called on the spot (as the function of a call, or as key=/argument of a call completed in this iteration): fine
                    stored = False
                    if isinstance(lam, ast.Lambda):
                        if isinstance(par, (ast.Assign,)) and any(isinstance(t, ast.Subscript) for t in par.targets):
                            stored = True
                        if isinstance(par, ast.Call) and isinstance(par.func, ast.Attribute) and par.func.attr in ("append", "add", "setdefault", "insert") \
                                and lam in par.args:
                            stored = True
                        if isinstance(par, (ast.Yield, ast.Return, ast.Dict, ast.List, ast.Tuple)):
                            stored = True
                    else:
                        nm = lam.name
                        stored = any(isinstance(x, ast.Call) and isinstance(x.func, ast.Attribute) and x.func.attr in ("append", "add", "setdefault", "insert")
                                     and any(isinstance(z, ast.Name) and z.id == nm for z in x.args) for b in loop.body for x in ast.walk(b)) or \
                            any(isinstance(x, ast.Assign) and any(isinstance(t, ast.Subscript) for t in x.targets)
                                and isinstance(x.value, ast.Name) and x.value.id == nm for b in loop.body for x in ast.walk(b))
                    if stored:
                        ctx.ob("TRAP-late", f, f"closure over {sorted(cap)} created in `for {norm(loop.target)} in ...`", lam, False,
                               f"the closure reads {sorted(cap)} when it is CALLED, not when it is created: kept beyond the iteration, every "
                               f"closure of this loop sees the last value of {sorted(cap)}", clause=clause)
            # ---- TRAP-default
            for p_, d_ in f.defaults.items():
                if not (isinstance(d_, (ast.List, ast.Dict, ast.Set)) or (isinstance(d_, ast.Call) and isinstance(d_.func, ast.Name)
                                                                          and d_.func.id in ("list", "dict", "set") and not d_.args)):
                    continue
                n["default"] += 1
                hits = []
                for u in nodes:
                    if not (isinstance(u, ast.Name) and u.id == p_ and isinstance(u.ctx, ast.Load)):
                        continue
                    if not any(d.kind == "param" for d in defs_reaching(f, p_, u)):
                        continue
                    par = parent.get(u)
                    if isinstance(par, ast.Attribute) and par.attr in ("append", "extend", "insert", "add", "update", "setdefault", "pop",
                                                                       "remove", "clear", "sort", "reverse", "popitem", "discard"):
                        if isinstance(parent.get(par), ast.Call):
                            hits.append((u, f".{par.attr}()"))
                    if isinstance(par, ast.Subscript) and isinstance(par.ctx, (ast.Store, ast.Del)) and par.value is u:
                        hits.append((u, "item assignment"))
                    if isinstance(par, ast.AugAssign) and par.target is u:
                        hits.append((u, "augmented assignment"))
                    if isinstance(par, ast.Return) and par.value is u:
                        hits.append((u, "returned"))
                for aug in [x for x in nodes if isinstance(x, ast.AugAssign) and isinstance(x.target, ast.Name) and x.target.id == p_]:
                    if any(d.kind == "param" for d in defs_reaching(f, p_, aug)):
                        hits.append((aug, "augmented assignment"))
                if hits:
                    ctx.ob("TRAP-default", f, f"{p_}={norm(d_)}: {hits[0][1]}", hits[0][0], False,
                           f"the default {norm(d_)} of {p_!r} is one object shared by all calls; {hits[0][1]} changes or exposes it, so a later "
                           f"call without that argument starts from what an earlier call left behind", clause=clause)
            # ---- TRAP-shared
            for c in [x for x in nodes if isinstance(x, ast.Call)]:
                if norm(c.func) in ("dict.fromkeys",) or (isinstance(c.func, ast.Attribute) and c.func.attr == "fromkeys"):
                    if len(c.args) == 2:
                        n["shared"] += 1
                        v = c.args[1]
                        mut = isinstance(v, (ast.List, ast.Dict, ast.Set, ast.ListComp, ast.DictComp)) or (
                            isinstance(v, ast.Call) and isinstance(v.func, ast.Name) and v.func.id in ("list", "dict", "set"))
                        if mut:
                            ctx.ob("TRAP-shared", f, norm(c)[:70], c, False,
                                   f"every key of {norm(c)[:50]} refers to the SAME {norm(v)} object: what is added under one key shows under all",
                                   clause=clause)
    # ---- TRAP-iter at module level: a generator / map / zip object bound once at import time and read inside functions is
    # shared by all calls; the first call(s) use it up
    # (module state is shared by everything that runs in the process: all modules of the package are looked at)
    for mod in ctx.repo.modules.values():
        for s_ in mod.tree.body:
            if not (isinstance(s_, ast.Assign) and len(s_.targets) == 1 and isinstance(s_.targets[0], ast.Name)):
                continue
            v = s_.value
            if not (isinstance(v, ast.GeneratorExp) or (isinstance(v, ast.Call) and isinstance(v.func, ast.Name) and v.func.id in ONE_SHOT_CALLS)):
                continue
            name = s_.targets[0].id
            n["iter"] += 1
            for f in [g for g in ctx.repo.functions.values() if g.module is mod]:
                if name in f.all_params or any(isinstance(x, ast.Name) and x.id == name and isinstance(x.ctx, ast.Store) for x in body_nodes(f.node)):
                    continue
                uses = [x for x in body_nodes(f.node) if isinstance(x, ast.Name) and x.id == name and isinstance(x.ctx, ast.Load)]
                if uses:
                    ctx.ob("TRAP-iter", f, f"module-level {name} = {norm(v)[:50]}", uses[0], False,
                           f"{name} is ONE iterator object created when the module is imported; {f.name}() consumes it, so every call "
                           f"continues where the previous one stopped (and later calls get nothing)", clause=clause)
    # ---- TRAP-swallow: a handler for Exception / BaseException / everything that does not re-raise turns every failure of
    # the guarded code -- including the errors the properties say are raised -- into an ordinary result
    for fn in fns:
        for f in _all_fns([fn]):
            for tr in [x for x in body_nodes(f.node) if isinstance(x, ast.Try)]:
                for h in tr.handlers:
                    tnames = [] if h.type is None else [norm(e) for e in (h.type.elts if isinstance(h.type, ast.Tuple) else [h.type])]
                    broad = h.type is None or any(t in ("Exception", "BaseException") for t in tnames)
                    n["swallow"] = n.get("swallow", 0) + 1
                    if not broad:
                        continue
                    reraises = any(isinstance(x, ast.Raise) for b in h.body for x in ast.walk(b))
                    ctx.ob("TRAP-swallow", f, f"except {', '.join(tnames) or '<everything>'}", h, reraises,
                           "the handler re-raises" if reraises else
                           f"`except {', '.join(tnames) or ''}:` without re-raising answers every failure of the guarded statements with the "
                           f"handler's result: type errors, length mismatches and the errors the statement says are raised are silently "
                           f"turned into data", clause=clause)
    # ---- TRAP-negzero: x[-n:] is meant as "the last n", but for n == 0 it is x[0:], everything
    from ..guards import lower_bound
    for fn in fns:
        for f in _all_fns([fn]):
            for sub in [x for x in body_nodes(f.node) if isinstance(x, ast.Subscript) and isinstance(x.slice, ast.Slice)]:
                lo = sub.slice.lower
                if not (isinstance(lo, ast.UnaryOp) and isinstance(lo.op, ast.USub) and sub.slice.upper is None and sub.slice.step is None):
                    continue
                if isinstance(lo.operand, ast.Constant):
                    continue
                n["negzero"] = n.get("negzero", 0) + 1
                lb = lower_bound(ctx.repo, f, lo.operand, sub)
                ok = lb is not None and lb >= 1
                if not ok:
                    from ..facts import facts_at
                    x_ = norm(lo.operand)
                    nz = {("F", f"{x_} == 0"), ("T", f"{x_} != 0"), ("T", f"{x_} < 0"), ("T", f"{x_} > 0"), ("T", f"{x_} >= 1"),
                          ("T", f"{x_} <= -1"), ("F", f"not {x_}"), ("T", x_)}
                    if nz & set(facts_at(f, sub)):
                        ok, lb = True, "nonzero"
                ctx.ob("TRAP-negzero", f, norm(sub)[:60], sub, ok,
                       f"{norm(lo.operand)} is {'>= ' + str(lb) if lb != 'nonzero' else 'not 0'} here" if ok else
                       f"{norm(sub)[:50]} takes `the last {norm(lo.operand)}` elements, but -0 is 0: when {norm(lo.operand)} is 0 the slice is the "
                       f"whole sequence, not an empty one (no test on this path excludes 0)", clause=clause)
    # ---- TRAP-getter: operator.itemgetter(*names) returns a bare element, not a 1-tuple, when there is exactly one name
    for fn in fns:
        for f in _all_fns([fn]):
            parent = f.module.parent
            nodes = list(body_nodes(f.node))
            getters = {}
            for a in nodes:
                c = a.value if isinstance(a, ast.Assign) and len(a.targets) == 1 and isinstance(a.targets[0], ast.Name) else None
                if isinstance(c, ast.Call) and norm(c.func).endswith("itemgetter") and len(c.args) == 1 and isinstance(c.args[0], ast.Starred):
                    getters[a.targets[0].id] = c
            star_calls = [c for c in nodes if isinstance(c, ast.Call) and norm(c.func).endswith("itemgetter") and len(c.args) == 1
                          and isinstance(c.args[0], ast.Starred)]
            if not star_calls:
                continue
            n["getter"] = n.get("getter", 0) + len(star_calls)

            def seq_use(node):
                """is the value of ``node`` consumed as a sequence (zipped, iterated, unpacked, len, list/tuple/dict(zip))?"""
                par = parent.get(node)
                if isinstance(par, ast.Call) and isinstance(par.func, ast.Name) and par.func.id in ("zip", "list", "tuple", "len", "enumerate", "set") \
                        and node in par.args:
                    return True
                if isinstance(par, (ast.For, ast.comprehension)) and par.iter is node:
                    return True
                if isinstance(par, ast.Starred):
                    return True
                if isinstance(par, ast.Assign) and par.value is node and isinstance(par.targets[0], (ast.Tuple, ast.List)):
                    return True
                # methods that take ONE sequence argument: csv's writerow, list.extend, str.join
                if isinstance(par, ast.Call) and isinstance(par.func, ast.Attribute) and par.func.attr in ("writerow", "extend", "join") \
                        and node in par.args:
                    return True
                return False
            for c in star_calls:
                src_ = norm(c.args[0].value)
                from ..facts import facts_at
                import re as _reg
                if any(k == "T" and _reg.search(r"len\(" + _reg.escape(src_) + r"\) (>|>=|!=) [12]", t) for k, t in facts_at(f, c)):
                    continue
                gname = next((g for g, gc in getters.items() if gc is c), None)
                results = []      # expressions that hold ONE getter result
                colls = set()     # locals whose ELEMENTS are getter results
                for x in nodes:
                    if isinstance(x, ast.Call) and ((gname and isinstance(x.func, ast.Name) and x.func.id == gname) or x.func is c):
                        results.append(x)
                    # map(getter, rows): elements of the map object
                    if isinstance(x, ast.Call) and isinstance(x.func, ast.Name) and x.func.id == "map" and x.args and \
                            ((gname and isinstance(x.args[0], ast.Name) and x.args[0].id == gname) or x.args[0] is c):
                        mp = parent.get(x)
                        if isinstance(mp, ast.Assign) and isinstance(mp.targets[0], ast.Name):
                            colls.add(mp.targets[0].id)
                        elif isinstance(mp, (ast.For, ast.comprehension)) and mp.iter is x and isinstance(mp.target, ast.Name):
                            results += [y for y in nodes if isinstance(y, ast.Name) and y.id == mp.target.id and isinstance(y.ctx, ast.Load)]
                # one level of local flow: v = getter(x); R = [getter(x) for x in rows]; for y in R: ... y ...
                seen_r, work = set(), list(results)
                while work:
                    r = work.pop()
                    if id(r) in seen_r:
                        continue
                    seen_r.add(id(r))
                    par = parent.get(r)
                    if isinstance(par, ast.Assign) and par.value is r and len(par.targets) == 1 and isinstance(par.targets[0], ast.Name):
                        more = [y for y in nodes if isinstance(y, ast.Name) and y.id == par.targets[0].id and isinstance(y.ctx, ast.Load)
                                and getattr(y, "lineno", 0) > par.lineno]
                        results += more
                        work += more
                    if isinstance(par, (ast.ListComp, ast.GeneratorExp, ast.SetComp)) and par.elt is r:
                        pp = parent.get(par)
                        if isinstance(pp, ast.Assign) and isinstance(pp.targets[0], ast.Name):
                            colls.add(pp.targets[0].id)
                        elif isinstance(pp, (ast.For, ast.comprehension)) and pp.iter is par and isinstance(pp.target, ast.Name):
                            more = [y for y in nodes if isinstance(y, ast.Name) and y.id == pp.target.id and isinstance(y.ctx, ast.Load)]
                            results += more
                            work += more
                for it in [y for y in nodes if isinstance(y, (ast.For, ast.comprehension)) and isinstance(y.iter, ast.Name) and y.iter.id in colls
                           and isinstance(y.target, ast.Name)]:
                    scope = parent.get(it) if isinstance(it, ast.comprehension) else it
                    results += [y for y in ast.walk(scope) if isinstance(y, ast.Name) and y.id == it.target.id and isinstance(y.ctx, ast.Load)]
                bad = [r for r in results if seq_use(r)]
                if bad:
                    ctx.ob("TRAP-getter", f, norm(c)[:60], bad[0], False,
                           f"{norm(c)[:50]} returns a tuple for two or more names but the BARE element for exactly one; the result is used as a "
                           f"sequence ({norm(parent.get(bad[0]))[:50]}): with a single name a string is zipped / iterated character by character",
                           clause=clause)
    # ---- TRAP-npunique: np.unique(x) without index / inverse / counts sorts through x.sort() IN PLACE -- for an instance of
    # an ndarray subclass whose sort() returns a sorted COPY (dataiter's Vector) nothing is sorted and runs, not values,
    # are counted.  (With return_index / return_inverse / return_counts NumPy takes the argsort path, which is fine.)
    # ---- TRAP-isscalar: np.isscalar matches Python scalars by exact type: a str / bytes subclass instance (enum member)
    # is "not a scalar" unless an isinstance test over str stands next to it.
    ctx.rule("TRAP-npunique", "np.unique without index/inverse/counts is not applied to a value that may be an ndarray-subclass instance whose sort() is not in place")
    ctx.rule("TRAP-isscalar", "np.isscalar(v) decides scalar-ness only together with an isinstance test over str")
    PLAIN = ("np.asarray", "np.array", "numpy.asarray", "numpy.array", "list", "sorted", "tuple", "np.flatnonzero", "np.arange", "np.where",
             "np.concatenate", "np.ascontiguousarray")
    n_u = n_s = 0
    for fn in fns:
        for f in _all_fns([fn]):
            if any("njit" in norm(d) or "overload" in norm(d) for d in f.node.decorator_list):
                continue
            parent = f.module.parent
            for c in [x for x in body_nodes(f.node) if isinstance(x, ast.Call)]:
                fname = norm(c.func)
                if fname in ("np.unique", "numpy.unique") and c.args:
                    if any(k.arg in ("return_index", "return_inverse", "return_counts") and not (isinstance(k.value, ast.Constant) and k.value.value is False)
                           for k in c.keywords):
                        continue
                    a0 = c.args[0]
                    plain = (isinstance(a0, ast.Call) and (norm(a0.func) in PLAIN or (isinstance(a0.func, ast.Attribute) and a0.func.attr in ("tolist",))
                                                          or (isinstance(a0.func, ast.Attribute) and a0.func.attr == "view" and a0.args
                                                              and norm(a0.args[0]) in ("np.ndarray", "numpy.ndarray")))) \
                        or isinstance(a0, (ast.List, ast.Tuple, ast.ListComp))
                    n_u += 1
                    if not plain:
                        ctx.ob("TRAP-npunique", f, norm(c)[:70], c, False,
                               f"{norm(c)[:60]} takes NumPy's sort-in-place path (`ar.sort()`); for a Vector, whose sort() returns a sorted copy and leaves "
                               f"the array as it is, the values stay unsorted and every run of equal neighbours counts as a distinct value "
                               f"([1, 2, 1] -> 3 uniques)", clause=clause)
                if fname in ("np.isscalar", "numpy.isscalar") and c.args:
                    n_s += 1
                    top = c
                    while isinstance(parent.get(top), ast.BoolOp) and isinstance(parent.get(top).op, ast.Or):
                        top = parent.get(top)
                    v = norm(c.args[0])
                    has_str = any(isinstance(x, ast.Call) and norm(x.func) == "isinstance" and len(x.args) == 2 and norm(x.args[0]) == v
                                  and any(isinstance(t, ast.Name) and t.id == "str" for t in ast.walk(x.args[1])) for x in ast.walk(top))
                    ctx.ob("TRAP-isscalar", f, norm(top)[:70], c, has_str,
                           "an isinstance test over str stands next to np.isscalar" if has_str else
                           f"np.isscalar({v}) recognises Python scalars by EXACT type (plus numbers.Number): an instance of a str subclass -- a "
                           f"`class Color(str, Enum)` member, a StrEnum -- is not a scalar, so it is iterated character by character instead of "
                           f"being broadcast", clause=clause)
    # ---- TRAP-kwmerge: defaults merged OVER the caller's keyword arguments -- dict(kwargs, **DEFAULTS), dict(kwargs, k=v),
    # {**kwargs, **DEFAULTS}, kwargs.update(DEFAULTS): whatever the caller passed for those keys is silently replaced
    # (the library's own idiom is kwargs.setdefault(k, v); dict(DEFAULTS, **kwargs) is the merged spelling).
    # ---- TRAP-frozen: a parameter default that reads a run-time option of the package (dataiter.PRINT_MAX_ROWS ...) is
    # evaluated once, when the function is defined: changing the option later has no effect on that function.
    ctx.rule("TRAP-kwmerge", "defaults never override the keyword arguments the caller passed")
    ctx.rule("TRAP-frozen", "no parameter default reads a run-time option of the package at definition time")
    for fn in fns:
        for f in _all_fns([fn]):
            kwn = f.node.args.kwarg.arg if f.node.args.kwarg is not None else None
            if kwn is not None:
                for x in body_nodes(f.node):
                    bad = None
                    if isinstance(x, ast.Call) and isinstance(x.func, ast.Name) and x.func.id == "dict" and x.args \
                            and isinstance(x.args[0], ast.Name) and x.args[0].id == kwn and x.keywords:
                        bad = x
                    if isinstance(x, ast.Dict) and any(k is None and isinstance(v, ast.Name) and v.id == kwn for k, v in zip(x.keys, x.values)):
                        pos = [i for i, (k, v) in enumerate(zip(x.keys, x.values)) if k is None and isinstance(v, ast.Name) and v.id == kwn][0]
                        if pos < len(x.keys) - 1:
                            bad = x
                    if isinstance(x, ast.Call) and isinstance(x.func, ast.Attribute) and x.func.attr == "update" and isinstance(x.func.value, ast.Name) \
                            and x.func.value.id == kwn and (x.args or x.keywords):
                        bad = x
                    if bad is not None:
                        ctx.ob("TRAP-kwmerge", f, norm(bad)[:70], bad, False,
                               f"{norm(bad)[:60]} puts the defaults AFTER **{kwn}: a key the caller passed (encoding=, ensure_ascii=, indent= ...) is replaced by "
                               f"the default, so the option is accepted and silently ignored", clause=clause)
            a_ = f.node.args
            for d in list(a_.defaults) + [k for k in a_.kw_defaults if k is not None]:
                opt = [x for x in ast.walk(d) if isinstance(x, ast.Attribute) and isinstance(x.value, ast.Name) and x.value.id == "dataiter"
                       and x.attr.isupper()]
                if opt:
                    ctx.ob("TRAP-frozen", f, f"default {norm(d)[:50]}", d, False,
                           f"the default {norm(d)[:40]} is evaluated when the function is defined: after `dataiter.{opt[0].attr} = ...` at run time the "
                           f"function keeps using the value the option had at import", clause=clause)
    ctx.note(f"TRAP: {n['iter']} one-shot iterators bound to locals, {n['late']} closures over loop variables, "
             f"{n['default']} mutable defaults, {n['shared']} fromkeys(keys, value) calls examined")


def anchor_functions(repo, prop_id):
    """Top-level functions and methods of the files the property statement is anchored in (properties.jsonl)."""
    import json
    import os
    here = os.path.dirname(os.path.dirname(os.path.dirname(os.path.abspath(__file__))))
    files = []
    with open(os.path.join(here, "properties.jsonl")) as fh:
        for line in fh:
            p = json.loads(line)
            if p["id"] == prop_id:
                files = p.get("anchors", {}).get("files", [])
    return [f for f in repo.functions.values() if f.parent is None and f.module.path in files]


def bool_mask_dtype(ctx, fns, clause, rule="TRAP-maskdtype"):
    """TRAP-maskdtype: a boolean mask built from a Python list must state its dtype: for an EMPTY list NumPy infers
    float64, and a float64 'mask' fails in ~mask, a | b and x[mask]."""
    ctx.rule(rule, "X.fast([<boolean expression> for ...]) / np.array([...]) building a mask passes bool explicitly (an empty list is float64)")
    n = 0

    def boolish(e):
        if isinstance(e, ast.Compare) or (isinstance(e, ast.UnaryOp) and isinstance(e.op, ast.Not)) or isinstance(e, ast.BoolOp):
            return True
        if isinstance(e, ast.Call) and isinstance(e.func, ast.Name) and e.func.id in ("isinstance", "callable", "bool", "hasattr"):
            return True
        return False
    for fn in fns:
        for f, c in calls_in(fn):
            tail = c.func.attr if isinstance(c.func, ast.Attribute) else (c.func.id if isinstance(c.func, ast.Name) else "")
            if tail not in ("fast", "array", "asarray", "Vector", "DataFrameColumn") or not c.args:
                continue
            a0 = c.args[0]
            if not (isinstance(a0, ast.ListComp) and boolish(a0.elt)):
                continue
            n += 1
            has_dtype = len(c.args) > 1 or any(k.arg == "dtype" for k in c.keywords)
            ctx.ob(rule, f, norm(c)[:80], c, has_dtype,
                   "the mask's dtype is stated" if has_dtype else
                   f"{norm(c)[:60]} leaves the dtype to NumPy: for a zero-length input the result is float64, not bool, and the callers' "
                   f"`~mask`, `a | mask` and `x[mask]` raise TypeError -- empty vectors / frames / groups stop working", clause=clause)
    ctx.note(f"{rule}: {n} masks built from list comprehensions examined")


TOTAL_FUNCTIONS = {
    # functions that reject nothing themselves on the pinned tree and whose statement quantifies over every argument
    "dataiter.vector.Vector.replace_na": "replace_na replaces exactly the missing positions, for any replacement value",
    "dataiter.vector.Vector.drop_na": "drop_na removes exactly the missing positions",
    "dataiter.vector.Vector.is_na": "is_na flags exactly the missing positions",
    "dataiter.vector.Vector.dt": "the Vector .dt proxy returns the same results as the module functions (from_string takes strings)",
    "dataiter.vector.Vector.re": "the Vector .re proxy returns the same results as the module functions",
    "dataiter.vector.Vector.str": "the Vector .str proxy returns the same results as the module functions",
    "dataiter.data_frame.DataFrame._get_join_indices": "all joins succeed when either side is empty or nothing matches",
    "dataiter.data_frame.DataFrame.drop_na": "drop_na drops exactly the rows with a missing value in a named column",
    "dataiter.list_of_dicts.ListOfDicts.group_by": "aggregate yields one item per distinct key combination, for lists of length 0..N",
}


def total_functions(ctx, names, rule="TOTAL"):
    """TOTAL: a short, hand-confirmed table of functions that contain no `raise` on the pinned tree and that the statement
    quantifies over all arguments of: a raise statement in one of them narrows the domain the property promises."""
    ctx.rule(rule, "functions of the hand-confirmed table TOTAL_FUNCTIONS contain no raise statement")
    for q in names:
        fn = ctx.repo.functions.get(q) or ctx.repo.functions.get(q + "@getter")
        if fn is None:
            continue
        rs = [x for f in _all_fns([fn]) for x in body_nodes(f.node) if isinstance(x, ast.Raise)]
        from ..facts import facts_at
        cond = [t for k, t in facts_at(fn, rs[0]) if not t.startswith("iter:")][:2] if rs else []
        ctx.ob(rule, fn, f"{fn.name} raises nothing itself", rs[0] if rs else fn.node, not rs,
               "no raise statement" if not rs else
               f"{fn.qualname} now raises {norm(rs[0].exc)[:50] if rs[0].exc is not None else ''} (under {cond}): inputs the statement covers "
               f"are rejected where they used to be processed", clause=TOTAL_FUNCTIONS[q])


def raises_inside_domain(ctx, fn, param, grid, what, clause, rule="GRD-domain", lengths=()):
    """GRD-domain: a `raise` guarded by a test on a numeric parameter must not fire for values the statement's domain
    contains.  ``grid``: representative values of the parameter (boundaries included); ``lengths``: texts standing for a
    sequence length, enumerated 0..3.  Decided by interpreting the guard (sa/intpred.py)."""
    from ..intpred import holds_somewhere
    from ..facts import facts_at
    ctx.rule(rule, "an explicit validation of a numeric argument rejects no value of the documented domain")
    n = 0
    for f in _all_fns([fn]):
        for rz in [x for x in body_nodes(f.node) if isinstance(x, ast.Raise)]:
            # the innermost enclosing `if` whose body contains the raise, with polarity
            par, child = f.module.parent.get(rz), rz
            while par is not None and not isinstance(par, ast.If):
                child, par = par, f.module.parent.get(par)
            if par is None or not any(isinstance(m, ast.Name) and m.id == param for m in ast.walk(par.test)):
                continue
            test = par.test if child in par.body else ast.UnaryOp(op=ast.Not(), operand=par.test)
            n += 1
            envs = []
            for v in grid:
                if lengths:
                    for ln in range(0, 4):
                        e = {param: v(ln) if callable(v) else v}
                        for lt in lengths:
                            e[lt] = ln
                        envs.append(e)
                else:
                    envs.append({param: v})
            hit = holds_somewhere(test, envs)
            if isinstance(hit, tuple):
                ctx.note(f"{rule}: {f.qualname}: guard {norm(par.test)} not decidable here ({hit[1]})")
                continue
            ctx.ob(rule, f, f"raise under {norm(par.test)[:60]}", rz, hit is None,
                   f"the validation rejects no {what}" if hit is None else
                   f"the validation `{norm(par.test)[:60]}` also fires for {param} = {hit[param]}"
                   + (f" with length {[hit[l] for l in lengths][0]}" if lengths else "") + f", which is {what}: the call raises instead of "
                   f"computing the documented result", clause=clause)
    ctx.note(f"{rule}: {n} validation(s) of {param} in {fn.qualname} examined")


def rank_orders_values(ctx, rank, clause, rule="ORD-rank"):
    """ORD-rank: Vector.rank orders the VALUES of the vector.  Each rebinding of the ranked variable before the ordering
    primitive is judged: order-preserving ones (the fixed-width string optimisation, a copy / view, the constant stand-in
    for an entirely missing vector under `na.all()`) pass; an elementwise conversion to text (as_string, astype(str),
    str(x) for x in ...) makes numbers order as text ("10" < "9") and turns None into the string "None", which is no
    longer missing -- reported; anything else cannot be judged here (analysis error)."""
    from ..dataflow import defs_reaching
    from ..facts import facts_at
    ctx.rule(rule, "what rank orders is the vector itself or an order-preserving image of it, never its text")
    R0 = rank.params[0]
    n = 0
    for a in [x for x in body_nodes(rank.node) if isinstance(x, ast.Assign) and len(x.targets) == 1 and isinstance(x.targets[0], ast.Name)
              and x.targets[0].id == R0]:
        v = a.value
        t = norm(v)
        n += 1
        if t in (f"{R0}._optimize_for_argsort()", f"{R0}.copy()", f"{R0}.view()"):
            ctx.ob(rule, rank, t, a, True, "order-preserving", nontrivial=False)
            continue
        if isinstance(v, ast.Call) and norm(v.func) == f"{R0}.fast" and v.args and norm(v.args[0]).startswith(("np.repeat(", "np.full(", "np.ones(", "np.zeros(", "np.full_like(", "np.ones_like(", "np.zeros_like(")) \
                and any(k == "T" and t_.endswith(".all()") and "na" in t_ for k, t_ in facts_at(rank, a)):
            ctx.ob(rule, rank, t[:60], a, True, "constant stand-in, entirely missing vectors only", nontrivial=False)
            continue
        textual = any((isinstance(c, ast.Call) and isinstance(c.func, ast.Attribute) and c.func.attr in ("as_string", "to_strings"))
                      or (isinstance(c, ast.Call) and isinstance(c.func, ast.Attribute) and c.func.attr == "astype" and c.args and norm(c.args[0]) in ("str", "np.str_", "dtypes.string"))
                      or (isinstance(c, ast.Call) and isinstance(c.func, ast.Name) and c.func.id in ("str", "repr"))
                      for c in ast.walk(v))
        if textual:
            ctx.ob(rule, rank, t[:70], a, False,
                   f"rank orders {t[:50]} instead of the values: numbers held in the vector are ordered as text ('10' < '9', '-1' < '-10'), and None "
                   f"becomes the string 'None', which is not missing and is ranked alphabetically instead of last", clause=clause)
            continue
        raise AnalysisError(f"{rank.qualname}: {R0} is rebound to `{t[:60]}` before ranking: cannot tell whether the order of the values is kept")
    ctx.note(f"{rule}: {n} rebinding(s) of the ranked vector examined")


def bitpattern_keys(ctx, uq, clause, rule="GRD-sentinel"):
    """A key column reinterpreted as integers (column.view("i8")) is compared by BIT PATTERN: 0.0 and -0.0, and NaNs that
    differ in sign or payload (0/0 on x86 is the negative NaN, float("nan") the positive one), are equal as values and
    as sort keys but different bit patterns.  Returns True when such a view was found (and reported)."""
    hits = [c for _, c in calls_in(uq) if isinstance(c.func, ast.Attribute) and c.func.attr == "view" and c.args
            and ((isinstance(c.args[0], ast.Constant) and isinstance(c.args[0].value, str) and c.args[0].value.lstrip("<>=|")[:1] in ("i", "u"))
                 or (isinstance(c.args[0], ast.JoinedStr) and c.args[0].values and isinstance(c.args[0].values[0], ast.Constant)
                     and str(c.args[0].values[0].value).lstrip("<>=|")[:1] in ("i", "u"))
                 or norm(c.args[0]) in ("int", "np.int64", "np.uint64", "np.int32"))]
    for c in hits:
        ctx.ob(rule, uq, norm(c)[:60], c, False,
               f"{norm(c)[:50]} turns the key into its bit pattern: 0.0 and -0.0 become different keys, and so do NaNs of different sign or "
               f"payload -- values that are equal (or equally missing) are split into several groups, which sort still treats as ties",
               clause=clause)
    return bool(hits)


def argument_as_given(ctx, fn, param, legit, clause, rule="ARG-asgiven"):
    """ARG-asgiven: every rebinding `param = <expr>` in ``fn`` is the identity on the LEGITIMATE argument values listed in
    ``legit`` (values the statement covers although they are falsy: q = 0, an empty selection, n = 0; or an explicit value that
    must win over state).  The expression is evaluated symbolically: `or` / `and` / `not` / conditional expressions /
    `is None` tests over the parameter (truthiness of the legit value), constants, and other operands as opaque atoms that are
    tried both truthy and falsy.  A result other than the parameter itself for some legit value is reported."""
    import itertools
    ctx.rule(rule, "rebindings of an argument keep every legitimate value the caller can pass (0, empty, explicit)")
    n = 0
    for a in [x for x in body_nodes(fn.node) if isinstance(x, ast.Assign) and len(x.targets) == 1 and isinstance(x.targets[0], ast.Name)
              and x.targets[0].id == param]:
        expr = a.value
        atoms = []

        def collect(e):
            if isinstance(e, ast.Name) and e.id == param or isinstance(e, ast.Constant):
                return
            if isinstance(e, ast.BoolOp):
                for v in e.values:
                    collect(v)
            elif isinstance(e, ast.UnaryOp) and isinstance(e.op, ast.Not):
                collect(e.operand)
            elif isinstance(e, ast.IfExp):
                collect(e.test), collect(e.body), collect(e.orelse)
            elif isinstance(e, ast.Compare) and len(e.ops) == 1 and isinstance(e.ops[0], (ast.Is, ast.IsNot)) and norm(e.comparators[0]) == "None":
                collect(e.left)
            else:
                t = norm(e)
                if t not in atoms:
                    atoms.append(t)
                if any(isinstance(y, ast.Name) and y.id == param for y in ast.walk(e)) and t not in uses_param:
                    uses_param.append(t)
        uses_param = []
        collect(expr)
        if uses_param or len(atoms) > 4:
            continue        # the parameter is transformed, not defaulted: not this rule's business
        n += 1

        def ev(e, val, truth):
            """-> ("P",) | ("C", const) | ("A", text) | ("B", bool)"""
            if isinstance(e, ast.Name) and e.id == param:
                return ("P",)
            if isinstance(e, ast.Constant):
                return ("C", e.value)
            if isinstance(e, ast.BoolOp):
                last = None
                for v in e.values:
                    last = ev(v, val, truth)
                    t = tr(last, val, truth)
                    if (isinstance(e.op, ast.Or) and t) or (isinstance(e.op, ast.And) and not t):
                        return last
                return last
            if isinstance(e, ast.UnaryOp) and isinstance(e.op, ast.Not):
                return ("B", not tr(ev(e.operand, val, truth), val, truth))
            if isinstance(e, ast.IfExp):
                return ev(e.body if tr(ev(e.test, val, truth), val, truth) else e.orelse, val, truth)
            if isinstance(e, ast.Compare) and len(e.ops) == 1 and isinstance(e.ops[0], (ast.Is, ast.IsNot)) and norm(e.comparators[0]) == "None":
                l = ev(e.left, val, truth)
                is_none = (l[0] == "C" and l[1] is None) or (l[0] == "A" and not truth[l[1]])
                return ("B", is_none == isinstance(e.ops[0], ast.Is))
            return ("A", norm(e))

        def tr(tok, val, truth):
            if tok[0] == "P":
                return bool(val)
            if tok[0] in ("C", "B"):
                return bool(tok[1])
            return truth[tok[1]]
        witness = None
        for val in legit:
            for combo in itertools.product((True, False), repeat=len(atoms)):
                truth = dict(zip(atoms, combo))
                r = ev(expr, val, truth)
                if r != ("P",) and witness is None:
                    witness = (val, {k: v for k, v in truth.items()}, r)
        ctx.ob(rule, fn, norm(a)[:70], a, witness is None,
               f"every legitimate value of {param} survives" if witness is None else
               f"`{norm(a)[:60]}` replaces the argument {param} = {witness[0]!r} by {witness[2][1] if len(witness[2]) > 1 else witness[2]}"
               f"{' (when ' + ', '.join(k + (' is set' if v else ' is empty / None') for k, v in witness[1].items()) + ')' if witness[1] else ''}: "
               f"a value the caller passed deliberately is treated as `not given`", clause=clause)
    return n


def split_pieces_on_empty(ctx, repo, fns, clause, rule="GRD-split"):
    """GRD-split: np.split(x, bounds) / np.array_split return len(bounds) + 1 pieces -- ONE (empty) piece for an empty x with
    no bounds.  Where the pieces are the groups of a partition, a zero-row input then has one phantom group; the call must
    be reached only with a non-empty x (a dominating length test / early return)."""
    from ..guards import nonempty
    ctx.rule(rule, "np.split is reached only with a non-empty array where its pieces stand for groups")
    n = 0
    for fn in fns:
        for f in _all_fns([fn]):
            for _f, c in calls_in(f, False):
                if norm(c.func) in ("np.split", "numpy.split", "np.array_split", "numpy.array_split") and c.args:
                    n += 1
                    ok, why = nonempty(repo, f, c.args[0], c)
                    ctx.ob(rule, f, norm(c)[:60], c, ok,
                           f"{norm(c.args[0])} is non-empty here ({why})" if ok else
                           f"{norm(c)[:50]} returns one piece even when {norm(c.args[0])} is empty ({why}): a zero-row input is partitioned into one "
                           f"phantom empty group, where the index loop (and the compiled twin) yield no group at all", clause=clause)
    return n


def names_as_given(ctx, fn, param, clause, rule="ARG-names"):
    """ARG-names: a `*names` parameter carries the caller's names IN THE CALLER'S ORDER.  (a) No value derived from it by
    set() / frozenset() / sorted() / reversed() / np.unique() is bound to the parameter, to an attribute of self or yielded /
    returned: the order of the names is the order of the result's columns and of its sort.  (b) The tuple is unwrapped to one
    of its own elements (`names = names[0]`, "accept a list too") only under a test that this element is not a string: a
    single *name* would otherwise be taken for a collection of names and matched character by character / by substring.
    Uses of such calls in tests and error messages are not touched."""
    ctx.rule(rule, "the names of a *names parameter are used in the caller's order, and a single name is never unwrapped into its characters")
    REORDER = {"set", "frozenset", "sorted", "reversed", "np.unique", "numpy.unique"}
    parents = {}
    for p in ast.walk(fn.node):
        for c in ast.iter_child_nodes(p):
            parents[c] = p
    derived = {param}
    stmts = [x for x in body_nodes(fn.node) if isinstance(x, (ast.Assign, ast.Return, ast.Expr, ast.AugAssign))]
    n = 0
    for _ in range(2):
        for s in stmts:
            if isinstance(s, ast.Assign) and any(isinstance(y, ast.Name) and y.id in derived for y in ast.walk(s.value)):
                for t in s.targets:
                    if isinstance(t, ast.Name):
                        derived.add(t.id)
    for s in stmts:
        value = s.value
        if isinstance(value, (ast.Yield, ast.YieldFrom)):
            value = value.value
        if value is None:
            continue
        binds = isinstance(s, ast.Return) or isinstance(s.value, (ast.Yield, ast.YieldFrom)) if not isinstance(s, (ast.Assign, ast.AugAssign)) else True
        if not binds:
            continue
        if isinstance(s, ast.Assign) and not any((isinstance(t, ast.Name) and t.id in derived) or
                                                 (isinstance(t, ast.Attribute) and norm(t.value) == "self") for t in s.targets):
            continue
        uses = any(isinstance(y, ast.Name) and y.id in derived for y in ast.walk(value))
        if not uses:
            continue
        n += 1
        bad = [c for c in ast.walk(value) if isinstance(c, ast.Call) and norm(c.func) in REORDER
               and any(isinstance(y, ast.Name) and y.id in derived for y in ast.walk(c))]
        ctx.ob(rule, fn, norm(s)[:70], s, not bad,
               f"{param} keeps the caller's order here" if not bad else
               f"`{norm(bad[0])[:50]}` re-orders / de-duplicates the names given as {param}: the result's columns and its ordering follow "
               f"the names in the order the caller wrote them", clause=clause)
        # (b) unwrapping
        if isinstance(s, ast.Assign) and isinstance(value, ast.Subscript) and isinstance(value.value, ast.Name) and value.value.id in derived \
                and any(isinstance(t, ast.Name) and t.id in derived for t in s.targets) and isinstance(value.slice, ast.Constant):
            elem = norm(value)
            guarded, p = False, s
            while p in parents:
                q = parents[p]
                if isinstance(q, ast.If) and p in q.body:
                    for c in ast.walk(q.test):
                        if isinstance(c, ast.Call) and norm(c.func) == "isinstance" and c.args and norm(c.args[0]) == elem:
                            guarded = True
                p = q
            n += 1
            ctx.ob(rule, fn, "unwrap " + norm(s)[:60], s, guarded,
                   f"{elem} is unwrapped under a type test of that element" if guarded else
                   f"`{norm(s)[:50]}` takes the single name {elem} for a collection of names whenever one name is given: "
                   f"membership in a string is a substring test", clause=clause)
    return n
