"""C14 -- restricting or aliasing a read never changes what is read.

FWD-alias  exact for the alias clause: each io.py function declared (through
           util.format_alias_doc(alias, target)) an alias of T.m has T.m's
           signature minus cls and forwards every parameter under its own name.
FWD-live   the restriction / typing parameters of every reader reach a use.
TNT-order  at every positional labelling site (zip(names, values)) of a reader
           the two operands carry the same order provenance.
"""
import ast
from ..common import calls_in, norm, kw, DF, LOD, GEO
from ..facts import facts_at
from ..model import AnalysisError, FunctionInfo, body_nodes
from ..signatures import sig, forwarded, keyword_value, name_uses
from ..dataflow import defs_reaching, comprehension_binding, depends_on
from ..cfg import cfg_of

EXPLANATION = (
    "Forwarding analysis of the five alias functions of dataiter/io.py against the class methods they are declared "
    "aliases of (declaration read from the util.format_alias_doc(alias, target) statements): equal signatures minus "
    "cls, one call of the target on every path, every parameter passed under its own name, **kwargs forwarded -- this "
    "decides the alias clause exactly (a dropped or rebound argument is dropped for every value). For restriction: "
    "liveness of columns/keys/dtypes/types in every reader, by-name application of dtype maps, and an order-provenance "
    "dataflow at every positional labelling site zip(names, values) in a reader (names in REQUEST order must not label "
    "values in FILE order); (RESTR-pol) membership tests on the restriction parameter keep the elements IN it; (TYPE-flow) each (name, type) "
    "pair of a type map reaches a conversion; (CAST-conv) parsed Python lists are cast through the converting constructor, never "
    ".fast(). Not decided: that casting after reading equals casting while reading; PyArrow's own "
    "column selection."
)
ASSUMPTIONS = [
    "pyarrow.csv ConvertOptions(include_columns=...) and parquet.read_table(columns=...) label the columns they return themselves",
    "csv.reader yields rows in file column order",
]

READERS = [
    f"{DF}.read_csv", f"{DF}.read_json", f"{DF}.read_npz", f"{DF}.read_parquet", f"{DF}.from_json",
    f"{DF}.from_arrow", f"{DF}.from_pandas",
    f"{LOD}.read_csv", f"{LOD}.read_json", f"{LOD}.from_json", f"{GEO}.read",
]
RESTRICT = ("columns", "keys")
TYPING = ("dtypes", "types")


def declared_aliases(repo):
    """(alias FunctionInfo, target FunctionInfo) from format_alias_doc(alias, target) statements."""
    mod = repo.modules.get("dataiter.io")
    if mod is None:
        raise AnalysisError("anchor vanished: module dataiter.io")
    out = []
    for node in mod.tree.body:
        if isinstance(node, ast.Assign) and isinstance(node.value, ast.Call):
            c = node.value
            d = repo.dotted_in_module(mod, c.func)
            if d == "dataiter.util.format_alias_doc" and len(c.args) == 2:
                a = repo.dotted_in_module(mod, c.args[0])
                t = repo.dotted_in_module(mod, c.args[1])
                af = repo.functions.get(a)
                tf = None
                if t in repo.functions:
                    tf = repo.functions[t]
                elif t and t.rsplit(".", 1)[0] in repo.classes:
                    hit = repo.lookup_method(repo.classes[t.rsplit(".", 1)[0]], t.rsplit(".", 1)[1])
                    tf = hit if isinstance(hit, FunctionInfo) else None
                if af is None or tf is None:
                    raise AnalysisError(f"cannot resolve alias declaration {norm(node)}")
                out.append((af, tf))
    return out


def order_tags(fn, expr, params, depth=5):
    """Order provenance of a sequence expression: subset of {'REQUEST','FILE'}."""
    if depth == 0:
        return {"FILE"}
    if isinstance(expr, ast.Name):
        if comprehension_binding(fn, expr.id, expr):
            return {"FILE"}
        tags = set()
        for d in defs_reaching(fn, expr.id, expr):
            if d.kind == "param":
                tags.add("REQUEST" if expr.id in params else "FILE")
            elif d.kind in ("assign", "walrus") and d.value is not None and isinstance(d.target, (ast.Name, type(None))):
                tags |= order_tags(fn, d.value, params, depth - 1)
            else:
                tags.add("FILE")
        return tags
    if isinstance(expr, ast.IfExp):
        return order_tags(fn, expr.body, params, depth - 1) | order_tags(fn, expr.orelse, params, depth - 1)
    if isinstance(expr, ast.BoolOp):
        out = set()
        for v in expr.values:
            out |= order_tags(fn, v, params, depth - 1)
        return out
    if isinstance(expr, ast.Call) and isinstance(expr.func, ast.Name) and expr.func.id in ("list", "tuple", "sorted", "reversed") and expr.args:
        return order_tags(fn, expr.args[0], params, depth - 1)
    if isinstance(expr, (ast.ListComp, ast.GeneratorExp)):
        # order of a comprehension is the order of its (first) iterable
        return order_tags(fn, expr.generators[0].iter, params, depth - 1)
    if isinstance(expr, ast.Subscript):
        return order_tags(fn, expr.value, params, depth - 1)
    return {"FILE"}


def field_order_tags(fn, expr, params, depth=4):
    """Order provenance of the FIELDS inside each element of a sequence of rows (``expr``): the rows keep the file's
    field order unless they were rebuilt by picking fields through an index list, whose order they then carry."""
    if depth == 0 or not isinstance(expr, ast.Name):
        return {"FILE"}
    tags = set()
    for d in defs_reaching(fn, expr.id, expr):
        v = d.value
        if d.kind not in ("assign", "walrus") or v is None or not isinstance(d.target, (ast.Name, type(None))):
            tags.add("FILE")
            continue
        at = d.node.ast if d.node is not None and d.node.ast is not None else expr
        if isinstance(v, ast.Call) and isinstance(v.func, ast.Name) and v.func.id in ("list", "tuple") and v.args:
            v = v.args[0]
        if isinstance(v, (ast.ListComp, ast.GeneratorExp)):
            elt = v.elt
            while isinstance(elt, ast.Call) and isinstance(elt.func, ast.Name) and elt.func.id in ("list", "tuple") and elt.args:
                elt = elt.args[0]
            idx = None
            if isinstance(elt, ast.Call) and isinstance(elt.func, ast.Name):
                # getter = operator.itemgetter(*indices); [getter(row) for row in rows]
                for g in defs_reaching(fn, elt.func.id, at):
                    gv = g.value
                    if isinstance(gv, ast.Call) and norm(gv.func).endswith("itemgetter") and gv.args:
                        idx = gv.args[0].value if isinstance(gv.args[0], ast.Starred) else None
            elif isinstance(elt, (ast.ListComp, ast.GeneratorExp)) and isinstance(elt.elt, ast.Subscript):
                # [[row[i] for i in indices] for row in rows]
                idx = elt.generators[0].iter
            if idx is not None:
                tags |= order_tags(fn, idx, params, depth - 1)
            else:
                tags |= field_order_tags(fn, v.generators[0].iter, params, depth - 1) if isinstance(v.generators[0].iter, ast.Name) else {"FILE"}
        elif isinstance(v, ast.Name):
            tags |= field_order_tags(fn, v, params, depth - 1)
        else:
            tags.add("FILE")
    return tags or {"FILE"}


def check(ctx):
    repo = ctx.repo
    from . import generic as _gen
    _gen.language_traps(ctx, _gen.anchor_functions(repo, "C14"), "the property holds for every input, on every call")
    ctx.rule("FWD-alias", "alias has the target's signature minus cls; single call of the declared target on every path; "
                          "every parameter forwarded under its own name; **kwargs forwarded")
    ctx.rule("FWD-live", "restriction and typing parameters of each reader are read on some path")
    ctx.rule("CAST-conv", "dtype maps are applied to parsed Python lists through the converting constructor, never .fast()")
    ctx.rule("RESTR-pol", "membership tests on the restriction parameter keep the elements IN it")
    ctx.rule("TYPE-flow", "each (name, type) pair of a type map reaches a conversion")
    ctx.rule("TNT-order", "zip(names, values) labelling sites in readers: same order provenance on both sides")
    ctx.trust("CPython ast; pyarrow readers label their own columns")
    aliases = declared_aliases(repo)
    ctx.count("io aliases", len(aliases), 5)
    io = repo.modules["dataiter.io"]
    public = [f for f in io.functions.values() if f.name.startswith("read_")]
    undeclared = [f.name for f in public if f not in [a for a, _ in aliases]]
    ctx.ob("FWD-alias", "dataiter.io", "every read_* function of io.py is a declared alias", "dataiter/io.py:1", not undeclared,
           "all public functions of io.py are declared aliases" if not undeclared else
           f"public io functions without alias declaration: {undeclared}", nontrivial=False)
    for af, tf in aliases:
        classmeth = any(d == "builtins.classmethod" for d in tf.decorators)
        s1, s2 = sig(af), sig(tf, drop_first=(tf.cls is not None))
        ok = s1 == s2
        ctx.ob("FWD-alias", af, f"signature of {af.name} vs {tf.qualname}", af.node, ok,
               "signatures equal (names, kinds, defaults)" if ok else f"signature differs: alias {s1} target {s2}",
               nontrivial=False, clause="aliases return exactly what the class methods return")
        # single call of the target on every path
        calls = []
        for f, c in calls_in(af):
            r = repo.resolve_call(f, c)
            if r[0] == "pkg" and tf in r[1]:
                calls.append(c)
        cfg = cfg_of(af)
        rets = [n for n in cfg.nodes if n.kind == "stmt" and isinstance(n.ast, ast.Return)]
        ok = len(calls) == 1 and bool(rets) and all(r.ast.value is calls[0] for r in rets) \
            and not any(p is cfg.exit for n in cfg.nodes if n.kind != "stmt" or not isinstance(n.ast, ast.Return)
                        for p, _ in n.succ)
        ctx.ob("FWD-alias", af, f"return {tf.cls.name + '.' if tf.cls else ''}{tf.name}(...)", af.node, ok,
               "every path returns the result of the single call of the declared target" if ok else
               f"alias does not simply return one call of {tf.qualname} on every path ({len(calls)} call(s) found)",
               clause="aliases return exactly what the class methods return")
        if len(calls) != 1:
            continue
        call = calls[0]
        tparams = s2["params"]
        for p in af.params + af.kwonly:
            how = forwarded(call, p, position=tparams.index(p) if p in tparams and p in af.params else None)
            v = keyword_value(call, p)
            if how is None and v is not None:
                why = f"parameter {p!r} is replaced by {norm(v)} in the call: the caller's value is ignored for every input"
            elif how is None:
                why = f"parameter {p!r} never reaches {tf.qualname}"
            else:
                why = f"{p} forwarded ({how})"
            ctx.ob("FWD-alias", af, f"{p}={p}", call, how in ("kw", "pos"), why,
                   clause="for every combination of arguments")
        if af.kwarg:
            how = forwarded(call, af.kwarg)
            ctx.ob("FWD-alias", af, f"**{af.kwarg}", call, how == "star",
                   "**kwargs forwarded" if how == "star" else f"**{af.kwarg} is not forwarded")
        extra = [k.arg for k in call.keywords if k.arg is not None and k.arg not in af.params + af.kwonly]
        ctx.ob("FWD-alias", af, "no additional keyword arguments", call, not extra,
               "alias adds no arguments of its own" if not extra else f"alias passes extra arguments {extra}",
               nontrivial=False)

    # ------------------------------------------------------------ readers
    n_live = 0
    n_sites = 0
    for q in READERS:
        fn = repo.fn(q)
        for p in fn.all_params:
            if p in RESTRICT + TYPING:
                uses = _effective_uses(fn, p)
                n_live += 1
                ctx.ob("FWD-live", fn, f"parameter {p}", fn.node, bool(uses),
                       f"{p} is read at line(s) {sorted({u.lineno for u in uses})}" if uses else
                       f"reader ignores its {p!r} argument for every value",
                       clause="restriction / dtype mapping is honoured")
                if p in TYPING and uses:
                    # applied by name: iterated with .items() and used as subscript key / passed on by keyword
                    byname = False
                    for u in uses:
                        par = fn.module.parent.get(u)
                        if isinstance(par, ast.Attribute) and par.attr in ("items", "get"):
                            byname = True
                        if isinstance(par, ast.keyword) and par.arg == p:
                            byname = True
                    ctx.ob("FWD-live", fn, f"{p} applied by name", uses[0], byname,
                           f"{p} is consumed as a name->type mapping (.items()/.get()) or handed on under its own name"
                           if byname else f"{p} is not applied by column name", nontrivial=True)
        # labelling sites
        for f, c in calls_in(fn):
            if isinstance(c.func, ast.Name) and c.func.id == "zip" and len(c.args) == 2 \
                    and not any(isinstance(a, ast.Starred) for a in c.args):
                restrict = {p for p in fn.all_params if p in RESTRICT}
                ta = order_tags(f, c.args[0], restrict)
                tb = order_tags(f, c.args[1], restrict)
                # zip(names, row) for row in rows: the order that matters is that of the fields inside each row
                for k_, a_ in enumerate(c.args):
                    if isinstance(a_, ast.Name):
                        cb = comprehension_binding(f, a_.id, a_)
                        if cb and cb[0] == "comp" and isinstance(cb[1], ast.Name):
                            t_ = field_order_tags(f, cb[1], restrict)
                            if k_ == 0:
                                ta = t_
                            else:
                                tb = t_
                n_sites += 1
                ok = ("REQUEST" in ta) == ("REQUEST" in tb)
                ctx.ob("TNT-order", fn, norm(c), c, ok,
                       f"names {sorted(ta)} and values {sorted(tb)} carry the same order" if ok else
                       f"names carry order {sorted(ta)} but values carry order {sorted(tb)}: when the request lists the "
                       f"columns in another order than the file, values are stored under the wrong names",
                       chain=[f"names = {norm(c.args[0])}", f"values = {norm(c.args[1])}"],
                       clause="each value staying under its own name, for any requested order")
    fj = repo.fn(f"{LOD}.from_json")
    dels = []
    for n in body_nodes(fj.node):
        if isinstance(n, ast.Delete) and isinstance(n.targets[0], ast.Subscript):
            dels.append((n, n.targets[0].value, n.targets[0].slice))
        if isinstance(n, ast.Call) and isinstance(n.func, ast.Attribute) and n.func.attr == "pop" and n.args:
            dels.append((n, n.func.value, n.args[0]))
    for n, rec, key in dels:
        if not isinstance(key, ast.Name):
            continue
        loops = []
        p_ = fj.module.parent.get(n)
        while p_ is not None and p_ is not fj.node:
            if isinstance(p_, ast.For):
                loops.append(p_)
            p_ = fj.module.parent.get(p_)
        kl = [l for l in loops if norm(l.target) == key.id]
        if not kl:
            continue
        src = kl[0].iter
        names = {x.id for x in ast.walk(src) if isinstance(x, ast.Name)}
        exprs = [src]
        if isinstance(src, ast.Name):
            exprs = [d.value for d in defs_reaching(fj, src.id, n) if d.value is not None]
            names = set().union(*[{x.id for x in ast.walk(e) if isinstance(x, ast.Name)} for e in exprs]) if exprs else set()
        ok = norm(rec) in names
        ctx.ob("TNT-order", fj, f"keys removed from {norm(rec)}: {', '.join(norm(e) for e in exprs)[:80]}", n, ok,
               "the keys to drop are computed from the record they are dropped from" if ok else
               f"the set of keys to drop is not computed from the record itself ({', '.join(norm(e) for e in exprs)[:80]}): records "
               f"with other keys than the one it was computed from keep keys that were not requested",
               clause="reading with a key restriction equals reading everything and then selecting")
    for q in (f"{DF}.read_csv", f"{DF}.read_parquet"):
        fn = repo.fn(q)
        fa = [c for _, c in calls_in(fn) if isinstance(c.func, ast.Attribute) and c.func.attr == "from_arrow"]
        rets = [n for n in body_nodes(fn.node) if isinstance(n, ast.Return)]
        ok = bool(fa) and bool(rets) and all(r.value is fa[0] for r in rets) and kw(fa[0], "dtypes") is not None and norm(kw(fa[0], "dtypes")) == "dtypes"
        ctx.ob("FWD-live", fn, "return cls.from_arrow(table, dtypes=dtypes)", rets[0] if rets else fn.node, ok,
               "the dtype map is applied to the final table (all renaming happens before) and the result is returned as is" if ok else
               "the frame is modified after from_arrow(dtypes=...) has applied the dtype map (e.g. columns are renamed afterwards), so the "
               "map was looked up under other names and is silently ignored", clause="casting them")
    # ------------------------------------------------------------ CAST-conv
    # A reader that applies its dtype map to Python lists assembled from parsed text must use the converting
    # constructor: Vector.fast / DataFrameColumn.fast skip the None/NaN -> missing-value conversion.
    n_cast = 0
    for q in (f"{GEO}.read", f"{DF}.from_json", f"{DF}.read_json", f"{LOD}.read_json", f"{LOD}.from_json", f"{LOD}.read_csv"):
        fn = repo.functions.get(q)
        if fn is None:
            continue
        pylists = set()
        for n in body_nodes(fn.node):
            if isinstance(n, ast.Call) and isinstance(n.func, ast.Attribute):
                if n.func.attr == "setdefault" and len(n.args) == 2 and isinstance(n.args[1], ast.List) and isinstance(n.func.value, ast.Name):
                    pylists.add(n.func.value.id)
                if n.func.attr == "append" and isinstance(n.func.value, ast.Subscript) and isinstance(n.func.value.value, ast.Name):
                    pylists.add(n.func.value.value.id)
            if isinstance(n, ast.Assign) and isinstance(n.targets[0], ast.Subscript) and isinstance(n.targets[0].value, ast.Name) \
                    and isinstance(n.value, (ast.List, ast.ListComp)):
                pylists.add(n.targets[0].value.id)
            if isinstance(n, ast.Assign) and isinstance(n.targets[0], ast.Name) and isinstance(n.value, ast.DictComp) \
                    and isinstance(n.value.value, (ast.List, ast.ListComp)):
                pylists.add(n.targets[0].id)
        for f, c in calls_in(fn):
            if not (isinstance(c.func, (ast.Attribute, ast.Name)) and c.args):
                continue
            a0 = c.args[0]
            if not (isinstance(a0, ast.Subscript) and isinstance(a0.value, ast.Name) and a0.value.id in pylists):
                continue
            tail = c.func.attr if isinstance(c.func, ast.Attribute) else c.func.id
            d = repo.dotted(f, c.func) or ""
            if not (tail == "fast" or d.endswith(("DataFrameColumn", "Vector")) or tail in ("DataFrameColumn", "Vector")):
                continue
            n_cast += 1
            ok = tail != "fast"
            if not ok:
                # .fast() on a list that a dominating test has shown to hold only plain scalars of one exact type (no None,
                # no NaN object): there is nothing for the converting constructor to map
                a0t = norm(a0)
                import re as _re14
                pure = [t for k, t in facts_at(f, c) if k == "T" and _re14.search(
                    r"all\(\(?type\((\w+)\) is (int|str|bool|float) for \1 in " + _re14.escape(a0t) + r"\)?\)", t)]
                if pure and not (len(c.args) > 1 or c.keywords):
                    ok = True
            ctx.ob("CAST-conv", f, norm(c), c, ok,
                   "parsed values are converted by the constructor that maps None/NaN to the dtype's missing value" if ok else
                   f"{norm(c)} builds the column from a Python list of parsed values with the non-converting constructor: a null or "
                   f"absent value stays the object None, so a str cast stores the text 'None' and an int cast raises -- reading "
                   f"everything and then casting gives a missing value instead", clause="reading with a dtype mapping equals reading everything and casting")
    ctx.count("dtype-cast sites over parsed Python lists", n_cast, 1)
    # ------------------------------------------------------------ RESTR-pol
    # Where a reader tests membership in its restriction parameter, elements IN it are the ones kept:
    # a filter that builds what is kept uses `in`, a list of things to delete uses `not in`.
    n_pol = 0
    for q in READERS:
        fn = repo.functions.get(q)
        if fn is None:
            continue
        rparams = [p_ for p_ in RESTRICT if p_ in fn.kwonly + fn.params]
        for P in rparams:
            for comp in [n for n in body_nodes(fn.node) if isinstance(n, (ast.ListComp, ast.SetComp, ast.DictComp, ast.GeneratorExp))]:
                for cond in [c for g in comp.generators for c in g.ifs]:
                    if not (isinstance(cond, ast.Compare) and len(cond.ops) == 1 and isinstance(cond.ops[0], (ast.In, ast.NotIn))
                            and isinstance(cond.comparators[0], ast.Name) and cond.comparators[0].id == P):
                        if any(isinstance(n, ast.Name) and n.id == P for n in ast.walk(cond)):
                            n_pol += 1
                            ctx.ob("RESTR-pol", fn, norm(cond), cond, False,
                                   f"the filter on {P} is not a plain membership test: cannot tell which elements are kept", clause="selecting those columns")
                        continue
                    n_pol += 1
                    par = fn.module.parent.get(comp)
                    tgt = par.targets[0].id if isinstance(par, ast.Assign) and isinstance(par.targets[0], ast.Name) else None
                    # role: is the comprehension's result a list of things to delete?
                    drop_role = False
                    if tgt:
                        for loop in [n for n in body_nodes(fn.node) if isinstance(n, ast.For)]:
                            if any(isinstance(m, ast.Name) and m.id == tgt for m in ast.walk(loop.iter)):
                                if any(isinstance(m, ast.Delete) or (isinstance(m, ast.Call) and isinstance(m.func, ast.Attribute) and m.func.attr == "pop")
                                       for b in loop.body for m in ast.walk(b)):
                                    drop_role = True
                    positive = isinstance(cond.ops[0], ast.In)
                    ok = positive != drop_role
                    ctx.ob("RESTR-pol", fn, f"{norm(comp)[:90]} ({'things to delete' if drop_role else 'things kept'})", cond, ok,
                           f"elements in {P} are kept" if ok else
                           f"the membership test on {P} has the wrong polarity: the {'deleted' if drop_role else 'kept'} elements are those "
                           f"{'in' if drop_role else 'not in'} {P}, so the restriction returns the complement of what was requested",
                           clause="reading with a column/key restriction equals reading everything and then selecting those")
    ctx.count("membership filters on restriction parameters", n_pol, 1)
    # ------------------------------------------------------------- TYPE-flow
    # `for name, dtype in dtypes.items():` -- both loop variables must reach a conversion in the loop body
    n_tf = 0
    for q in READERS:
        fn = repo.functions.get(q)
        if fn is None:
            continue
        for P in [p_ for p_ in TYPING if p_ in fn.kwonly + fn.params]:
            for loop in [n for n in body_nodes(fn.node) if isinstance(n, ast.For) and pmatch_items(loop_iter=n.iter, P=P)]:
                names = [e.id for e in (loop.target.elts if isinstance(loop.target, ast.Tuple) else [loop.target]) if isinstance(e, ast.Name)]
                n_tf += 1
                used = {}
                for nm in names:
                    used[nm] = any(isinstance(m, ast.Call) and any(isinstance(x, ast.Name) and x.id == nm for a in list(m.args) + [k.value for k in m.keywords] + [m.func] for x in ast.walk(a))
                                   for b in loop.body for m in ast.walk(b)) or \
                        any(isinstance(m, ast.Subscript) and any(isinstance(x, ast.Name) and x.id == nm for x in ast.walk(m.slice))
                            for b in loop.body for m in ast.walk(b))
                stores = any(isinstance(m, (ast.Assign, ast.AugAssign)) or (isinstance(m, ast.Expr) and isinstance(m.value, (ast.Yield, ast.Call)))
                             for b in loop.body for m in ast.walk(b))
                ok = len(names) == 2 and all(used.values()) and stores
                ctx.ob("TYPE-flow", fn, f"for {norm(loop.target)} in {norm(loop.iter)}: both reach a conversion", loop, ok,
                       "every (name, type) pair of the map is applied" if ok else
                       f"the loop over {P} does not apply its pairs ({ {k: v for k, v in used.items()} }, stores={stores}): the type map is "
                       f"accepted and silently ignored", clause="casting them")
    ctx.count("loops over a type map", n_tf, 2)
    # RESTR-given: "was a restriction requested?" (`if columns:`) is asked of the argument as given.  Once the list has been
    # altered -- names removed, filtered -- an emptied request would read as "no restriction" and everything is returned.
    ctx.rule("RESTR-given", "the truthiness test of a restriction parameter sees the caller's value (or an emptiness-preserving copy of it)")
    n_given = 0
    for q in READERS:
        fn = repo.functions.get(q)
        if fn is None:
            continue
        for P in [p_ for p_ in RESTRICT if p_ in fn.kwonly + fn.params]:
            for t in [n.test for n in body_nodes(fn.node) if isinstance(n, (ast.If, ast.IfExp))]:
                core = t.operand if isinstance(t, ast.UnaryOp) and isinstance(t.op, ast.Not) else t
                if not (isinstance(core, ast.Name) and core.id == P):
                    continue
                n_given += 1
                bad = []
                for d in defs_reaching(fn, P, core):
                    if d.kind == "param":
                        continue
                    v = d.value
                    tv = norm(v) if v is not None else d.kind
                    keeps = v is not None and (tv in (f"{P} or None", f"{P} or []", f"{P} or ()", f"list({P})", f"tuple({P})", f"list({P} or [])",
                                                      f"{P} or {{}}", f"util.sequencify({P})")
                                               or (isinstance(v, (ast.ListComp,)) and not any(g.ifs for g in v.generators)
                                                   and norm(v.generators[0].iter) == P))
                    if not keeps:
                        bad.append(tv)
                ctx.ob("RESTR-given", fn, f"`{norm(t)}` tests the {P} argument as given", t, not bad,
                       f"{P} is tested as the caller passed it" if not bad else
                       f"{P} has been rebound ({bad[0][:60]}) before `{norm(t)}` asks whether a restriction was requested: a request that the "
                       f"rebinding empties (e.g. only the implicit column) then means `no restriction`, and every column is read",
                       clause="reading with a column/key restriction equals reading everything and then selecting those")
    ctx.note(f"RESTR-given: {n_given} truthiness test(s) of restriction parameters examined")
    # RESTR-raise: a reader may reject a requested name only against the COMPLETE set of columns of what it returns.  A
    # validation `x not in D` placed before D receives further (constant-named) columns rejects a column that reading
    # everything and selecting it returns.
    ctx.rule("RESTR-raise", "a raise that depends on the restriction parameter validates against a container that already has every column of the result")
    n_rr = 0
    for q in READERS:
        fn = repo.functions.get(q)
        if fn is None:
            continue
        for P in [p_ for p_ in RESTRICT if p_ in fn.kwonly + fn.params]:
            for r in [n for n in body_nodes(fn.node) if isinstance(n, ast.Raise)]:
                tests, cur = [], r
                while cur is not None and cur is not fn.node:
                    par = fn.module.parent.get(cur)
                    if isinstance(par, ast.If) and cur is not par.test:
                        tests.append(par.test)
                    cur = par
                dep = [t for t in tests if depends_on(fn, t, r, P)]
                if not dep:
                    continue
                n_rr += 1
                # containers the validation tests membership in: in the tests and in what the tested names were computed from
                conts, texts = set(), []
                work = list(dep)
                seen_v = set()
                while work:
                    t = work.pop()
                    texts.append(norm(t))
                    for n in ast.walk(t):
                        if isinstance(n, ast.Compare) and len(n.ops) == 1 and isinstance(n.ops[0], (ast.In, ast.NotIn)) \
                                and isinstance(n.comparators[0], ast.Name) and n.comparators[0].id != P:
                            conts.add(n.comparators[0].id)
                        if isinstance(n, ast.Name) and isinstance(n.ctx, ast.Load) and n.id not in seen_v and n.id != P:
                            seen_v.add(n.id)
                            for d in defs_reaching(fn, n.id, r):
                                if d.value is not None and d.kind != "param":
                                    work.append(d.value)
                late = []
                for D in sorted(conts):
                    for n in body_nodes(fn.node):
                        if getattr(n, "lineno", 0) <= r.lineno:
                            continue
                        key = None
                        if isinstance(n, ast.Assign) and isinstance(n.targets[0], ast.Subscript) and norm(n.targets[0].value) == D \
                                and isinstance(n.targets[0].slice, ast.Constant) and isinstance(n.targets[0].slice.value, str):
                            key = n.targets[0].slice.value
                        if isinstance(n, ast.Call) and isinstance(n.func, ast.Attribute) and n.func.attr == "setdefault" and norm(n.func.value) == D \
                                and n.args and isinstance(n.args[0], ast.Constant) and isinstance(n.args[0].value, str):
                            key = n.args[0].value
                        if key is not None and not any(repr(key) in t_ or f'"{key}"' in t_ for t_ in texts):
                            late.append((D, key, n.lineno))
                ctx.ob("RESTR-raise", fn, f"raise under `{norm(dep[0])[:70]}`", r, not late,
                       f"the request is validated against {sorted(conts) or 'no container'}, complete at that point" if not late else
                       f"requested names are validated against `{late[0][0]}` before the column {late[0][1]!r} is added to it (line {late[0][2]}): "
                       f"requesting {late[0][1]!r} -- a column of the unrestricted result -- raises, while reading everything and selecting it works",
                       clause="reading with a column/key restriction equals reading everything and then selecting those")
    ctx.note(f"RESTR-raise: {n_rr} raise statement(s) depending on a restriction parameter examined")
    # RESTR-names: the names a restriction is matched against are the names the unrestricted read RETURNS.  A reader that
    # hands the restriction to a foreign parser and renames the parsed columns afterwards (header=False: pyarrow's f0, f1, ...
    # become a, b, ...) has matched the request against names the caller never sees: the names of the full read are rejected,
    # and the parser's own names select columns that then appear under other names.
    ctx.rule("RESTR-names", "where the parsed columns are renamed, the restriction is applied to the renamed table, not handed to the parser")
    n_rn = 0
    for q in READERS:
        fn = repo.functions.get(q)
        if fn is None:
            continue
        for P in [p_ for p_ in RESTRICT if p_ in fn.kwonly + fn.params]:
            renames = [c for _, c in calls_in(fn, False) if isinstance(c.func, ast.Attribute) and c.func.attr in ("rename_columns", "rename")]
            if not renames:
                continue
            parser_args = []
            for f_, c in calls_in(fn, False):
                d = repo.dotted(f_, c.func) or ""
                if not d.startswith(("pyarrow.", "csv.", "pandas.")):
                    continue
                for a_ in list(c.args) + [k.value for k in c.keywords]:
                    if any(isinstance(y, ast.Name) and y.id == P for y in ast.walk(a_)):
                        parser_args.append((c, a_))
            for rn in renames:
                n_rn += 1
                cond_vars = sorted({y.id for k, t in facts_at(fn, rn) if not t.startswith("iter:")
                                    for y in ast.walk(ast.parse(t, mode="eval")) if isinstance(y, ast.Name) and y.id in fn.kwonly + fn.params})
                # the parser-side restriction is switched off whenever the rename happens: its argument depends on the same flag
                still = [(c, a_) for c, a_ in parser_args if not any(isinstance(y, ast.Name) and y.id in cond_vars for y in ast.walk(a_))]
                after = [c for _, c in calls_in(fn, False) if c.lineno > rn.lineno and isinstance(c.func, ast.Attribute) and c.func.attr in ("select", "select_columns")
                         and any(isinstance(y, ast.Name) and y.id == P for a_ in c.args for y in ast.walk(a_))]
                ok = not still and (bool(after) or not parser_args)
                ctx.ob("RESTR-names", fn, f"{norm(rn)[:50]} under {cond_vars}", rn, ok,
                       f"when the columns are renamed the parser sees no restriction and {P} is applied to the renamed table" if ok else
                       f"{P} is handed to the parser ({norm(still[0][1])[:40] if still else '?'}) and the parsed columns are renamed afterwards "
                       f"({norm(rn)[:40]}, under {cond_vars}): the request is matched against the parser's own names -- with header=False, "
                       f"columns=['c', 'a'] (names of the full read) raises, and columns=['f2', 'f0'] returns those fields under the names a, b",
                       clause="reading with a column/key restriction equals reading everything and then selecting those columns")
    ctx.note(f"RESTR-names: {n_rn} rename(s) of parsed columns in readers with a restriction examined")
    # positions of requested names: <names>.index(x) finds the FIRST field of that name, while the unrestricted read
    # (dict(zip(names, row))) keeps the LAST -- with a duplicated header name the restricted read returns another field
    for q in READERS:
        fn = repo.functions.get(q)
        if fn is None:
            continue
        for f_, c in calls_in(fn, False):
            if isinstance(c.func, ast.Attribute) and c.func.attr == "index" and len(c.args) == 1 and isinstance(c.func.value, ast.Name) \
                    and any(isinstance(g, ast.comprehension) and any(p_ in norm(g.iter) for p_ in RESTRICT if p_ in fn.kwonly + fn.params)
                            for g in [x for n in body_nodes(fn.node) if isinstance(n, (ast.ListComp, ast.SetComp, ast.GeneratorExp, ast.DictComp))
                                      for x in n.generators if any(y is c for y in ast.walk(n))]):
                ctx.ob("TNT-order", fn, norm(c), c, False,
                       f"{norm(c)} gives the position of the FIRST field named so; reading everything keeps the LAST field of a duplicated name "
                       f"(dict(zip(names, row))): for a file whose header repeats a name the restricted read returns the other field's value",
                       clause="each value staying under its own name")

    # TYPE-late: the type map is applied to what was read; it is never handed to the foreign parser, whose own typed
    # parsing differs from parse-then-cast ("007" read as a string column stays "007", read-then-cast gives "7")
    ctx.rule("TYPE-late", "no argument of a foreign parsing call depends on the dtype/type map parameter")
    n_parse = 0
    for q in READERS:
        fn = repo.functions.get(q)
        if fn is None:
            continue
        for P in [p_ for p_ in TYPING if p_ in fn.kwonly + fn.params]:
            for f_, c in calls_in(fn, False):
                d = repo.dotted(f_, c.func) or ""
                if not d.startswith(("pyarrow.", "csv.", "json.", "pandas.", "numpy.load")):
                    continue
                n_parse += 1
                dep = [norm(a)[:50] for a in list(c.args) + [k.value for k in c.keywords] if depends_on(fn, a, c, P)]
                ctx.ob("TYPE-late", fn, f"{norm(c.func)}(...) independent of {P}", c, not dep,
                       f"the parser does not see {P}" if not dep else
                       f"argument(s) {dep} of {d} are computed from {P}: the foreign parser types those columns while reading, which is "
                       f"not the same as reading everything and casting afterwards (leading zeros, '1.50', booleans and missing-value "
                       f"markers survive as raw text)", clause="a dtype/type mapping gives the same result as reading everything and then casting")
    ctx.count("foreign parsing calls in readers with a type map", n_parse, 1)
    ctx.count("restriction/typing parameters of readers", n_live, 14)
    # ARG-keys: a type map / restriction is matched against the file's column names AS THEY ARE IN THE FILE.  Rebuilding the
    # parameter through a comprehension over it (`{str(k).strip(): v for k, v in dtypes.items()}`, `[c.lower() for c in columns]`)
    # changes the names that are looked up, so a file column whose name has that shape (padded, upper case) no longer gets its
    # type / is no longer found, while the unrestricted read still returns it.  Defaulting (`dtypes or {}`) and copying are not touched.
    ctx.rule("ARG-keys", "a type map or column restriction is looked up by the caller's names, not by normalised ones")
    for q_, fn in sorted(repo.functions.items()):
        if fn.module.name not in ("dataiter.data_frame", "dataiter.list_of_dicts", "dataiter.io", "dataiter.geojson", "dataiter.util"):
            continue
        for P in [p_ for p_ in ("dtypes", "columns", "keys", "types") if p_ in fn.kwonly + fn.params]:
            for a in [n for n in body_nodes(fn.node) if isinstance(n, ast.Assign) and any(isinstance(t, ast.Name) and t.id == P for t in n.targets)]:
                comps = [c for c in ast.walk(a.value) if isinstance(c, (ast.DictComp, ast.ListComp, ast.SetComp, ast.GeneratorExp))
                         and any(any(isinstance(y, ast.Name) and y.id == P for y in ast.walk(g.iter)) for g in c.generators)]
                changed = []
                for c in comps:
                    key = c.key if isinstance(c, ast.DictComp) else c.elt
                    tgt = c.generators[0].target
                    first = tgt.elts[0] if isinstance(tgt, ast.Tuple) and isinstance(c, ast.DictComp) else tgt
                    if norm(key) != norm(first):
                        changed.append((c, key))
                if comps:
                    ctx.ob("ARG-keys", fn, norm(a)[:70], a, not changed,
                           f"{P} is rebuilt with its names unchanged" if not changed else
                           f"`{norm(changed[0][1])[:40]}` replaces the names of {P} before they are matched against the file's columns: a column "
                           f"whose name differs from its normalised form loses its type / is not found, unlike in the full read",
                           clause="restricting or typing a read never changes what is read")
    ctx.count("positional labelling sites", n_sites, 2)


def pmatch_items(loop_iter, P):
    return isinstance(loop_iter, ast.Call) and isinstance(loop_iter.func, ast.Attribute) and loop_iter.func.attr == "items" \
        and isinstance(loop_iter.func.value, ast.Name) and loop_iter.func.value.id == P


def _effective_uses(fn, p):
    """Loads of parameter ``p`` -- or of a rebinding of the same name computed from it (columns = columns or None) --
    that do something with the value: a call argument, a test, an iteration, a subscript.  A load whose only
    role is to compute the next binding of the same name is not a use."""
    from ..dataflow import defs_reaching
    derived = set()          # ids of CFG nodes defining p from p
    changed = True
    loads = [u for u in name_uses(fn, p) if isinstance(u.ctx, ast.Load)]

    def from_param(u):
        return any(d.kind == "param" or (d.node is not None and id(d.node) in derived) for d in defs_reaching(fn, p, u))
    while changed:
        changed = False
        for u in loads:
            if not from_param(u):
                continue
            st = u
            while st is not None and not isinstance(st, ast.stmt):
                st = fn.module.parent.get(st)
            if isinstance(st, ast.Assign) and len(st.targets) == 1 and isinstance(st.targets[0], ast.Name) and st.targets[0].id == p:
                from ..facts import cfg_node_of
                nd = cfg_node_of(fn, st)
                if nd is not None and id(nd) not in derived:
                    derived.add(id(nd))
                    changed = True
    out = []
    for u in loads:
        if not from_param(u):
            continue
        st = u
        while st is not None and not isinstance(st, ast.stmt):
            st = fn.module.parent.get(st)
        if isinstance(st, ast.Assign) and len(st.targets) == 1 and isinstance(st.targets[0], ast.Name) and st.targets[0].id == p:
            continue
        out.append(u)
    return out
