"""C17 -- ListOfDicts shared-dict discipline: isolation and obsolescence.

An effect system over the E3 interpreter (domain: item dicts of SELF / OTHER /
fresh) plus typestate rules on the three flags, checked for every method of the
class: the induction step for "for all derivation trees".
"""
import ast
from ..common import interp, ours, LOD, norm, calls_in
from ..absint import all_alias
from ..cfg import cfg_of
from ..facts import facts_at, cfg_node_of
from ..model import AnalysisError, FunctionInfo, body_nodes
from .. import tables

EXPLANATION = (
    "Effect/typestate analysis of every ListOfDicts method (abstract interpretation with item-dict origins "
    "SELF / OTHER / fresh and computed callee summaries, plus CFG dominator / post-dominator rules on the "
    "_obsolete, _obsolete_warned and _predecessor flags). Decides: (EFF-1) a method writes item dicts of the "
    "receiver only if it is decorated deco.obsoletes, never writes items of another list, the decorated set equals "
    "the statement's list of editors and the statement's non-modifying methods have an empty write set; (EFF-2) "
    "the flag typestate: only _mark_obsolete sets _obsolete, it does so on every path and recurses into the "
    "predecessor; the obsoletes wrapper marks the receiver on every normal path; the warning is printed only under "
    "_obsolete and not _obsolete_warned and every printing path sets the warned flag; (EFF-3) every list handing on "
    "shared item dicts is built by self._new, the only place that records the predecessor; deepcopy yields fresh "
    "items and no predecessor. Not decided: that the warning appears on the caller's *next* use (which attribute is "
    "touched is runtime), behaviour of user callbacks."
)
ASSUMPTIONS = [
    "AttributeDict(x) creates a new dict (shallow copy) -- read from attd's source; copy.deepcopy copies recursively",
    "user callbacks (predicates, modify functions) do not themselves write item dicts",
    "list/dict builtin methods behave as in the operation table",
]

WRITE_KINDS = ("item-write", "del-item")
STRUCT_EXEMPT = {"__setitem__", "__init__", "__delitem__", "__iadd__", "__imul__"}


def check(ctx):
    repo = ctx.repo
    from . import generic as _gen
    _gen.language_traps(ctx, _gen.anchor_functions(repo, "C17"), "the property holds for every input, on every call")
    I = interp(repo)
    cls = repo.cls(LOD)
    ctx.rule("EFF-1", "write effect on item dicts of the receiver only in deco.obsoletes methods; never on items of "
                      "another list; decorated set == statement's editors; statement's non-modifying methods write nothing")
    ctx.rule("EFF-2", "flag typestate (_obsolete set only by _mark_obsolete on every path + recursion; wrapper marks "
                      "receiver; warn-once)")
    ctx.rule("EFF-state", "ListOfDicts methods assign only the bookkeeping attributes (no item-derived caches)")
    ctx.rule("EFF-3", "lists sharing item dicts are built by self._new (sole writer of _predecessor); deepcopy cuts")
    ctx.trust("operation table sa/tables.py; attd.AttributeDict copies (source read)")
    methods = [m for m in cls.methods.values()]
    ctx.count("ListOfDicts methods", len(methods), 50)
    decorated = sorted(m.name for m in methods if m.has_decorator("obsoletes"))
    gens = [m for m in methods if m.has_decorator("new_from_generator")]
    ctx.count("new_from_generator methods", len(gens), 18)
    n_yields = 0

    # ---------------------------------------------------------------- EFF-1
    want = sorted(tables.C17_EDITORS)
    missing_ed = sorted(set(want) - set(decorated))
    extra_ed = sorted(set(decorated) - set(want))
    # every editor the statement names must mark; a FURTHER method that marks (a new in-place editor following the same
    # convention) keeps the discipline -- whether a method that writes items is decorated is decided per method below
    ctx.ob("EFF-1", cls.qualname, "set of @deco.obsoletes methods", f"{cls.module.path}:{cls.node.lineno}",
           not missing_ed,
           f"every editor named by the property statement is decorated ({decorated})"
           + (f"; further decorated methods {extra_ed}" if extra_ed else "") if not missing_ed else
           f"editors named by the statement but not decorated with @deco.obsoletes: {missing_ed}",
           nontrivial=False, clause="editors mark receiver and ancestors obsolete")
    if extra_ed:
        ctx.note(f"EFF-1: methods decorated @deco.obsoletes beyond the statement's list: {extra_ed}")
    for m in methods:
        summ = I.summary(m)
        n_yields += len(summ.yields) if m in gens else 0
        is_editor = m.has_decorator("obsoletes")
        writes_self, writes_other = [], []
        for ev in summ.events:
            a = ours(ev.target.alias)
            if ev.kind in WRITE_KINDS and ev.target.kind in ("dict", "unknown"):
                if "SELF" in a and not ev.covered:
                    writes_self.append(ev)
                if any(o.startswith("ARG:") for o in a):
                    # writing a dict that belongs to (or was handed in by) the caller
                    if ev.target.kind == "dict" or "elemof" in ev.target.flags:
                        writes_other.append(ev)
            if ev.kind == "list-write" and ev.target.kind == "lod" and a and m.name not in STRUCT_EXEMPT:
                ctx.ob("EFF-1", ev.fn, ev.detail, ev.node, False,
                       f"in-place change of the list object {sorted(a)} in a method not documented as in-place",
                       clause="non-modifying methods")
        for ev in writes_other:
            who = sorted(ours(ev.target.alias))
            ctx.ob("EFF-1", ev.fn if not ev.chain else repo.functions.get(ev.chain[-1][0], ev.fn),
                   ev.chain[-1][2] if ev.chain else ev.detail, ev.node, False,
                   f"{m.name}: item dict belonging to {who} is written; arguments (a join's right-hand list, "
                   f"inserted/appended dicts) must never be modified",
                   chain=[f"entry {m.qualname}"] + [f"{c[0]}:{c[1]} {c[2]}" for c in ev.chain],
                   clause="any join's right-hand argument is never changed")
        if writes_self:
            ev = writes_self[0]
            ctx.ob("EFF-1", m, f"item writes of {m.name}", m.node, is_editor,
                   f"{len(writes_self)} write site(s) on the receiver's item dicts; method is decorated deco.obsoletes"
                   if is_editor else
                   f"writes the receiver's shared item dicts ({ev.detail} at line {getattr(ev.node, 'lineno', 0)}) "
                   f"but is not decorated deco.obsoletes: predecessors are never told",
                   chain=[f"{e.fn.qualname}:{getattr(e.node, 'lineno', 0)} {e.detail} on {e.target!r}" for e in writes_self[:4]],
                   clause="editors mark receiver and ancestors obsolete")
        else:
            if m.name in tables.C17_NONMODIFYING or not m.name.startswith("_"):
                ctx.ob("EFF-1", m, f"item writes of {m.name}", m.node, True,
                       "empty write set on receiver's and arguments' item dicts"
                       + (" (statement: non-modifying)" if m.name in tables.C17_NONMODIFYING else ""),
                       clause="non-modifying methods never change any item")
    for name in tables.C17_NONMODIFYING:
        if name not in cls.methods:
            raise AnalysisError(f"anchor vanished: ListOfDicts.{name} (listed as non-modifying by the statement)")
    ctx.count("yield sites", n_yields, 20)

    # an editing generator method is marked AFTER its generator has run: obsoletes must wrap new_from_generator (be listed
    # first); the other way round the wrapper marks the receiver when the generator object is merely created, and the
    # body's own attribute lookups on self then print the warning during the editing call itself
    n_both = 0
    for m in cls.methods.values():
        names = [d for d in m.decorators if d]
        if "dataiter.deco.obsoletes" in names and "dataiter.deco.new_from_generator" in names:
            n_both += 1
            ok = names.index("dataiter.deco.obsoletes") < names.index("dataiter.deco.new_from_generator")
            ctx.ob("EFF-2", m, f"decorator order of {m.name}: {[n.split('.')[-1] for n in names]}", m.node, ok,
                   "the receiver is marked obsolete after the edited list has been built" if ok else
                   f"{m.name} lists new_from_generator above obsoletes: the receiver is marked obsolete before the generator body runs, so "
                   f"the body's own use of self prints the one-time warning inside the editing call and the caller's next use is silent",
                   clause="print the warning exactly once on their next use")
    ctx.count("methods that both edit and build a new list", n_both, 3)
    # ------------------------------------------------------------ EFF-state
    # A ListOfDicts keeps no item-derived state: its items are plain mutable dicts shared with other lists, so no cache
    # stored on the list could ever be invalidated when an item is edited.  The only attributes its methods assign are
    # the obsolescence flags, the predecessor link and the grouping keys.
    ALLOWED_ATTRS = {"_obsolete", "_obsolete_warned", "_predecessor", "_group_keys"}
    from ..dataflow import defs_reaching as _dr0
    n_attr = 0
    for m in cls.methods.values():
        S0 = m.params[0] if m.params else None
        for n in body_nodes(m.node):
            tgt = None
            if isinstance(n, ast.Attribute) and isinstance(n.ctx, ast.Store) and isinstance(n.value, ast.Name):
                tgt = (n.value.id, n.attr)
            elif isinstance(n, ast.Call) and isinstance(n.func, ast.Name) and n.func.id == "setattr" and len(n.args) >= 2 \
                    and isinstance(n.args[0], ast.Name) and isinstance(n.args[1], ast.Constant):
                tgt = (n.args[0].id, str(n.args[1].value))
            if tgt is None:
                continue
            # only attributes of a ListOfDicts: the receiver, or a local built through its own class / _new
            if tgt[0] != S0 and tgt[0] in m.all_params and all(d.kind == "param" for d in _dr0(m, tgt[0], n)):
                # an attribute stored on an ARGUMENT (the other list of a join, ...): the same stale-cache problem, on an
                # object that belongs to the caller
                pass
            elif tgt[0] != S0:
                from ..dataflow import defs_reaching as _dr
                ds = _dr(m, tgt[0], n)
                if not (ds and all(d.value is not None and isinstance(d.value, ast.Call) and isinstance(d.value.func, ast.Attribute)
                                   and isinstance(d.value.func.value, ast.Name) and d.value.func.value.id == S0
                                   and d.value.func.attr in ("__class__", "_new", "copy", "deepcopy") for d in ds)):
                    continue
            n_attr += 1
            ok = tgt[1] in ALLOWED_ATTRS
            ctx.ob("EFF-state", m, f"{tgt[0]}.{tgt[1]} assigned in {m.name}", n, ok,
                   "one of the list's own bookkeeping attributes" if ok else
                   f"{m.qualname} stores {tgt[1]!r} on the list: state derived from the items cannot be kept valid -- items are shared "
                   f"mutable dicts and list mutators (append, item assignment, in-place edits of an item) do not pass through any hook -- so "
                   f"later calls (keys(), write_csv, ...) work from stale data", clause="methods never change ... / same item sequence as the list")
    ctx.count("attribute stores in ListOfDicts methods", n_attr, 5)
    # ---------------------------------------------------------------- EFF-2
    flag_writes = {"._obsolete": [], "._obsolete_warned": [], "._predecessor": []}
    for f in repo.functions.values():
        for n in ast.walk(f.node) if f.parent is None else []:
            if isinstance(n, ast.Attribute) and isinstance(n.ctx, ast.Store) and "." + n.attr in flag_writes:
                owner = repo.enclosing_function(f.module, n) or f
                flag_writes["." + n.attr].append((owner, n))
            if isinstance(n, ast.Call) and isinstance(n.func, ast.Name) and n.func.id == "setattr" and len(n.args) >= 2 \
                    and isinstance(n.args[1], ast.Constant) and "." + str(n.args[1].value) in flag_writes:
                owner = repo.enclosing_function(f.module, n) or f
                flag_writes["." + n.args[1].value].append((owner, n))
    allowed = {"._obsolete": {"__init__": False, "_mark_obsolete": True},
               "._obsolete_warned": {"__init__": False, "__getattribute__": True},
               "._predecessor": {"__init__": None, "_new": "self"}}
    for attr, sites in flag_writes.items():
        ctx.count(f"assignment sites of {attr}", len(sites), 1)
        for owner, n in sites:
            stmt = owner.module.parent.get(n)
            val = stmt.value if isinstance(stmt, ast.Assign) else None
            ok = owner.cls is cls and owner.name in allowed[attr]
            why = f"{attr} assigned in {owner.qualname}"
            if ok:
                expect = allowed[attr][owner.name]
                if expect == "self":
                    ok = isinstance(val, ast.Name) and val.id == owner.params[0]
                    why += f" with value {norm(val) if val is not None else '?'} (must be the receiver)"
                else:
                    ok = isinstance(val, ast.Constant) and val.value is expect
                    why += f" with constant {norm(val) if val is not None else '?'} (expected {expect!r})"
            else:
                why += f": only {sorted(allowed[attr])} may assign it"
            ctx.ob("EFF-2" if attr != "._predecessor" else "EFF-3", owner, norm(stmt) if stmt is not None else attr, n, ok, why,
                   clause="flag typestate")
    mark = repo.fn(f"{LOD}._mark_obsolete")
    cfg = cfg_of(mark)

    def _is_self_alias(name_node, at):
        """a local that holds the receiver at ``at``: its only reaching definition is `<name> = self`"""
        ds = _dr0(mark, name_node.id, at)
        return len(ds) == 1 and ds[0].value is not None and norm(ds[0].value) == mark.params[0]

    def is_set_true(n):
        a = n.ast
        return (n.kind == "stmt" and isinstance(a, ast.Assign) and len(a.targets) == 1
                and isinstance(a.targets[0], ast.Attribute) and a.targets[0].attr == "_obsolete"
                and isinstance(a.targets[0].value, ast.Name)
                and (a.targets[0].value.id == mark.params[0] or _is_self_alias(a.targets[0].value, a))
                and isinstance(a.value, ast.Constant) and a.value.value is True)
    p = cfg.path_avoiding(is_set_true)
    ctx.ob("EFF-2", mark, "self._obsolete = True on every path", mark.node, p is None,
           "every path to the normal exit passes the assignment" if p is None else
           "path to exit avoiding the assignment: " + " -> ".join(repr(x) for x in p),
           clause="receiver reports itself obsolete")
    rec = [c for _, c in calls_in(mark) if isinstance(c.func, ast.Attribute) and c.func.attr == "_mark_obsolete"]
    ok = False
    why = "no recursive call self._predecessor._mark_obsolete()"
    from ..forms import expand as _expand17
    loops_m = [n for n in body_nodes(mark.node) if isinstance(n, ast.While)]
    if not rec and loops_m:
        # iterative walk: cur = self; cur._obsolete = True; while isinstance(cur._predecessor, ListOfDicts): cur = cur._predecessor;
        # cur._obsolete = True -- the same marking without recursion.  Recognised in exactly this shape (link tested with
        # isinstance / `is not None`, never by truthiness; advance, then mark); any other loop is not judged.
        lw = loops_m[0]
        tests_ok = [c for c in ast.walk(lw.test) if (isinstance(c, ast.Call) and norm(c.func) == "isinstance" and len(c.args) == 2
                                                      and norm(c.args[0]).endswith("._predecessor"))
                    or (isinstance(c, ast.Compare) and norm(c.left).endswith("._predecessor") and isinstance(c.ops[0], ast.IsNot))]
        cur = norm(tests_ok[0].args[0] if isinstance(tests_ok[0], ast.Call) else tests_ok[0].left)[:-len("._predecessor")] if tests_ok else None
        body_txt = [norm(b_) for b_ in lw.body]
        shape = cur is not None and cur.isidentifier() and len(lw.body) == 2 and body_txt == [f"{cur} = {cur}._predecessor", f"{cur}._obsolete = True"] \
            and not lw.orelse and (norm(lw.test) == norm(tests_ok[0]))
        if not shape:
            raise AnalysisError(f"{mark.qualname}: the predecessor chain is walked by a loop this rule does not read ({norm(lw.test)[:60]})")
        ok = True
        why = f"the chain is walked iteratively: every predecessor reached through {cur}._predecessor is marked, the link tested with {norm(lw.test)[:50]}"
    for c in rec:
        recv0 = c.func.value
        recv = _expand17(mark, recv0, c)
        if isinstance(recv, ast.Attribute) and recv.attr == "_predecessor" and isinstance(recv.value, ast.Name) \
                and recv.value.id == mark.params[0]:
            facts = set(facts_at(mark, c))
            if isinstance(recv0, ast.Name):
                # facts about the temporary are facts about the link
                import re as _re17
                facts = {(k, _re17.sub(rf"\b{recv0.id}\b", norm(recv), t)) for k, t in facts}
            guards = [t for k, t in facts if k == "T" and "_predecessor" in t] + \
                     [t for k, t in facts if k == "F" and "_predecessor" in t and "None" in t]
            # the guard may only exclude a missing predecessor
            bad = [t for k, t in facts if "_predecessor" not in t and not t.startswith("iter:")]
            link = norm(recv)
            truthy = [t for k, t in facts if "_predecessor" in t and
                      t.replace("(", "").replace(")", "").strip() in (link, f"bool{link}", f"len{link}", f"len{link} > 0", f"len{link} != 0")]
            ok = not bad and not truthy
            why = (f"recursion into the predecessor guarded only by {guards or 'nothing'}" if ok else
                   f"recursion into the predecessor is conditional on {bad}: some ancestors are never marked" if bad else
                   f"the predecessor link is tested by truthiness ({truthy[0]}): a ListOfDicts is a list, so an EMPTY predecessor "
                   f"(clear(), head(0), a filter matching nothing) is falsy and the marking stops there -- its ancestors share the "
                   f"edited items but never report themselves obsolete")
    ctx.ob("EFF-2", mark, "self._predecessor._mark_obsolete()", rec[0] if rec else mark.node, ok, why,
           clause="every list from which it was obtained reports itself obsolete")

    wrap = repo.fn("dataiter.deco.obsoletes.wrapper")
    wcfg = cfg_of(wrap)
    selfp = wrap.params[0] if wrap.params else None
    inner = [c for _, c in calls_in(wrap) if isinstance(c.func, ast.Name) and c.func.id in repo.fn("dataiter.deco.obsoletes").params]
    marks = [c for _, c in calls_in(wrap) if isinstance(c.func, ast.Attribute) and c.func.attr == "_mark_obsolete"
             and isinstance(c.func.value, ast.Name) and c.func.value.id == selfp]
    ok = bool(inner) and bool(marks)
    why = "wrapper calls the wrapped function and self._mark_obsolete()"
    if not marks:
        why = "obsoletes.wrapper never calls self._mark_obsolete() on the receiver"
    if ok:
        mn = cfg_node_of(wrap, marks[0])
        p = wcfg.path_avoiding(lambda n: n is mn)
        if p is not None:
            ok = False
            why = "a normal path through obsoletes.wrapper skips self._mark_obsolete(): " + " -> ".join(repr(x) for x in p)
        fa = inner[0].args
        if ok and not (fa and isinstance(fa[0], ast.Name) and fa[0].id == selfp):
            ok = False
            why = "wrapped function is not called with the receiver as first argument"
        if ok:
            rets = [n.ast for n in wcfg.nodes if n.kind == "stmt" and isinstance(n.ast, ast.Return)]
            callvar = None
            st = wrap.module.parent.get(inner[0])
            if isinstance(st, ast.Assign) and isinstance(st.targets[0], ast.Name):
                callvar = st.targets[0].id
            good = [r for r in rets if (isinstance(r.value, ast.Name) and r.value.id == callvar) or r.value is inner[0]]
            if len(good) != len(rets) or not rets:
                ok = False
                why = "wrapper does not return the wrapped function's value on every path"
    ctx.ob("EFF-2", wrap, "value = function(self, ...); self._mark_obsolete(); return value", wrap.node, ok, why,
           clause="editors mark receiver and ancestors obsolete")
    dec = repo.fn("dataiter.deco.obsoletes")
    rets = [n for n in ast.walk(dec.node) if isinstance(n, ast.Return) and repo.enclosing_function(dec.module, n) is dec]
    ok = bool(rets) and all(isinstance(r.value, ast.Name) and r.value.id == "wrapper" for r in rets)
    ctx.ob("EFF-2", dec, "return wrapper", rets[0] if rets else dec.node, ok,
           "decorator returns the marking wrapper" if ok else "deco.obsoletes does not return its marking wrapper",
           nontrivial=False)

    ga = repo.fn(f"{LOD}.__getattribute__")
    prints = [c for _, c in calls_in(ga) if isinstance(c.func, ast.Name) and c.func.id == "print"]
    ctx.count("warning print sites in __getattribute__", len(prints), 1)
    gcfg = cfg_of(ga)
    s0 = ga.params[0]
    for pc in prints:
        facts = facts_at(ga, pc)
        need = {("T", f"{s0}._obsolete"), ("F", f"{s0}._obsolete_warned")}
        missing = need - facts
        ok = not missing
        ctx.ob("EFF-2", ga, "print(warning) guarded by _obsolete and not _obsolete_warned", pc, ok,
               "print is dominated by both flag tests" if ok else
               f"warning printed without the guard(s) {sorted(missing)}",
               chain=[f"facts at print: {sorted(facts)}"], clause="warning printed exactly once")
        pn = cfg_node_of(ga, pc)

        def sets_warned(n):
            a = n.ast
            return (n.kind == "stmt" and isinstance(a, ast.Assign) and isinstance(a.targets[0], ast.Attribute)
                    and a.targets[0].attr == "_obsolete_warned" and isinstance(a.value, ast.Constant)
                    and a.value.value is True)
        p = gcfg.path_avoiding(sets_warned, start=pn)
        ctx.ob("EFF-2", ga, "self._obsolete_warned = True after print", pc, p is None or sets_warned(pn),
               "every path from the print to the exit sets the warned flag" if p is None else
               "path from the print to the exit that never sets _obsolete_warned: " + " -> ".join(repr(x) for x in p),
               clause="warning printed exactly once")
    # Which attribute names are exempt from the warning?  The facts about the NAME at the print site are a predicate over
    # strings; it is evaluated here on the finite set of names the class itself looks up on a list.  The bookkeeping
    # attributes must be exempt (the guard reads them), every callable through which items are handed on must not be:
    # slicing, +, * and copy reach Python-level lookup only through self._new.
    NAMEP = ga.params[1] if len(ga.params) > 1 else "name"

    def name_pred(expr, name):
        """True/False for a string predicate over NAMEP, None when it is not one."""
        if isinstance(expr, ast.UnaryOp) and isinstance(expr.op, ast.Not):
            v = name_pred(expr.operand, name)
            return None if v is None else (not v)
        if isinstance(expr, ast.BoolOp):
            vs = [name_pred(v, name) for v in expr.values]
            if any(v is None for v in vs):
                return None
            return all(vs) if isinstance(expr.op, ast.And) else any(vs)
        if isinstance(expr, ast.Compare) and len(expr.ops) == 1:
            l, op, r = expr.left, expr.ops[0], expr.comparators[0]
            if isinstance(l, ast.Constant) and isinstance(l.value, str) and isinstance(r, ast.Name) and r.id == NAMEP \
                    and isinstance(op, (ast.In, ast.NotIn)):
                return (l.value in name) == isinstance(op, ast.In)
            if isinstance(l, ast.Name) and l.id == NAMEP and isinstance(op, (ast.In, ast.NotIn)) and isinstance(r, (ast.Tuple, ast.List, ast.Set)) \
                    and all(isinstance(e, ast.Constant) for e in r.elts):
                return (name in [e.value for e in r.elts]) == isinstance(op, ast.In)
            if isinstance(l, ast.Name) and l.id == NAMEP and isinstance(op, (ast.Eq, ast.NotEq)) and isinstance(r, ast.Constant):
                return (name == r.value) == isinstance(op, ast.Eq)
        if isinstance(expr, ast.Call) and isinstance(expr.func, ast.Attribute) and isinstance(expr.func.value, ast.Name) \
                and expr.func.value.id == NAMEP and expr.func.attr in ("startswith", "endswith") and len(expr.args) == 1 \
                and isinstance(expr.args[0], ast.Constant) and isinstance(expr.args[0].value, str):
            return getattr(name, expr.func.attr)(expr.args[0].value)
        return None
    import ast as _ast
    for pc in prints:
        conds = []
        for k, t in facts_at(ga, pc):
            if NAMEP not in t or t.startswith("iter:"):
                continue
            try:
                e = _ast.parse(t, mode="eval").body
            except SyntaxError:
                continue
            if any(isinstance(x, ast.Name) and x.id == NAMEP for x in ast.walk(e)):
                conds.append((k, e, t))

        def warns(name):
            out = True
            for k, e, t in conds:
                v = name_pred(e, name)
                if v is None:
                    return None
                out = out and (v if k == "T" else not v)
            return out
        # the marking method is looked up on every predecessor each time a successor edits: that lookup is not the user's
        # "next use" -- were it to warn, the warning would be spent (and the flag set) before the user touches the list
        must_exempt = ["_obsolete", "_obsolete_warned", mark.name]
        handed_on = sorted({c.func.attr for m_ in cls.methods.values() for _, c in calls_in(m_)
                            if isinstance(c.func, ast.Attribute) and isinstance(c.func.value, ast.Name) and m_.params
                            and c.func.value.id == m_.params[0] and c.func.attr in cls.methods} - {mark.name})
        public = sorted(n_ for n_ in cls.methods if not n_.startswith("_"))
        vals = {n_: warns(n_) for n_ in must_exempt + handed_on + public}
        if any(v is None for v in vals.values()):
            ctx.note("EFF-2: the name guard of __getattribute__ is not a string predicate this check can evaluate; not judged")
            continue
        bad_ex = [n_ for n_ in must_exempt if vals[n_]]
        bad_w = [n_ for n_ in handed_on + public if not vals[n_]]
        ok = not bad_ex and not bad_w
        ctx.ob("EFF-2", ga, f"name guard {[t for _, _, t in conds]} evaluated on {len(vals)} attribute names", pc, ok,
               "only the bookkeeping attributes are exempt from the warning; every method the class calls on itself (incl. _new) and "
               "every public method triggers it" if ok else
               (f"lookups of {bad_w[:6]} no longer trigger the warning: slicing, +, * and copy reach Python-level attribute lookup only "
                f"through self._new, so an obsolete list used that way hands its edited items on silently" if bad_w else
                f"{bad_ex} are looked up by the bookkeeping itself (the guard's own flag reads; {mark.name} on every predecessor whenever a "
                f"successor edits) without being exempt: an already obsolete list prints its one warning during a later edit of a "
                f"successor, and its real next use is silent"),
               clause="print the warning exactly once on their next use")
    # obsolete methods themselves must stay silent ('obsolete' not in name)
    init = repo.fn(f"{LOD}.__init__")
    for attr, expect in (("_obsolete", False), ("_obsolete_warned", False), ("_predecessor", None)):
        hit = [n for n in ast.walk(init.node) if isinstance(n, ast.Assign) and isinstance(n.targets[0], ast.Attribute)
               and n.targets[0].attr == attr and isinstance(n.value, ast.Constant) and n.value.value is expect]
        icfg = cfg_of(init)
        ok = bool(hit) and icfg.path_avoiding(lambda n: n.ast is hit[0]) is None
        ctx.ob("EFF-2" if attr != "_predecessor" else "EFF-3", init, f"self.{attr} = {expect!r}", hit[0] if hit else init.node, ok,
               f"new lists start with {attr} = {expect!r} on every path" if ok else
               f"__init__ does not initialise {attr} to {expect!r} on every path", nontrivial=False)

    # ---------------------------------------------------------------- EFF-3
    new = repo.fn(f"{LOD}._new")
    ncfg = cfg_of(new)
    rets = [n for n in ncfg.nodes if n.kind == "stmt" and isinstance(n.ast, ast.Return)]
    sets = [n for n in ncfg.nodes if n.kind == "stmt" and isinstance(n.ast, ast.Assign)
            and isinstance(n.ast.targets[0], ast.Attribute) and n.ast.targets[0].attr == "_predecessor"]
    ok = bool(sets) and bool(rets)
    why = "_new assigns new._predecessor = self before returning new"
    if ok:
        tgt = sets[0].ast.targets[0].value
        for r in rets:
            if not (isinstance(r.ast.value, ast.Name) and isinstance(tgt, ast.Name) and r.ast.value.id == tgt.id):
                ok = False
                why = "_new returns an object other than the one whose _predecessor it set"
            elif not ncfg.dominates(sets[0], r):
                ok = False
                why = "a path through _new returns without recording the predecessor"
    else:
        why = "_new never records the predecessor"
    ctx.ob("EFF-3", new, "new._predecessor = self; return new", new.node, ok, why, clause="derivation chain")
    r = I.summary(new).returns
    ok = r is not None and r.kind == "lod" and "as-is" in r.flags
    ctx.ob("EFF-3", new, "self.__class__(dicts, as_is=True)", new.node, ok,
           f"_new hands on the given dict objects unchanged ({r!r})" if ok else
           f"_new does not build the list with as_is=True ({r!r}): items are copied, successors no longer share them",
           clause="derivation chain")
    n_sharing = 0
    for m in methods:
        if m.name in ("_new", "__init__"):
            continue
        summ = I.summary(m)
        rv = summ.returns
        if m.has_decorator("new_from_generator"):
            continue    # wrapper returns self._new(generator): checked below on the decorator
        for v in ([rv] if rv is not None else []):
            if v.kind != "lod":
                continue
            shared = ours(all_alias(v.elem)) if v.elem is not None else frozenset()
            same_obj = ours(v.alias)
            if same_obj:
                continue       # returns the receiver itself (group_by)
            if "SELF" in shared:
                n_sharing += 1
                ok = "via-new" in v.flags
                ctx.ob("EFF-3", m, f"return value of {m.name}", m.node, ok,
                       "list sharing the receiver's item dicts is built by self._new (predecessor recorded)" if ok else
                       f"returns a list sharing the receiver's item dicts that was not built by self._new: "
                       f"no predecessor link, so an editor called on it never marks the receiver obsolete ({v!r})",
                       chain=[f"abstract value: {v!r}"], clause="derivation chain")
            elif m.name in ("__deepcopy__", "deepcopy"):
                shallow = v.elem is not None and "shallow" in v.elem.flags
                ok = not shared and "via-new" not in v.flags and not shallow
                ctx.ob("EFF-3", m, f"return value of {m.name}", m.node, ok,
                       "deep copy: fresh item dicts, no predecessor" if ok else
                       f"deepcopy result still shares item dicts (or their nested values: shallow copy) or records "
                       f"a predecessor ({v!r})",
                       chain=[f"abstract value: {v!r}"], clause="deepcopy isolation")
    for name in ("__deepcopy__",):
        m = cls.methods.get(name)
        if m is None:
            raise AnalysisError("anchor vanished: ListOfDicts.__deepcopy__")
        # each item is copied on its own: a memo shared between the items makes an item that occurs twice in the list ONE copy,
        # so the two positions of the copy are the same dict
        for _, c in calls_in(m):
            if (repo.dotted(m, c.func) or "") == "copy.deepcopy" and (len(c.args) > 1 or any(k.arg == "memo" for k in c.keywords)):
                ctx.ob("EFF-3", m, norm(c)[:60], c, False,
                       f"{norm(c)[:50]} shares one memo between the items: a dict that occurs at several positions of the list is copied once "
                       f"and the copy's positions alias each other (an editor applied to the copy, e.g. full_join's numbering, changes both)",
                       clause="deepcopy returns a list whose later modification ...; every left item in order")
        v = I.summary(m).returns
        if v is None or v.kind != "lod":
            ctx.ob("EFF-3", m, "return value of __deepcopy__", m.node, False,
                   f"__deepcopy__ does not return a ListOfDicts ({v!r})")
    gi = repo.fn(f"{LOD}.__getitem__")
    from ..forms import value_cases
    cases = value_cases(gi, "return")
    lst_cases = [(leaf, f) for _, leaf, f in cases if any(k == "T" and t.startswith("isinstance(") and "list" in t for k, t in f)]
    ok = bool(lst_cases) and all(isinstance(leaf, ast.Call) and isinstance(leaf.func, ast.Attribute) and leaf.func.attr == "_new"
                                 and norm(leaf.func.value) == gi.params[0] for leaf, f in lst_cases)
    ctx.ob("EFF-3", gi, "slice -> self._new(value)", gi.node, ok,
           "a slice shares the receiver's item dicts and is built by self._new: the predecessor link is recorded" if ok else
           "a slice is returned without going through self._new: it shares the receiver's item dicts but has no predecessor, so an "
           "editor called on the slice never marks the sliced list obsolete", clause="every list from which it was obtained reports itself obsolete")
    # decorator: wrapper returns self._new(value) on every path
    nfg = repo.fn("dataiter.deco.new_from_generator.wrapper")
    rets = [n for n in ast.walk(nfg.node) if isinstance(n, ast.Return)]
    ok = bool(rets)
    for r0 in rets:
        v = r0.value
        if not (isinstance(v, ast.Call) and isinstance(v.func, ast.Attribute) and v.func.attr == "_new"
                and isinstance(v.func.value, ast.Name) and v.func.value.id == nfg.params[0]):
            ok = False
    ctx.ob("EFF-3", nfg, "return self._new(value)", rets[0] if rets else nfg.node, ok,
           "every generator method returns through the receiver's _new" if ok else
           "new_from_generator.wrapper does not return self._new(...)", clause="derivation chain")
    ctx.count("non-generator methods returning lists that share items", n_sharing, 4)
    ctx.note("lists combined from two parents (a + b, extend) record only the receiver as predecessor; the "
             "quantifier speaks of derivation trees, so this is a note, not a violation")
