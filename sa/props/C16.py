"""C16 -- ListOfDicts joins and aggregation follow first-match / partition rules."""
import ast
from ..common import interp, ours, calls_in, norm, LOD, DF, kw
from ..model import AnalysisError, body_nodes
from ..dataflow import defs_reaching
from ..facts import facts_at
from .shared import yields_of
from ..pattern import pmatch, pstmt, text, find

EXPLANATION = (
    "Structural necessary conditions of the ListOfDicts joins and aggregate decided from source: (ORD-4) the key->item lookup "
    "of inner_join/left_join is a dict comprehension (last key wins) and therefore iterates reversed(other) so that the FIRST "
    "right item survives; (SIB-13) inner/left twins strip the right-hand key names from the merged entries, update only the "
    "left item, with a fresh dict (the right operand is never written: effect analysis); inner_join yields only matched items, "
    "left_join yields every item once; (SIB-14) semi_join / anti_join test membership in the same id set with complementary "
    "operators; (SIB-15) full_join's reverse join b.left_join(a, ...) swaps the operand roles and must receive the role-swapped "
    "by-tuples, as DataFrame.full_join does; (AGG) aggregate takes its groups from unique(*by) on a deep copy, fills buckets in "
    "iteration order, and sorts the output by the same keys ascending. Not decided: which items match."
)
ASSUMPTIONS = ["dict comprehensions keep the last value for a repeated key; dicts preserve insertion order"]


def check(ctx):
    repo = ctx.repo
    from . import generic as _gen
    _gen.language_traps(ctx, _gen.anchor_functions(repo, "C16"), "the property holds for every input, on every call")
    _gen.names_as_given(ctx, repo.fn("dataiter.list_of_dicts.ListOfDicts.group_by"), repo.fn("dataiter.list_of_dicts.ListOfDicts.group_by").vararg,
                        "aggregate returns one item per distinct key tuple, ordered by those keys in the order given")
    # aggregate orders its groups with ListOfDicts.sort: the sort's own rule belongs to this property as well
    from .C15 import check_sort as _check_sort
    _check_sort(ctx, repo)
    _gen.total_functions(ctx, ["dataiter.list_of_dicts.ListOfDicts.group_by"])
    I = interp(repo)
    for r, t in (("ORD-4", "lookup dict built over reversed(other): first match wins"),
                 ("SIB-13", "inner/left twins: strip right key names, update left item with a fresh dict"),
                 ("SIB-14", "semi/anti: same id set, complementary tests"),
                 ("SIB-15", "full_join reverse join receives role-swapped by-tuples"),
                 ("AGG", "aggregate: groups from unique, buckets in order, output sorted by the keys")):
        ctx.rule(r, t)
    n_lookup = 0
    recs = {}
    for name in ("inner_join", "left_join"):
        fn = repo.fn(f"{LOD}.{name}")
        OTH = fn.params[1]
        ex2 = [n for n in body_nodes(fn.node) if isinstance(n, ast.Assign) and isinstance(n.targets[0], ast.Name)
               and isinstance(n.value, ast.Call) and repo.dotted(fn, n.value.func) == "operator.itemgetter"]
        by_assign = [n for n in body_nodes(fn.node) if isinstance(n, ast.Assign) and isinstance(n.targets[0], ast.Tuple)
                     and isinstance(n.value, ast.Call) and isinstance(n.value.func, ast.Attribute) and n.value.func.attr == "_split_join_by"]
        if not by_assign:
            raise AnalysisError(f"{fn.qualname}: the (left, right) key names are no longer obtained from self._split_join_by(...) in the "
                                f"method itself; the merge rules have no right-hand key names to judge against")
        BY1, BY2 = (norm(e) for e in by_assign[0].targets[0].elts)
        EX1 = next((norm(n.targets[0]) for n in ex2 if norm(n.value.args[0]) == f"*{BY1}"), "extract1")
        EX2 = next((norm(n.targets[0]) for n in ex2 if norm(n.value.args[0]) == f"*{BY2}"), "extract2")
        from ..forms import contributions
        # the lookup is the mapping queried with the left-hand key extraction: X.get(EX1(item), ...) / EX1(item) in X / X[id]
        look_names = set()
        for n in body_nodes(fn.node):
            if isinstance(n, ast.Call) and isinstance(n.func, ast.Attribute) and n.func.attr == "get" and isinstance(n.func.value, ast.Name):
                look_names.add(n.func.value.id)
            if isinstance(n, ast.Compare) and len(n.ops) == 1 and isinstance(n.ops[0], (ast.In, ast.NotIn)) and isinstance(n.comparators[0], ast.Name):
                look_names.add(n.comparators[0].id)
        dcs = []
        for ln in sorted(look_names):
            cs = [x for x in contributions(fn, ln) if x["key"] is not None]
            if not cs:
                # dict(zip(<keys>, <items>)): filled in iteration order of the operands, later pairs overwrite earlier ones
                for d_ in defs_reaching(fn, ln, fn.node.body[-1]):
                    v_ = d_.value
                    if isinstance(v_, ast.Call) and isinstance(v_.func, ast.Name) and v_.func.id == "dict" and len(v_.args) == 1 \
                            and isinstance(v_.args[0], ast.Call) and isinstance(v_.args[0].func, ast.Name) and v_.args[0].func.id == "zip" \
                            and len(v_.args[0].args) == 2:
                        n_lookup += 1
                        LOOKN = ln
                        ka, va = (norm(a_) for a_ in v_.args[0].args)
                        rev = all(("reversed(" in t_ or "[::-1]" in t_) for t_ in (ka, va))
                        ctx.ob("ORD-4", fn, norm(v_)[:120], v_, rev,
                               "pairs are zipped over the reversed right list: the first right item with a key is the one found" if rev else
                               f"dict(zip(...)) fills the lookup in the order of {va}, and a later pair overwrites an earlier one: with duplicate right "
                               f"keys the LAST item wins instead of the first",
                               clause="merging in the non-key entries of the first right item with equal key values")
                        dcs.append(v_)
                continue
            n_lookup += 1
            LOOKN = ln
            for x in cs:
                it = x["iter"]
                firstwins = any(" not in " in t and ln in t for t in x["conds"])
                ok = firstwins or (it is not None and ((isinstance(it, ast.Call) and isinstance(it.func, ast.Name) and it.func.id == "reversed"
                                                        and it.args and norm(it.args[0]) == OTH) or norm(it) in (f"{OTH}[::-1]",)))
                ctx.ob("ORD-4", fn, norm(x["node"])[:120], x["node"], ok,
                       "later items are overwritten by earlier ones (or never overwrite): the first right item with a key is the one found" if ok else
                       f"lookup is filled while iterating {norm(it) if it is not None else '?'} with last-wins stores: with duplicate right keys the "
                       f"LAST item wins instead of the first", clause="merging in the non-key entries of the first right item with equal key values")
                tgt = norm(x["target"]) if x["target"] is not None else None
                ok = tgt is not None and norm(x["key"]) == f"{EX2}({tgt})" and norm(x["value"]) == tgt
                ctx.ob("ORD-4", fn, f"key {norm(x['key'])} -> {norm(x['value'])}", x["node"], ok,
                       "right items are keyed by the right-hand key names" if ok else "lookup is not keyed by the right-hand key extraction",
                       nontrivial=False)
                dcs.append(x["node"])
        # merged entries
        ups = [c for f, c in calls_in(fn) if isinstance(c.func, ast.Attribute) and c.func.attr == "update"]
        # what is merged: the argument of update(), through a local name if one is used
        merged = []
        for c in ups:
            a = c.args[0] if c.args else None
            if isinstance(a, ast.Name):
                merged += [d.value for d in defs_reaching(fn, a.id, c) if d.value is not None]
            elif a is not None:
                merged.append(a)
        comps = [m for m in merged if isinstance(m, ast.DictComp)]
        rec = {"strip": [norm(i) for m in comps for i in m.generators[0].ifs],
               "update_target": [norm(c.func.value) for c in ups], "fresh": bool(merged) and len(comps) == len(merged)}
        recs[name] = rec
        ok = bool(comps) and all(any(norm(i).endswith(f" not in {BY2}") for i in m.generators[0].ifs) for m in comps)
        ctx.ob("SIB-13", fn, f"merged entries filtered by {rec['strip']}", comps[0] if comps else fn.node, ok,
               "the right-hand key names are not merged into the left item" if ok else
               "entries under the right-hand key names are merged too (renamed keys leak into the result)",
               clause="merging in the non-key entries")
        lp = [n for n in ast.walk(fn.node) if isinstance(n, ast.For) and norm(n.iter) == fn.params[0]]
        ITEM = norm(lp[0].target) if lp else "item"
        LOOK = LOOKN if dcs else "other_by_id"
        ok = rec["update_target"] == [ITEM] and rec["fresh"]
        ctx.ob("SIB-13", fn, f"{rec['update_target']}.update({[norm(m)[:60] for m in merged]})", ups[0] if ups else fn.node, ok,
               "only the left item is updated, with a freshly built dict" if ok else
               "the update does not go from the fresh merged dict into the left item", clause="left items keep their place; right items untouched")
        ys = yields_of(fn)
        if name == "inner_join":
            ok = bool(ys) and all(any(k == "T" and t.endswith(f" in {LOOK}") for k, t in facts_at(fn, y)) for y in ys)
            ctx.ob("SIB-13", fn, "yield only matched items", ys[0] if ys else fn.node, ok,
                   "inner_join yields an item only when its key is in the lookup" if ok else "inner_join yields unmatched items",
                   clause="inner_join returns the merged matched items")
        else:
            ok = len(ys) == 1 and not any(k in ("T", "F") and LOOK in t for k, t in facts_at(fn, ys[0]))
            ctx.ob("SIB-13", fn, "yield every item once", ys[0] if ys else fn.node, ok,
                   "left_join yields every left item unconditionally" if ok else "left_join drops or duplicates left items",
                   clause="left_join keeps every left item in order")
            gets = [c for f, c in calls_in(fn) if isinstance(c.func, ast.Attribute) and c.func.attr == "get" and norm(c.func.value) == LOOK]
            ok = bool(gets) and len(gets[0].args) == 2 and norm(gets[0].args[1]) in ("{}", "dict()")
            ctx.ob("SIB-13", fn, norm(gets[0]) if gets else "lookup default", gets[0] if gets else fn.node, ok,
                   "no match adds nothing" if ok else "unmatched left items do not default to an empty merge", nontrivial=False,
                   clause="adding nothing when there is none")
    ctx.count("lookup dict comprehensions", n_lookup, 2)
    # right operand never written (effect analysis)
    for name in ("inner_join", "left_join", "semi_join", "anti_join", "full_join"):
        fn = repo.fn(f"{LOD}.{name}")
        summ = I.summary(fn)
        bad = [ev for ev in summ.events if ev.kind in ("item-write", "del-item") and ev.target.kind in ("dict", "unknown")
               and any(o == "ARG:other" for o in ev.target.alias) and (ev.target.kind == "dict" or "elemof" in ev.target.flags)]
        ctx.ob("SIB-13", fn, f"writes on items of the right-hand list", fn.node, not bad,
               "no write effect reaches an item of `other`" if not bad else
               f"{bad[0].detail} writes an item dict of the right-hand argument ({bad[0].target!r})",
               clause="any join's right-hand argument is unchanged")
    # -------------------------------------------------------------- SIB-14
    semi, anti = repo.fn(f"{LOD}.semi_join"), repo.fn(f"{LOD}.anti_join")
    rs = {}
    for fn in (semi, anti):
        OTH = fn.params[1]
        ids = [n for n in body_nodes(fn.node) if isinstance(n, ast.Assign) and isinstance(n.targets[0], ast.Name)
               and pmatch(f"set(map(_E, {OTH}))", n.value) is not None]
        idn = norm(ids[0].targets[0]) if ids else None
        ex = norm(pmatch(f"set(map(_E, {OTH}))", ids[0].value)["_E"]) if ids else None
        # which by-list feeds that extractor?
        exdef = [n for n in body_nodes(fn.node) if isinstance(n, ast.Assign) and ex and norm(n.targets[0]) == ex]
        by_assign = [n for n in body_nodes(fn.node) if isinstance(n, ast.Assign) and isinstance(n.targets[0], ast.Tuple)
                     and isinstance(n.value, ast.Call) and isinstance(n.value.func, ast.Attribute) and n.value.func.attr == "_split_join_by"]
        side = None
        if exdef and by_assign:
            arg = norm(exdef[0].value.args[0]) if isinstance(exdef[0].value, ast.Call) and exdef[0].value.args else ""
            names = [norm(e) for e in by_assign[0].targets[0].elts]
            side = "right" if arg == f"*{names[1]}" else ("left" if arg == f"*{names[0]}" else None)
        ys = yields_of(fn)
        test = None
        for y in ys:
            for k, t in facts_at(fn, y):
                if idn and t.endswith(f" in {idn}"):
                    neg = " not in " in t
                    sense = "in" if (not neg) == (k == "T") else "not in"
                    lhs = t.split(" not in " if neg else " in ")[0]
                    test = (sense, lhs.split("(")[0])
        rs[fn.name] = (side, test)
        if ids:
            # every way out of the method has consulted the id set (or one of the lists is empty)
            from ..cfg import cfg_of as _cfg16
            cfg_ = _cfg16(fn)
            inode = cfg_.node_of(ids[0], fn.module.parent)
            path_ = cfg_.path_avoiding(lambda nd: nd is inode)
            okp_ = path_ is None
            tests_ = []
            if path_ is not None:
                for a_, b_ in zip(path_, path_[1:]):
                    if a_.kind == "test" and a_.ast is not None:
                        lab_ = next((l for s_, l in a_.succ if s_ is b_), None)
                        tests_.append((lab_, norm(a_.ast)))
                import re as _re16
                okp_ = any((l == "T" and _re16.search(r"^not \w+$|len\(\w+\) == 0|^not len\(\w+\)$", t)) or
                           (l == "F" and _re16.search(r"^\w+$|len\(\w+\) > 0|^len\(\w+\)$", t)) for l, t in tests_)
            ctx.ob("SIB-14", fn, f"every exit of {fn.name} follows {norm(ids[0])[:50]}", ids[0], okp_,
                   "no exit avoids the id set (or only for an empty list)" if okp_ else
                   f"{fn.name} can finish without building the right-hand id set (under {tests_[-2:]}): what it returns then does not "
                   f"depend on `by` -- for differently named keys (e.g. a list joined to itself on (parent, id)) the matched / unmatched "
                   f"split is wrong", clause="semi_join and anti_join return the unmerged matched items and the unmatched items")
    ok = rs["semi_join"][0] == rs["anti_join"][0] == "right" and rs["semi_join"][1] and rs["anti_join"][1] \
        and rs["semi_join"][1][0] == "in" and rs["anti_join"][1][0] == "not in"
    ctx.ob("SIB-14", anti, f"semi {rs['semi_join']} / anti {rs['anti_join']}", anti.node, bool(ok),
           "same id set of the right-hand list (right-hand key names), complementary membership tests" if ok else
           "semi_join and anti_join do not test complementary membership in the same id set: they no longer partition the list",
           clause="semi_join and anti_join return the unmerged matched items and the unmatched items")
    # -------------------------------------------------------------- SIB-15
    fj = repo.fn(f"{LOD}.full_join")
    P, O, BY = fj.params[0], fj.params[1], fj.vararg
    stm = sorted((n for n in body_nodes(fj.node) if isinstance(n, ast.stmt)), key=lambda n: n.lineno)

    def first(pattern, env=None):
        for n in stm:
            bb = pstmt(pattern, n, dict(env or {}))
            if bb is not None:
                return n, bb
        return None, None
    _, ba_ = first(f"_A = {P}.deepcopy().modify(_aid_=__)")
    _, bb_ = first(f"_B = {O}.deepcopy().modify(_bid_=__)")
    if ba_ is None or bb_ is None:
        raise AnalysisError("ListOfDicts.full_join: the synthetic ids are no longer attached to deep copies with modify(); re-confirm SIB-15")
    env = {"_A": ba_["_A"], "_B": bb_["_B"]}
    ljs = [c for f, c in calls_in(fj) if isinstance(c.func, ast.Attribute) and c.func.attr == "left_join"]
    ctx.count("left_join calls in full_join", len(ljs), 2)
    sab, bab = first(f"_AB = _A.deepcopy().left_join(_B, *{BY})", env)
    ctx.ob("SIB-15", fj, text(sab) if sab else "ab = a.deepcopy().left_join(b, *by)", sab or fj.node, bab is not None,
           "forward join runs on a deep copy of the left list (left_join edits items in place; a is needed unchanged for the reverse join), "
           "with by as given" if bab is not None else
           "the forward join is not a.deepcopy().left_join(b, *by): without the copy the items of a are edited in place and the reverse "
           "join merges polluted items", clause="full_join contains every right item at least once")
    for c in ljs:
        base = c.func.value
        while isinstance(base, ast.Call) and isinstance(base.func, ast.Attribute):
            base = base.func.value
        if text(base) != text(env["_B"]):
            continue
        star = [a for a in c.args if isinstance(a, ast.Starred)]
        swapped = False
        if star and isinstance(star[0].value, ast.Name) and star[0].value.id != BY:
            from ..forms import contributions
            cs = contributions(fj, star[0].value.id, c)
            srcs = {norm(x["iter"]) for x in cs if x["iter"] is not None}
            vals = [norm(x["value"]) for x in cs if x["value"] is not None]
            # every element comes from iterating by; tuple elements are reversed, plain names kept
            if cs and srcs == {BY} and any("reversed(" in v or "[::-1]" in v for v in vals) \
                    and all(("reversed(" in v or "[::-1]" in v) or v == norm(x["target"]) or " if " in v for v, x in zip(vals, [y for y in cs if y["value"] is not None])):
                swapped = True
            lazy = []
            from ..forms import split_ifexp as _sx2
            for x in cs:
                if x["value"] is None:
                    continue
                for leaf, _f in _sx2(x["value"]):
                    if isinstance(leaf, ast.Call) and isinstance(leaf.func, ast.Name) and leaf.func.id in ("reversed", "map", "iter", "zip", "filter"):
                        lazy.append(leaf)
            if swapped and lazy:
                ctx.ob("SIB-15", fj, f"{norm(lazy[0])} handed on as a by-pair", lazy[0], False,
                       f"the swapped pair is the iterator {norm(lazy[0])}: _split_join_by indexes a pair with x[0] / x[1], which an iterator "
                       f"does not support -- every full_join with differently named keys raises TypeError",
                       clause="key tuples incl. renamed (left,right) keys")
        okr = bool(c.args) and text(c.args[0]) == text(env["_A"])
        ctx.ob("SIB-15", fj, text(c), c, okr and swapped,
               "reverse join receives the by-tuples with the two names swapped" if (okr and swapped) else
               f"{text(c)}: the operands are swapped (the right-hand list is now the receiver) but the by-tuples are not, "
               f"so with (left, right) renamed keys the receiver is asked for the left name -> KeyError / wrong matches",
               clause="key tuples incl. renamed (left,right) keys")
    anti_calls = [c for f, c in calls_in(fj) if isinstance(c.func, ast.Attribute) and c.func.attr == "anti_join"]
    ab_names = {text(bab["_AB"])} if bab is not None else set()
    # ab may be rebound by fill_missing_keys: ab = ab.fill_missing_keys(...)
    ok = bool(anti_calls) and all(len(c.args) == 2 and isinstance(c.args[1], ast.Constant) and c.args[1].value == "_bid_"
                                  and text(c.args[0]) in ab_names and text(c.func.value) == text(env["_B"]) for c in anti_calls)
    ctx.ob("SIB-15", fj, text(anti_calls[0]) if anti_calls else "b.anti_join(ab, '_bid_')", anti_calls[0] if anti_calls else fj.node, ok,
           "right items still to be added are found by their synthetic id among the joined items" if ok else
           "unused right items are not determined by the synthetic id against the left-join result: right items that share a key "
           "with a used one are lost", clause="full_join contains every right item at least once")
    # in the reverse part a key named differently on the two sides is renamed to the left-hand name
    ren = [n for n in body_nodes(fj.node) if isinstance(n, ast.Assign) and isinstance(n.targets[0], ast.Subscript)
           and isinstance(n.value, ast.Call) and isinstance(n.value.func, ast.Attribute) and n.value.func.attr == "pop"]
    okren = bool(ren) and all(pmatch("_X[0]", n.targets[0].slice) is not None and n.value.args
                              and pmatch("_X[1]", n.value.args[0], {"_X": pmatch("_X[0]", n.targets[0].slice)["_X"]}) is not None
                              and text(n.targets[0].value) == text(n.value.func.value) for n in ren)
    ctx.ob("SIB-15", fj, text(ren[0]) if ren else "x[item[0]] = x.pop(item[1]) for the reverse-joined items", ren[0] if ren else fj.node, okren,
           "reverse-joined items carry the key under the left-hand name, like the forward-joined ones" if okren else
           "the reverse part keeps the right-hand key name (or renames the wrong way): one key lives under two names in the result, and "
           "the final sort/lookup by the left-hand name misses those items", clause="key tuples incl. renamed (left,right) keys")
    # the shortcut that skips the reverse part is taken only when no right item is left over
    from ..facts import facts_at as _fa
    B_ = text(env["_B"])
    EMPTY = {("T", f"len({B_}) == 0"), ("T", f"0 == len({B_})"), ("T", f"len({B_}) < 1"), ("F", f"len({B_})"), ("F", f"{B_}"),
             ("F", f"len({B_}) > 0"), ("F", f"len({B_}) >= 1"), ("F", f"len({B_}) != 0"), ("T", f"len({B_}) <= 0"), ("T", f"not {B_}")}
    rets_ = [n for n in body_nodes(fj.node) if isinstance(n, ast.Return) and n.value is not None]
    last_line = max((r.lineno for r in rets_), default=0)
    for r_ in rets_:
        about_b = [(k, t) for k, t in _fa(fj, r_) if f"len({B_})" in t or t == B_]
        if not about_b or r_.lineno == last_line:
            continue
        okb = any(x in EMPTY for x in about_b)
        ctx.ob("SIB-15", fj, f"shortcut {text(r_)[:60]} under {about_b}", r_, okb,
               "the reverse part is skipped only when every right item has been joined" if okb else
               f"full_join returns the left join alone under {about_b}, i.e. also when right items are still left over: those items are "
               f"missing from the result", clause="full_join additionally contains every right item at least once")
    # ------------------------------------------------------------------ AGG
    ag = repo.fn(f"{LOD}.aggregate")
    AS = ag.params[0]
    stm = sorted((n for n in body_nodes(ag.node) if isinstance(n, ast.stmt)), key=lambda n: n.lineno)

    def afirst(pattern, env=None):
        for n in stm:
            bb = pstmt(pattern, n, dict(env or {}))
            if bb is not None:
                return n, bb
        return None, None
    sby, bby = afirst(f"_BY = {AS}._group_keys")
    if bby is None:
        raise AnalysisError("ListOfDicts.aggregate: group keys are no longer read from self._group_keys")
    env = {"_BY": bby["_BY"]}
    sg, bg = afirst(f"_G = {AS}.unique(*_BY).deepcopy().select(*_BY)", env)
    if bg is None:
        # the same chain built through temporaries (firsts = self.unique(*by); groups = firsts.deepcopy().select(*by))
        from ..forms import expand as _expand
        for n in stm:
            if isinstance(n, ast.Assign) and len(n.targets) == 1 and isinstance(n.targets[0], ast.Name):
                m_ = pmatch(f"{AS}.unique(*_BY).deepcopy().select(*_BY)", _expand(ag, n.value, n, keep=(norm(env["_BY"]),)), dict(env))
                if m_ is not None:
                    sg, bg = n, dict(m_, _G=n.targets[0])
                    break
    ctx.ob("AGG", ag, text(sg) if sg else "groups = self.unique(*by).deepcopy().select(*by)", sg or ag.node, bg is not None,
           "one group per distinct key combination, on deep copies (select is an in-place editor) restricted to the keys" if bg is not None else
           "groups are not self.unique(*by).deepcopy().select(*by): either the partition is another one or the editor select() runs on "
           "the receiver's own items", clause="one item per distinct combination of group-key values")
    sx, bx = afirst("_EX = operator.itemgetter(*_BY)", env)
    ok = False
    if bx is not None:
        env["_EX"] = bx["_EX"]
        sd = [c for f, c in calls_in(ag) if pmatch("_D.setdefault(_EX(_I), []).append(_I)", c, env) is not None
              or (isinstance(c.func, ast.Attribute) and c.func.attr == "append" and isinstance(c.func.value, ast.Call)
                  and isinstance(c.func.value.func, ast.Attribute) and c.func.value.func.attr == "setdefault")]
        if not sd:
            # bucket = buckets.setdefault(extract(item), []); bucket.append(item)
            from ..forms import expand as _expand
            for f, c in calls_in(ag):
                if isinstance(c.func, ast.Attribute) and c.func.attr == "append" and isinstance(c.func.value, ast.Name):
                    e_ = _expand(ag, c, c, keep=(norm(env["_EX"]), norm(env["_BY"])))
                    if isinstance(e_.func.value, ast.Call) and isinstance(e_.func.value.func, ast.Attribute) and e_.func.value.func.attr == "setdefault":
                        sd.append((c, e_))
            sd = [x if isinstance(x, tuple) else (x, x) for x in sd]
        else:
            sd = [(x, x) for x in sd]
        okb = False
        for site_, c in sd:
            item = c.args[0] if c.args else None
            key = c.func.value.args[0] if c.func.value.args else None
            keys = [key]
            if isinstance(key, ast.Name):
                keys = [d.value for d in defs_reaching(ag, key.id, site_) if d.value is not None]
            if item is not None and keys and all(pmatch("_EX(_I)", k, dict(env, _I=item)) is not None for k in keys) \
                    and any(k == "T" and t == f"iter:{AS}" for k, t in facts_at(ag, site_)):
                okb = True
        ctx.ob("AGG", ag, text(sd[0][1]) if sd else "buckets.setdefault(extract(item), []).append(item)", sd[0][0] if sd else ag.node, okb,
               "every item is appended to its group's bucket in iteration order, keyed by the group-key extraction" if okb else
               "buckets are not filled from one pass over the receiver keyed by the same extraction",
               clause="summaries computed over exactly that group's items in their original order")
    else:
        ctx.ob("AGG", ag, "extract = operator.itemgetter(*by)", ag.node, False, "group-key extraction is not itemgetter(*by)")
    srt = [c for f, c in calls_in(ag) if isinstance(c.func, ast.Attribute) and c.func.attr == "sort"]
    ok = bool(srt) and bg is not None and pmatch("_G.sort(**dict.fromkeys(_BY, 1))", srt[0], dict(env, _G=bg["_G"])) is not None
    if srt and bg is not None and not ok:
        from ..forms import expand as _expand
        ok = pmatch("_G.sort(**dict.fromkeys(_BY, 1))", _expand(ag, srt[0], srt[0], keep=(norm(bg["_G"]), norm(env["_BY"]))), dict(env, _G=bg["_G"])) is not None
    ctx.ob("AGG", ag, text(srt[0]) if srt else "groups.sort(**dict.fromkeys(by, 1))", srt[0] if srt else ag.node, ok,
           "output ordered ascending by the group keys (None last by ListOfDicts.sort)" if ok else
           "output is not sorted ascending by the same group keys with ListOfDicts.sort", clause="ordered by those keys with None last")
