"""C16 -- ListOfDicts joins and aggregation follow first-match / partition rules."""
import ast
from ..common import interp, ours, calls_in, norm, LOD, DF, kw
from ..model import AnalysisError, body_nodes
from ..dataflow import defs_reaching
from ..facts import facts_at
from .shared import yields_of

EXPLANATION = (
    "Structural necessary conditions of the ListOfDicts joins and aggregate decided from source: (ORD-4) the key->item lookup "
    "of inner_join/left_join is a dict comprehension (last key wins) and therefore iterates reversed(other) so that the FIRST "
    "right item survives; (SIB-13) inner/left twins strip the right-hand key names from the merged entries, update only the "
    "left item, with a fresh dict (the right operand is never written: effect analysis); inner_join yields only matched items, "
    "left_join yields every item once; (SIB-14) semi_join / anti_join test membership in the same id set with complementary "
    "operators; (SIB-15) full_join's reverse join b.left_join(a, ...) swaps the operand roles and must receive the role-swapped "
    "by-tuples, as DataFrame.full_join does; (AGG) aggregate takes its groups from unique(*by) on a deep copy, fills buckets in "
    "iteration order, and sorts the output by the same keys ascending. Not decided: which items match."
)
ASSUMPTIONS = ["dict comprehensions keep the last value for a repeated key; dicts preserve insertion order"]


def check(ctx):
    repo = ctx.repo
    I = interp(repo)
    for r, t in (("ORD-4", "lookup dict built over reversed(other): first match wins"),
                 ("SIB-13", "inner/left twins: strip right key names, update left item with a fresh dict"),
                 ("SIB-14", "semi/anti: same id set, complementary tests"),
                 ("SIB-15", "full_join reverse join receives role-swapped by-tuples"),
                 ("AGG", "aggregate: groups from unique, buckets in order, output sorted by the keys")):
        ctx.rule(r, t)
    n_lookup = 0
    recs = {}
    for name in ("inner_join", "left_join"):
        fn = repo.fn(f"{LOD}.{name}")
        dcs = [n for n in ast.walk(fn.node) if isinstance(n, ast.DictComp)
               and any(norm(g.iter) in ("other", "reversed(other)") or "other" in norm(g.iter) for g in n.generators)
               and "extract" in norm(n.key)]
        for d in dcs:
            n_lookup += 1
            it = d.generators[0].iter
            ok = isinstance(it, ast.Call) and isinstance(it.func, ast.Name) and it.func.id == "reversed" and norm(it.args[0]) == "other"
            ok = ok or norm(it).endswith("[::-1]")
            ctx.ob("ORD-4", fn, norm(d), d, ok,
                   "later items are overwritten by earlier ones: the first right item with a key is the one found" if ok else
                   f"lookup dict iterates {norm(it)}: with duplicate right keys the LAST item wins instead of the first",
                   clause="merging in the non-key entries of the first right item with equal key values")
            ok = "extract2" in norm(d.key) and norm(d.value) == norm(d.generators[0].target)
            ctx.ob("ORD-4", fn, f"key {norm(d.key)} -> {norm(d.value)}", d, ok,
                   "right items are keyed by the right-hand key names" if ok else "lookup is not keyed by the right-hand key extraction",
                   nontrivial=False)
        # merged entries
        strip = [n for n in body_nodes(fn.node) if isinstance(n, ast.Assign) and isinstance(n.value, ast.DictComp)
                 and n.value.generators[0].ifs]
        ups = [c for f, c in calls_in(fn) if isinstance(c.func, ast.Attribute) and c.func.attr == "update"]
        rec = {"strip": [norm(i) for s in strip for i in s.value.generators[0].ifs],
               "update_target": [norm(c.func.value) for c in ups], "update_arg": [norm(c.args[0]) for c in ups if c.args]}
        recs[name] = rec
        ok = rec["strip"] == ["k not in by2"] or any("not in by2" in t for t in rec["strip"])
        ctx.ob("SIB-13", fn, f"merged entries filtered by {rec['strip']}", strip[0] if strip else fn.node, ok,
               "the right-hand key names are not merged into the left item" if ok else
               "entries under the right-hand key names are merged too (renamed keys leak into the result)",
               clause="merging in the non-key entries")
        ok = rec["update_target"] == ["item"] and bool(strip) and rec["update_arg"] == [norm(strip[0].targets[0])]
        ctx.ob("SIB-13", fn, f"{rec['update_target']}.update({rec['update_arg']})", ups[0] if ups else fn.node, ok,
               "only the left item is updated, with the freshly built dict" if ok else
               "the update does not go from the fresh merged dict into the left item", clause="left items keep their place; right items untouched")
        ys = yields_of(fn)
        if name == "inner_join":
            ok = bool(ys) and all(any(k == "T" and " in other_by_id" in t for k, t in facts_at(fn, y)) for y in ys)
            ctx.ob("SIB-13", fn, "yield only matched items", ys[0] if ys else fn.node, ok,
                   "inner_join yields an item only when its key is in the lookup" if ok else "inner_join yields unmatched items",
                   clause="inner_join returns the merged matched items")
        else:
            ok = len(ys) == 1 and not any(k in ("T", "F") and "other_by_id" in t for k, t in facts_at(fn, ys[0]))
            ctx.ob("SIB-13", fn, "yield every item once", ys[0] if ys else fn.node, ok,
                   "left_join yields every left item unconditionally" if ok else "left_join drops or duplicates left items",
                   clause="left_join keeps every left item in order")
            gets = [c for f, c in calls_in(fn) if isinstance(c.func, ast.Attribute) and c.func.attr == "get" and "other_by_id" in norm(c.func.value)]
            ok = bool(gets) and len(gets[0].args) == 2 and norm(gets[0].args[1]) in ("{}", "dict()")
            ctx.ob("SIB-13", fn, norm(gets[0]) if gets else "lookup default", gets[0] if gets else fn.node, ok,
                   "no match adds nothing" if ok else "unmatched left items do not default to an empty merge", nontrivial=False,
                   clause="adding nothing when there is none")
    ctx.count("lookup dict comprehensions", n_lookup, 2)
    # right operand never written (effect analysis)
    for name in ("inner_join", "left_join", "semi_join", "anti_join", "full_join"):
        fn = repo.fn(f"{LOD}.{name}")
        summ = I.summary(fn)
        bad = [ev for ev in summ.events if ev.kind in ("item-write", "del-item") and ev.target.kind in ("dict", "unknown")
               and any(o == "ARG:other" for o in ev.target.alias) and (ev.target.kind == "dict" or "elemof" in ev.target.flags)]
        ctx.ob("SIB-13", fn, f"writes on items of the right-hand list", fn.node, not bad,
               "no write effect reaches an item of `other`" if not bad else
               f"{bad[0].detail} writes an item dict of the right-hand argument ({bad[0].target!r})",
               clause="any join's right-hand argument is unchanged")
    # -------------------------------------------------------------- SIB-14
    semi, anti = repo.fn(f"{LOD}.semi_join"), repo.fn(f"{LOD}.anti_join")
    rs = {}
    for fn in (semi, anti):
        ids = [n for n in body_nodes(fn.node) if isinstance(n, ast.Assign) and norm(n.targets[0]) == "other_ids"]
        ys = yields_of(fn)
        test = None
        for y in ys:
            for k, t in facts_at(fn, y):
                if "other_ids" in t:
                    sense = ("in" if (" not in " not in t) == (k == "T") else "not in")
                    test = (sense, t.replace(" not in ", " in "))
        rs[fn.name] = (norm(ids[0].value) if ids else None, test)
    ok = rs["semi_join"][0] == rs["anti_join"][0] and rs["semi_join"][0] is not None and "extract2" in rs["semi_join"][0] \
        and rs["semi_join"][1] and rs["anti_join"][1] and rs["semi_join"][1][0] == "in" and rs["anti_join"][1][0] == "not in" \
        and rs["semi_join"][1][1] == rs["anti_join"][1][1]
    ctx.ob("SIB-14", anti, f"semi {rs['semi_join']} / anti {rs['anti_join']}", anti.node, bool(ok),
           "same id set of the right-hand list, complementary membership tests" if ok else
           "semi_join and anti_join do not test complementary membership in the same id set: they no longer partition the list",
           clause="semi_join and anti_join return the unmerged matched items and the unmatched items")
    # -------------------------------------------------------------- SIB-15
    fj = repo.fn(f"{LOD}.full_join")
    ljs = [c for f, c in calls_in(fj) if isinstance(c.func, ast.Attribute) and c.func.attr == "left_join"]
    ctx.count("left_join calls in full_join", len(ljs), 2)
    for c in ljs:
        recv = c.func.value
        base = recv
        while isinstance(base, ast.Call) and isinstance(base.func, ast.Attribute):
            base = base.func.value
        first = c.args[0] if c.args else None
        star = [a for a in c.args if isinstance(a, ast.Starred)]
        if not star or first is None:
            continue
        forward = norm(base) == "a" and norm(first) == "b"
        byexpr = star[0].value
        swapped = False
        if isinstance(byexpr, ast.Name) and byexpr.id != fj.vararg:
            for d in defs_reaching(fj, byexpr.id, c):
                if d.value is not None and ("reversed(" in norm(d.value) or "[::-1]" in norm(d.value)) and fj.vararg in norm(d.value):
                    swapped = True
        if forward:
            ok = isinstance(byexpr, ast.Name) and byexpr.id == fj.vararg
            ctx.ob("SIB-15", fj, norm(c), c, ok, "forward join uses by as given" if ok else "forward join does not use by as given",
                   nontrivial=False)
        else:
            ctx.ob("SIB-15", fj, norm(c), c, swapped,
                   "reverse join receives the by-tuples with the two names swapped" if swapped else
                   f"{norm(c)}: the operands are swapped (the right-hand list is now the receiver) but the by-tuples are not, "
                   f"so with (left, right) renamed keys the receiver is asked for the left name -> KeyError / wrong matches",
                   clause="key tuples incl. renamed (left,right) keys")
    anti_calls = [c for f, c in calls_in(fj) if isinstance(c.func, ast.Attribute) and c.func.attr == "anti_join"]
    ok = bool(anti_calls) and all(len(c.args) == 2 and isinstance(c.args[1], ast.Constant) and c.args[1].value == "_bid_"
                                  and norm(c.args[0]) == "ab" for c in anti_calls)
    ctx.ob("SIB-15", fj, norm(anti_calls[0]) if anti_calls else "b.anti_join(ab, '_bid_')", anti_calls[0] if anti_calls else fj.node, ok,
           "right items still to be added are found by their synthetic id among the joined items" if ok else
           "unused right items are not determined by the synthetic id against the left-join result: right items that share a key "
           "with a used one are lost", clause="full_join contains every right item at least once")
    # ------------------------------------------------------------------ AGG
    ag = repo.fn(f"{LOD}.aggregate")
    groups = [n for n in body_nodes(ag.node) if isinstance(n, ast.Assign) and norm(n.targets[0]) == "groups"]
    ok = bool(groups) and "unique(*by)" in norm(groups[0].value) and "deepcopy()" in norm(groups[0].value) and "select(*by)" in norm(groups[0].value)
    ctx.ob("AGG", ag, norm(groups[0]) if groups else "groups = ...", groups[0] if groups else ag.node, ok,
           "one group per distinct key combination, on deep copies restricted to the keys" if ok else
           "groups are not self.unique(*by).deepcopy().select(*by)", clause="one item per distinct combination of group-key values")
    if groups:
        t = norm(groups[0].value)
        ok = t.index("deepcopy()") < t.index("select(") if ("deepcopy()" in t and "select(" in t) else False
        ctx.ob("AGG", ag, "deepcopy before select", groups[0], ok, "the editor select() runs on copies, not on the receiver's items" if ok else
               "select() (an in-place editor) runs on the receiver's own items", nontrivial=False)
    sd = [c for f, c in calls_in(ag) if isinstance(c.func, ast.Attribute) and c.func.attr == "append"
          and isinstance(c.func.value, ast.Call) and isinstance(c.func.value.func, ast.Attribute) and c.func.value.func.attr == "setdefault"]
    ok = bool(sd) and any(k == "T" and t == f"iter:{ag.params[0]}" for k, t in facts_at(ag, sd[0]))
    ctx.ob("AGG", ag, norm(sd[0]) if sd else "bucket fill", sd[0] if sd else ag.node, ok,
           "every item is appended to its group's bucket in iteration order" if ok else "buckets are not filled from one pass over the receiver",
           clause="summaries computed over exactly that group's items in their original order")
    srt = [c for f, c in calls_in(ag) if isinstance(c.func, ast.Attribute) and c.func.attr == "sort"]
    ok = bool(srt) and "dict.fromkeys(by, 1)" in norm(srt[0])
    ctx.ob("AGG", ag, norm(srt[0]) if srt else "groups.sort(...)", srt[0] if srt else ag.node, ok,
           "output ordered ascending by the group keys (None last by ListOfDicts.sort)" if ok else
           "output is not sorted ascending by the same group keys", clause="ordered by those keys with None last")
    ex = [n for n in body_nodes(ag.node) if isinstance(n, ast.Assign) and norm(n.targets[0]) == "extract"]
    ok = bool(ex) and "itemgetter(*by)" in norm(ex[0].value)
    ids = [n for n in body_nodes(ag.node) if isinstance(n, ast.Assign) and norm(n.targets[0]) == "id"]
    ok = ok and len(ids) >= 2 and all(norm(n.value).startswith("extract(") for n in ids)
    ctx.ob("AGG", ag, "bucket key and group key use the same extraction", ex[0] if ex else ag.node, ok,
           "items and groups are matched by the same key extraction" if ok else "bucket ids and group ids are extracted differently",
           nontrivial=False)
