"""C20 -- text rendering is total, side-effect free and structurally faithful."""
import ast
from ..common import interp, ours, calls_in, norm, reachable_functions, DF, VEC, LOD, GEO, is_self_call
from ..model import AnalysisError, FunctionInfo, outermost, body_nodes
from ..signatures import accepts_keyword, forwarded
from ..guards import partial_sites, discharge_reduction
from ..facts import facts_at
from ..dataflow import comprehension_binding, defs_reaching

EXPLANATION = (
    "Rendering entry points (str/repr/to_string/to_strings/print_ of Vector, DataFrame, GeoJSON, ListOfDicts) are analysed "
    "for: (FWD-override) every keyword a base-class entry point passes to a dynamically dispatched self.m(...) is accepted by "
    "every override of m, and an override forwards each of its own options to the base implementation; (EFF-render) no write "
    "effect on the rendered object in the whole rendering call graph (E3 interpreter); (GRD-empty) every identity-less "
    "reduction (max/min of widths and digit counts) reachable from an entry point is dominated by a non-emptiness guard, "
    "with the obligation moved to call sites for helper parameters, also through the local alias pad = util.upad if pad else "
    "identity; (GRD-null) elements of the GeoJSON geometry column -- null is allowed by the property -- are not subscripted "
    "without an is-not-None fact; (SIB-pad) every cell list of a data frame block and the row numbers pass util.upad. "
    "Not decided: actual widths, truncation and wording of the strings."
)
ASSUMPTIONS = [
    "wcwidth/str formatting do not raise on any str input",
    "user objects' __str__ used for object cells does not raise or mutate",
]

ENTRY_NAMES = ("__str__", "__repr__", "to_string", "to_strings", "print_")


def entries(repo):
    out = []
    for cq in (VEC, DF, GEO, LOD):
        cls = repo.cls(cq)
        for n in ENTRY_NAMES:
            if n in cls.methods:
                out.append(cls.methods[n])
    return out


def check(ctx):
    repo = ctx.repo
    from . import generic as _gen
    _gen.language_traps(ctx, _gen.anchor_functions(repo, "C20"), "the property holds for every input, on every call")
    from . import generic
    generic.memo_projection(ctx, ("dataiter.vector", "dataiter.util", "dataiter.data_frame"),
                            "the rendering shows the dtype label of every column",
                            only=lambda f: f.module.name != "dataiter.vector" or any(
                                t in f.name for t in ("label", "string", "repr", "str", "print", "format")))
    I = interp(repo)
    ctx.rule("FWD-override", "keywords passed at a dispatched self.m(...) call are accepted by every override; overrides forward their options")
    ctx.rule("EFF-render", "no write effect on the rendered object in the rendering call graph")
    ctx.rule("GRD-empty", "identity-less reductions reachable from rendering are guarded against empty operands")
    ctx.rule("GRD-null", "no subscript/attribute on a possibly-null geometry element without an is-not-None fact")
    ctx.rule("SIB-pad", "every cell list of a column block and the row numbers pass util.upad")
    ctx.rule("GRD-text", "the cells handed to util.upad are text: no tolist() export (missing -> None) on the way")
    ctx.trust("operation table sa/tables.py")
    ents = entries(repo)
    ctx.count("rendering entry points", len(ents), 12)

    # ---------------------------------------------------------- FWD-override
    n_disp = 0
    for base_q in (DF, VEC, LOD):
        base = repo.cls(base_q)
        subs = repo.subclasses(base)
        for m in base.methods.values():
            for f, c in calls_in(m):
                if not is_self_call(f, c):
                    continue
                name = c.func.attr
                overrides = [s.methods[name] for s in subs if name in s.methods]
                if not overrides or name not in ENTRY_NAMES:
                    continue
                for ov in overrides:
                    n_disp += 1
                    kws = [k.arg for k in c.keywords if k.arg is not None]
                    missing = [k for k in kws if not accepts_keyword(ov, k)]
                    npos = len(c.args)
                    too_many = npos > len(ov.params) - 1 and ov.vararg is None
                    ok = not missing and not too_many
                    ctx.ob("FWD-override", m, norm(c), c, ok,
                           f"override {ov.qualname} accepts {kws}" if ok else
                           f"dynamic dispatch can select {ov.qualname}, which does not accept keyword(s) {missing}: "
                           f"{m.qualname} raises TypeError for every {ov.cls.name} object",
                           clause="rendering never raises")
    # printers hand every option they accept to to_string()
    n_pr = 0
    for cq in (DF, VEC, LOD):
        pm = repo.cls(cq).methods.get("print_")
        if pm is None:
            continue
        tcalls = [c for f, c in calls_in(pm) if is_self_call(f, c) and c.func.attr == "to_string"]
        for p in pm.kwonly + pm.params[1:]:
            n_pr += 1
            fw = any(forwarded(c, p) for c in tcalls)
            ctx.ob("FWD-override", pm, f"print_ option {p} reaches to_string", tcalls[0] if tcalls else pm.node, fw,
                   f"{p} is passed on" if fw else
                   f"{pm.qualname} accepts {p!r} but does not pass it to to_string(): print_({p}=...) prints with the default",
                   clause="all max_rows/max_width/truncate_width settings")
    ctx.count("options of the print_ methods", n_pr, 4)
    # the renderers themselves read every option they accept (a default may replace a missing value, not a given one)
    from ..signatures import name_uses as _uses
    n_opt = 0
    for cq in (DF, VEC, LOD):
        for mname in ("to_string", "to_strings"):
            tm = repo.cls(cq).methods.get(mname)
            if tm is None:
                continue
            for p in tm.kwonly + tm.params[1:]:
                n_opt += 1
                from ..dataflow import defs_reaching as _dr
                us = [u for u in _uses(tm, p) if isinstance(u.ctx, ast.Load) and any(d.kind == "param" for d in _dr(tm, p, u))]
                ctx.ob("FWD-override", tm, f"{mname} option {p} is read", us[0] if us else tm.node, bool(us),
                       f"{p} is read at line(s) {sorted({u.lineno for u in us})}" if us else
                       f"{tm.qualname} accepts {p!r} but never reads it (it is overwritten by the default): {mname}({p}=...) renders with "
                       f"the default for every value", clause="all max_rows/max_width/truncate_width settings")
    ctx.count("options of the renderers", n_opt, 6)
    # multi-line cells are cut at the first line boundary of ANY kind (str.splitlines); split("\n") knows one kind only
    vts_ = repo.fn(f"{VEC}.to_strings")
    cuts = [c for _, c in calls_in(vts_) if isinstance(c.func, ast.Attribute) and c.func.attr in ("splitlines", "split", "partition")]
    narrow = [c for c in cuts if c.func.attr in ("split", "partition") and c.args and isinstance(c.args[0], ast.Constant)
              and c.args[0].value in ("\n", "\r\n", "\r")]
    ok = bool(cuts) and not narrow
    ctx.ob("SIB-pad", vts_, f"cells are cut into lines with {sorted({c.func.attr for c in cuts})}", narrow[0] if narrow else vts_.node, ok,
           "every kind of line boundary (\\n, \\r\\n, \\r, U+2028, ...) ends the first line" if ok else
           f"{norm(narrow[0])} splits at one kind of line break only: a cell containing \\r, \\r\\n or U+2028 is rendered over several "
           f"physical lines, so the table has more lines than rows", clause="one line per row")
    # util.upad pads to a common DISPLAY width: every width it computes comes from util.ulen, never from len() or the
    # code-point based str.rjust / ljust / center / format-spec padding
    up = repo.fn("dataiter.util.upad")
    bad_pad = [c for _, c in calls_in(up) if (isinstance(c.func, ast.Attribute) and c.func.attr in ("rjust", "ljust", "center", "zfill"))
               or repo.dotted(up, c.func) == "builtins.len"]
    bad_pad += [n for n in body_nodes(up.node) if isinstance(n, ast.FormattedValue) and n.format_spec is not None]
    ulens = [c for _, c in calls_in(up) if repo.dotted(up, c.func) == "dataiter.util.ulen"]
    ok = not bad_pad and len(ulens) >= 1
    ctx.ob("SIB-pad", up, f"upad measures with ulen ({len(ulens)} site(s)); code-point based padding: {[norm(b)[:40] for b in bad_pad] or 'none'}",
           bad_pad[0] if bad_pad else up.node, ok,
           "the common width and each cell's padding are display widths" if ok else
           "upad pads by code points (len / str.rjust / ljust / a format spec): cells containing wide (East Asian), zero-width or combining "
           "characters get the wrong number of spaces, so the lines of a block no longer have the same display width",
           clause="all lines of a block have the same display width")
    for ov in [m for c in repo.classes.values() for m in c.methods.values()
               if m.name in ENTRY_NAMES and m.cls is not None and repo.subclasses(m.cls) == []
               and any(isinstance(b, type(m.cls)) and m.name in b.methods for b in repo.mro(m.cls)[1:] if not isinstance(b, str))]:
        # override: each of its options must reach the base implementation
        basecalls = []
        for f, c in calls_in(ov):
            r = repo.resolve_call(f, c)
            if r[0] in ("pkg", "super"):
                targets = r[1] if r[0] == "pkg" else ([r[2]] if isinstance(r[2], FunctionInfo) else [])
                if any(t.name == ov.name and t is not ov for t in targets):
                    basecalls.append(c)
        for p in ov.kwonly + ov.params[1:]:
            fw = any(forwarded(c, p) for c in basecalls)
            ctx.ob("FWD-override", ov, f"option {p} forwarded to the base implementation", ov.node, fw,
                   f"{p} reaches the base {ov.name}" if fw else
                   f"override {ov.qualname} accepts {p!r} but never passes it on: the option is ignored for every value",
                   clause="all max_rows/max_width/truncate_width settings")
    ROWLEVEL = {"head", "tail", "slice", "slice_off", "filter", "filter_out", "sample", "unique", "drop_na", "sort"}
    for ov in [repo.fn(f"{GEO}.to_string")]:
        s0_ = ov.params[0]
        reb = [n for n in body_nodes(ov.node) if isinstance(n, ast.Assign) and any(norm(t) == s0_ for t in n.targets)]
        bad = []
        for n in reb:
            v = n.value
            meths = [c.func.attr for c in ast.walk(v) if isinstance(c, ast.Call) and isinstance(c.func, ast.Attribute)]
            if any(m in ROWLEVEL for m in meths):
                bad.append(n)
        ctx.ob("FWD-override", ov, f"frame handed to the base rendering: {[norm(n.value)[:60] for n in reb] or s0_}", bad[0] if bad else ov.node, not bad,
               "the override changes only the geometry column; row count and order reach the base rendering unchanged" if not bad else
               f"{norm(bad[0])}: the override cuts rows before delegating, so the base rendering no longer knows the total row count "
               f"('... N rows total' is never printed)", clause="when rows are cut the total row count is stated")
    ctx.count("dispatched entry-point calls x overrides", n_disp, 3)

    # ------------------------------------------------------------ EFF-render
    CACHE = {"._dt", "._re", "._str"}
    for m in ents:
        summ = I.summary(m)
        bad = []
        for ev in summ.events:
            a = ours(ev.target.alias)
            if not a or ev.kind == "obsoletes-call":
                continue
            if ev.kind == "attr-store" and ev.detail in CACHE:
                continue
            if ev.kind == "attr-store" and ev.detail == "._obsolete_warned":
                continue   # warn-once bookkeeping of ListOfDicts.__getattribute__ (C17)
            if ev.kind == "list-write" and ev.target.kind in ("list", "tuple"):
                continue
            bad.append(ev)
        ok = not bad
        why = "no write effect on receiver or arguments anywhere below this entry point"
        chain = []
        if bad:
            ev = bad[0]
            why = (f"{ev.kind} {ev.detail} reaches an object aliasing {sorted(ours(ev.target.alias))} "
                   f"({ev.target!r}): rendering changes the object")
            chain = [f"{c[0]}:{c[1]} {c[2]}" for c in ev.chain] or [f"{ev.fn.qualname}:{getattr(ev.node, 'lineno', 0)}"]
        ctx.ob("EFF-render", m, f"write effects of {m.name}", m.node, ok, why, chain=chain,
               clause="never changes the object")

    # ------------------------------------------------------------- GRD-empty
    reach = reachable_functions(repo, ents)
    n_sites = 0
    seen = set()
    for q, f in sorted(reach.items()):
        if f.parent is not None:
            continue
        if f.module.name in ("dataiter.aggregate", "dataiter.dt", "dataiter.regex"):
            continue
        for s in partial_sites(repo, f):
            if id(s.node) in seen:
                continue
            seen.add(id(s.node))
            if not _render_relevant(repo, s, reach):
                continue
            n_sites += 1
            ok, why, chain = discharge_reduction(repo, s)
            ctx.ob("GRD-empty", s.fn, s.text, s.node, ok, why, chain=chain, clause="zero-row or zero-column shape never raises")
    ctx.count("partial-operation sites in the rendering call graph", n_sites, 3)
    # GRD-num: int(x) / round-trip conversions of a limit option.  The renderers take their limits (max_rows, max_width,
    # truncate_width) as numbers compared with < / min(): math.inf is a legitimate "no limit" (Vector.to_strings' own default for
    # truncate_width is inf).  int() of such an option raises OverflowError for inf (ValueError for nan): a partial operation
    # on a value the statement covers.
    ctx.rule("GRD-num", "a limit option of a renderer is not passed through int(): inf is a legitimate limit")
    for q, f in sorted(reach.items()):
        if f.parent is not None or f.module.name in ("dataiter.aggregate", "dataiter.dt", "dataiter.regex"):
            continue
        opts = {p_ for p_ in list(f.params) + list(f.kwonly) if p_.startswith(("max_", "truncate_")) or p_ in ("width", "n")}
        if not opts:
            continue
        _par = {ch: pa for pa in ast.walk(f.node) for ch in ast.iter_child_nodes(pa)}

        def _finite_here(node):
            # the conversion sits under a test that the option is an integer type / finite: inf never reaches it
            p_ = node
            while p_ in _par:
                q_ = _par[p_]
                if isinstance(q_, ast.If) and any(p_ is b or any(p_ is w for w in ast.walk(b)) for b in q_.body):
                    t_ = norm(q_.test)
                    if ("isinstance(" in t_ and "float" not in t_) or "isfinite" in t_ or "inf" in t_:
                        return True
                p_ = q_
            return False
        for _f, c in calls_in(f, False):
            if norm(c.func) == "int" and c.args and any(isinstance(y, ast.Name) and y.id in opts for y in ast.walk(c.args[0])):
                if _finite_here(c):
                    ctx.ob("GRD-num", f, norm(c)[:60], c, True, "the conversion is reached only for integer-typed / finite limits", clause="never raises")
                    continue
                ctx.ob("GRD-num", f, norm(c)[:60], c, False,
                       f"`{norm(c)[:50]}` raises OverflowError when the limit is math.inf (no limit), which the comparison-based code accepts",
                       clause="never raises")
    # DataFrame.modify raises ValueError for a non-callable value when the frame is GROUPED (grouped modify applies functions
    # to the groups).  A renderer that replaces a column through modify(col=<value>) therefore fails for a grouped frame --
    # a state every public group_by() produces -- unless it is known to be ungrouped there.
    modify_fn = repo.functions.get(f"{DF}.modify")
    raises_grouped = modify_fn is not None and any(
        isinstance(r, ast.Raise) and any(k == "T" and "_group_colnames" in t for k, t in facts_at(modify_fn, r))
        and any(k in ("T", "F") and "callable(" in t for k, t in facts_at(modify_fn, r)) for r in body_nodes(modify_fn.node))
    n_mod = 0
    if raises_grouped:
        for q, f in sorted(reach.items()):
            if f.parent is not None or f.cls is None or f.name not in ("to_string", "to_strings", "__str__", "__repr__", "print_"):
                continue
            for _, c in calls_in(f, False):
                if not (isinstance(c.func, ast.Attribute) and c.func.attr == "modify" and c.keywords):
                    continue
                vals = [k.value for k in c.keywords if k.arg]
                noncall = [v for v in vals if not isinstance(v, ast.Lambda) and not (isinstance(v, ast.Name) and v.id in f.nested)]
                if not noncall:
                    continue
                n_mod += 1
                recv = norm(c.func.value)
                known_plain = any(k == "F" and t.endswith("._group_colnames") and recv in t or k == "T" and t == f"not {recv}._group_colnames"
                                  for k, t in facts_at(f, c)) or ".ungroup()" in recv
                ctx.ob("GRD-empty", f, norm(c)[:70], c, known_plain,
                       "the frame is known to be ungrouped here" if known_plain else
                       f"{norm(c)[:50]} hands modify() a value, not a function: for a grouped frame (after group_by) DataFrame.modify raises "
                       f"ValueError('... argument not callable'), so str() / print_() of a grouped {f.cls.name} fails",
                       clause="rendering never raises")
    ctx.note(f"renderers replacing a column through modify(col=value): {n_mod}")
    # "".splitlines() is the EMPTY list: the first line of a cell is taken only where something on the path speaks about the
    # cell or its lines (a width or line-count test); an unconditional lines[0] fails for a blank cell
    from ..dataflow import defs_reaching as _dr20
    n_first = 0
    for fn_ in (repo.fn(f"{VEC}.to_strings"),):
        for sub in [x for x in body_nodes(fn_.node) if isinstance(x, ast.Subscript) and isinstance(x.ctx, ast.Load)
                    and isinstance(x.slice, ast.Constant) and x.slice.value in (0, -1) and isinstance(x.value, ast.Name)]:
            ds = _dr20(fn_, sub.value.id, sub)
            srcs = [d.value for d in ds if d.value is not None]
            if not srcs or not all(isinstance(v, ast.Call) and isinstance(v.func, ast.Attribute) and v.func.attr in ("splitlines", "split")
                                   for v in srcs):
                continue
            n_first += 1
            cell = norm(srcs[0].func.value)
            # some test about the cell or its lines is evaluated on EVERY path to this access (a dominating test node; flag
            # temporaries such as is_too_wide = ulen(cell) > width are looked through)
            from ..cfg import cfg_of as _cfg20
            from ..facts import cfg_node_of as _cn20
            from ..forms import expand as _exp20
            cfg_ = _cfg20(fn_)
            here = _cn20(fn_, sub)
            about = []
            for tn in cfg_.nodes:
                if tn.kind != "test" or tn.ast is None or tn is here or here is None or not cfg_.dominates(tn, here):
                    continue
                raw = norm(tn.ast)
                tt = norm(_exp20(fn_, tn.ast, tn.ast, keep=tuple(n.id for n in ast.walk(srcs[0]) if isinstance(n, ast.Name)) + (sub.value.id,)))
                if sub.value.id in raw or cell in raw or sub.value.id in tt or cell in tt:
                    about.append(raw)
            ctx.ob("GRD-empty", fn_, f"{norm(sub)} of {norm(srcs[0])}", sub, bool(about),
                   f"taken under {about[:1]}" if about else
                   f"{norm(sub)} is evaluated for every cell, but {norm(srcs[0])} is the empty list for a blank cell (the missing value of a "
                   f"string column, an empty object element): rendering raises IndexError", clause="rendering never raises, for every dtype and missing value")
    ctx.note(f"first-line accesses on split cells: {n_first}")
    # a cell is cut when it CONTAINS a line boundary, not only when splitlines() gives more than one line: "abc\n" is one
    # line for splitlines() and two physical lines on the screen.  The cut condition therefore compares the cell with its
    # first line / its joined lines; counting lines alone misses a trailing terminator.
    vts2 = repo.fn(f"{VEC}.to_strings")
    from ..forms import expand as _exp20b
    n_cut = 0
    for tnode in [n for n in body_nodes(vts2.node) if isinstance(n, ast.If)]:
        tt = norm(_exp20b(vts2, tnode.test, tnode.test, keep=tuple(x.id for x in ast.walk(tnode.test) if isinstance(x, ast.Name))))
        counts = [c for c in ast.walk(tnode.test) if isinstance(c, ast.Compare) and isinstance(c.left, ast.Call) and norm(c.left.func) == "len"
                  and c.left.args and isinstance(c.left.args[0], ast.Name)]
        lines_vars = []
        for c in counts:
            ds = _dr20(vts2, c.left.args[0].id, c)
            if ds and all(d.value is not None and isinstance(d.value, ast.Call) and isinstance(d.value.func, ast.Attribute)
                          and d.value.func.attr == "splitlines" for d in ds):
                lines_vars.append((c.left.args[0].id, norm(ds[0].value.func.value)))
        for lv, cell in lines_vars:
            n_cut += 1
            whole = any(isinstance(c, ast.Compare) and len(c.ops) == 1 and isinstance(c.ops[0], (ast.NotEq, ast.Eq))
                        and {norm(c.left), norm(c.comparators[0])} & {cell}
                        and any(lv in norm(x) for x in (c.left, c.comparators[0])) for c in ast.walk(tnode.test))
            ctx.ob("SIB-pad", vts2, f"cut condition {norm(tnode.test)[:70]}", tnode, whole,
                   "the cell is compared with its first line / joined lines: any line boundary, a trailing one included, cuts it" if whole else
                   f"the cell is cut only when len({lv}) > 1: a cell with a single line boundary at its END (\"abc\\n\") is one line for "
                   f"splitlines(), keeps its terminator and is rendered over two physical lines -- the block has more lines than rows and "
                   f"lines of different width", clause="multi-line string ... one line per row; within a block all lines have the same display width")
    ctx.note(f"line-count cut conditions in to_strings: {n_cut}")

    # -------------------------------------------------------------- GRD-null
    geo = repo.cls(GEO)
    n_null = 0
    for m in geo.methods.values():
        if m.name not in ENTRY_NAMES:
            continue
        for node in ast.walk(m.node):
            if not isinstance(node, (ast.Subscript, ast.Attribute)) or not isinstance(node.value, ast.Name):
                continue
            if isinstance(node, ast.Attribute) and isinstance(m.module.parent.get(node), ast.Call) \
                    and m.module.parent.get(node).func is node and node.attr in ("get",):
                pass
            var = node.value.id
            src_iter = None
            cb = comprehension_binding(m, var, node)
            if cb and cb[0] == "comp":
                src_iter = cb[1]
            else:
                for d in defs_reaching(m, var, node):
                    if d.kind == "for":
                        src_iter = d.value
            if src_iter is None or not _is_geometry(src_iter, m):
                continue
            n_null += 1
            facts = facts_at(m, node)
            ok = any((t == "T" and txt in (f"{var} is not None", var, f"isinstance({var}, dict)"))
                     or (t == "F" and txt in (f"{var} is None", f"not {var}")) for t, txt in facts)
            ctx.ob("GRD-null", m, norm(node), node, ok,
                   f"{var} is known not to be None here" if ok else
                   f"{norm(node)} is evaluated for every element of the geometry column; a null geometry "
                   f"(allowed by the property) makes it raise TypeError",
                   chain=[f"{var} iterates {norm(src_iter)}", f"facts: {sorted(facts)}"],
                   clause="null geometries")
    ctx.count("element accesses on geometry cells", n_null, 1)

    # --------------------------------------------------------------- SIB-pad
    ts = repo.fn(f"{DF}.to_string")
    upads = [c for f, c in calls_in(ts) if repo.dotted(f, c.func) == "dataiter.util.upad"]
    joins = [c for f, c in calls_in(ts) if isinstance(c.func, ast.Attribute) and c.func.attr == "join"]
    # cells: the dict comprehension / loop that builds per-column blocks must wrap its list in util.upad
    from ..forms import contributions as _contrib, expand as _expand20
    from ..dataflow import defs_reaching as _dr20
    blocks = []
    ok = False
    for nm in sorted({n.targets[0].id for n in body_nodes(ts.node) if isinstance(n, ast.Assign) and isinstance(n.targets[0], ast.Name)
                      and isinstance(n.value, (ast.Dict, ast.DictComp, ast.List, ast.ListComp))}):
        cs = [x for x in _contrib(ts, nm) if x["iter"] is not None
              and norm(x["iter"]) in (f"{ts.params[0]}.items()", f"{ts.params[0]}")]
        if not cs:
            continue
        blocks = [x["node"] for x in cs]
        ok = True
        for x in cs:
            vals = [x["value"]]
            if isinstance(x["value"], ast.Name):
                vals = [d.value for d in _dr20(ts, x["value"].id, x["node"]) if d.value is not None]
            if not (vals and all(isinstance(v, ast.Call) and repo.dotted(ts, v.func) == "dataiter.util.upad" for v in vals)):
                ok = False
    ctx.ob("SIB-pad", ts, "column block = util.upad([name, dtype label, *cells])", blocks[0] if blocks else ts.node, ok,
           "every per-column cell list is padded to one width" if ok else
           "a per-column cell list is not passed through util.upad: lines of a block differ in width",
           clause="within a block all lines have the same display width")
    seps = [n for n in ast.walk(ts.node) if isinstance(n, ast.BinOp) and isinstance(n.op, ast.Mult)
            and any(isinstance(x, ast.Constant) and isinstance(x.value, str) and len(x.value) == 1 for x in (n.left, n.right))]
    for sp in seps:
        other = sp.right if isinstance(sp.left, ast.Constant) else sp.left
        ok = isinstance(other, ast.Call) and repo.dotted(ts, other.func) == "dataiter.util.ulen"
        ctx.ob("SIB-pad", ts, norm(sp), sp, ok,
               "the rule under the header is as wide as the DISPLAY width of the padded cells" if ok else
               f"the rule's length is {norm(other)}, not util.ulen(...): for names with double-width characters the rule is "
               f"narrower than the padded cells", clause="within a block all lines have the same display width")
    from ..pattern import pmatch as _pm, pstmt as _ps, text as _tx
    from ..forms import resolved_text as _rt
    S_ = ts.params[0]
    stm_ts = sorted((n for n in body_nodes(ts.node) if isinstance(n, ast.stmt)), key=lambda n: n.lineno)
    nb = None
    for n in stm_ts:
        b_ = _ps(f"_N = min({S_}.nrow, max_rows)", n) or _ps(f"_N = min(max_rows, {S_}.nrow)", n)
        if b_ is not None:
            nb = (n, b_["_N"])
    ctx.ob("SIB-pad", ts, _tx(nb[0]) if nb else "n = min(self.nrow, max_rows)", nb[0] if nb else ts.node, nb is not None,
           "min(nrow, max_rows) data rows are rendered" if nb else "the number of rendered rows is not min(self.nrow, max_rows)",
           clause="shows min(nrow, max_rows) data rows")
    if nb is not None:
        N_ = _tx(nb[1])
        cells = [n for n in ast.walk(ts.node) if isinstance(n, ast.Subscript) and isinstance(n.slice, ast.Slice)
                 and _pm(f"_C[:{N_}]", n) is not None]
        rng = [c for f_, c in calls_in(ts) if _pm(f"range({N_})", c) is not None]
        ok = bool(cells) and bool(rng)
        ctx.ob("SIB-pad", ts, f"cells column[:{N_}] and row numbers range({N_})", cells[0] if cells else ts.node, ok,
               "every column contributes its first n cells and the row numbers count the same n rows" if ok else
               "cells and row numbers are not both cut to the same n rows", clause="shows min(nrow, max_rows) data rows")
    foot = [n for n in ast.walk(ts.node) if isinstance(n, ast.If) and _pm(f"max_rows < {S_}.nrow", n.test) is not None
            or (isinstance(n, ast.If) and _pm(f"{S_}.nrow > max_rows", n.test) is not None)]
    ok = bool(foot) and any(isinstance(x, ast.JoinedStr) and f"{S_}.nrow" in _tx(x) and "total" in _tx(x) for x in ast.walk(foot[0]))
    ctx.ob("SIB-pad", ts, "footer '... N rows total' when max_rows < nrow", foot[0] if foot else ts.node, ok,
           "when rows are cut the total row count is stated" if ok else
           "no footer stating the total row count under max_rows < self.nrow", clause="when rows are cut the total row count is stated")
    vts = repo.fn(f"{VEC}.to_string")
    ok = any(isinstance(n, ast.If) and (_pm(f"max_elements < {vts.params[0]}.length", n.test) is not None) for n in ast.walk(vts.node)) and \
        any(isinstance(n, ast.Subscript) and _pm(f"{vts.params[0]}[:max_elements]", n) is not None for n in ast.walk(vts.node))
    ctx.ob("SIB-pad", vts, "Vector.to_string: first max_elements elements, '...' when cut", vts.node, ok,
           "the vector rendering shows the first max_elements elements and marks the cut" if ok else
           "Vector.to_string does not cut at max_elements / mark the cut", nontrivial=False, clause="all max_elements")
    lts = repo.fn(f"{LOD}.to_string")
    ok = any(isinstance(n, ast.If) and _pm(f"max_items < len({lts.params[0]})", n.test) is not None for n in ast.walk(lts.node)) and \
        any(_pm(f"{lts.params[0]}.head(max_items)", c) is not None for f_, c in calls_in(lts))
    ctx.ob("SIB-pad", lts, "ListOfDicts.to_string: head(max_items), total stated when cut", lts.node, ok,
           "the list rendering shows the first max_items items and states the total when cut" if ok else
           "ListOfDicts.to_string does not render head(max_items) / state the total", nontrivial=False, clause="all max_items")
    rn_ok = False
    for f, c in calls_in(ts):
        if c in upads:
            par = ts.module.parent.get(c)
            if isinstance(par, ast.Assign) and isinstance(par.targets[0], ast.Name) and "row" in par.targets[0].id:
                rn_ok = True
    ctx.ob("SIB-pad", ts, "row numbers = util.upad([...])", ts.node, rn_ok,
           "row-number column is padded" if rn_ok else "row numbers are not padded with util.upad",
           nontrivial=False, clause="within a block all lines have the same display width")
    if blocks:
        # the list handed to upad, with temporaries expanded
        pads = [c for c in upads if any(c is x or any(c is y for y in ast.walk(x)) for x in ast.walk(blocks[0]))] or \
            [c for c in upads if not (isinstance(ts.module.parent.get(c), ast.Assign) and "row" in getattr(ts.module.parent.get(c).targets[0], "id", ""))]
        b = pads[0] if pads else None
        elts = norm(_expand20(ts, b.args[0], b)) if isinstance(b, ast.Call) and b.args else ""
        loopvar = None
        for lp_ in [n for n in ast.walk(ts.node) if isinstance(n, (ast.For, ast.comprehension))]:
            it_ = lp_.iter
            if norm(it_) == f"{ts.params[0]}.items()" and isinstance(lp_.target, ast.Tuple) and len(lp_.target.elts) == 2:
                loopvar = norm(lp_.target.elts[0])
        # cells are TEXT: Vector.tolist() (and .item()-style exports) turn the missing value of a string vector -- '' -- into
        # None, which util.upad / ulen cannot measure.  The cell list is built with str(x) or taken as the string vector itself.
        ex_ = _expand20(ts, b.args[0], b) if isinstance(b, ast.Call) and b.args else None
        nones = [c_ for c_ in (ast.walk(ex_) if ex_ is not None else []) if isinstance(c_, ast.Call) and isinstance(c_.func, ast.Attribute)
                 and c_.func.attr == "tolist"]
        ctx.ob("GRD-text", ts, "cells handed to util.upad are text", nones[0] if nones else blocks[0], not nones,
               "no cell list is exported with tolist()" if not nones else
               f"{norm(nones[0])[:70]} exports the displayed cells with tolist(), which maps every missing value to None (a missing string is '' "
               f"and becomes None too): util.upad then measures None and raises TypeError for a column whose displayed cells are all blank "
               f"or contain a missing string", clause="never raises ... for every missing value")
        ok = (loopvar or "colname") in elts and "dtype_label" in elts and "to_strings" in elts
        ctx.ob("SIB-pad", ts, "block lists column name, dtype label and cells", blocks[0], ok,
               "name, dtype label and cells are all part of the padded list" if ok else
               f"padded list {elts} lacks the column name, the dtype label or the cells", nontrivial=False,
               clause="shows every column name, the dtype label of every column")


def _is_geometry(expr, fn):
    t = norm(expr)
    s0 = outermost(fn).params[0]
    return t in (f"{s0}.geometry", f"{s0}['geometry']", f'{s0}["geometry"]')


def _render_relevant(repo, site, reach):
    return True
