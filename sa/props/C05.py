"""C05 -- DataFrame joins follow first-match relational semantics and never lose rows."""
import ast
from ..common import calls_in, norm, DF, DFC, LOD, kw
from ..model import AnalysisError, body_nodes
from ..dataflow import defs_reaching
from ..facts import facts_at
from ..guards import lower_bound
from .shared import grd_empty, idx1, yields_of, row_index_of, enclosing_loop
from ..pattern import pmatch, pstmt, text, alpha, dump, find

EXPLANATION = (
    "Structural necessary conditions of the five DataFrame joins decided from source: (TS-other) typestate of the right-hand "
    "frame: _get_join_indices builds a key->row dict by comprehension (last key wins, missing keys would match), so at each of "
    "its four call sites the frame passed must have gone through drop_na(*by2) and unique(*by2) -- the four joins must agree; "
    "(IDX) left rows once, in order, own columns un-indexed copies in left_join, matched subset indexed by one found/src pair in "
    "inner/semi/anti with complementary operators; (SIB-5) a column filled with X.na_value is built with X.na_dtype of the same "
    "X; (GRD-bcast) a scalar broadcast DataFrameColumn(scalar, dtype, n) needs n >= 1 (the callee rejects nrow < 1), so joins of "
    "0-row left frames need another construction; (SIB-6) the (left,right) key mapping: _split_join_by picks x[0]/x[1], the "
    "reverse join of full_join receives the by-tuples reversed and keeps the left name; (GRD-empty) reductions reachable from the "
    "joins are guarded for empty operands; the typestate is interprocedural (required where the key->row dict is built, inherited "
    "from call sites for what the builder leaves open) and a join that takes right-hand values by row number indexes the very frame "
    "the dict was built over; full_join skips its reverse part only when no right row is left over, and hands on swapped by-pairs as "
    "sequences. Not decided: which rows match; full_join multiplicities."
)
ASSUMPTIONS = ["a dict comprehension keeps the last value for a repeated key", "np.where(src > -1) returns the matched positions in order"]

JOINS = ("inner_join", "left_join", "semi_join", "anti_join")


def method_chain(expr):
    """[(method, args text...)] applied to a base name: other.drop_na(*by2).unique(*by2)."""
    chain = []
    while isinstance(expr, ast.Call) and isinstance(expr.func, ast.Attribute):
        chain.append((expr.func.attr, [norm(a) for a in expr.args]))
        expr = expr.func.value
    return list(reversed(chain)), expr


def check(ctx):
    repo = ctx.repo
    from . import generic as _gen
    _gen.language_traps(ctx, _gen.anchor_functions(repo, "C05"), "the property holds for every input, on every call")
    _gen.bool_mask_dtype(ctx, _gen.module_functions(repo, "dataiter.vector", "dataiter.data_frame"),
                         "all joins succeed when either side is empty")
    _gen.total_functions(ctx, ["dataiter.data_frame.DataFrame._get_join_indices"])
    for r, t in (("TS-other", "right-hand frame reduced to non-missing unique keys before the key->row dict is built"),
                 ("IDX", "whole rows, own columns unchanged, one index pair"),
                 ("SIB-5", "NA value and NA dtype come from the same column"),
                 ("GRD-bcast", "scalar broadcast needs nrow >= 1"),
                 ("SIB-6", "(left,right) key name mapping"),
                 ("GRD-empty", "reductions guarded for empty operands")):
        ctx.rule(r, t)
    gji = repo.fn(f"{DF}._get_join_indices")
    # the lookup is a comprehension-built dict: last wins
    dcs = [n for n in ast.walk(gji.node) if isinstance(n, ast.DictComp)]
    needs_unique = bool(dcs)
    sites = []
    for name in JOINS:
        fn = repo.fn(f"{DF}.{name}")
        for f, c in calls_in(fn):
            if isinstance(c.func, ast.Attribute) and c.func.attr == "_get_join_indices":
                sites.append((fn, c))
    ctx.count("_get_join_indices call sites", len(sites), 4)
    if not dcs:
        raise AnalysisError("anchor vanished: key->row dict comprehension in _get_join_indices")
    # ---- the frame the dict enumerates and the key-name list that labels its key columns, inside the builder
    dc = dcs[0]
    # every answer of the builder comes from probing the lookup: no return avoids it, except when one side has no rows
    from ..cfg import cfg_of as _cfg05
    cfg_g = _cfg05(gji)
    dnode = cfg_g.node_of(dc, gji.module.parent)
    path_ = cfg_g.path_avoiding(lambda nd: nd is dnode)
    okp_ = path_ is None
    tests_ = []
    if path_ is not None:
        for a_, b_ in zip(path_, path_[1:]):
            if a_.kind == "test" and a_.ast is not None:
                lab_ = next((l for s_, l in a_.succ if s_ is b_), None)
                tests_.append((lab_, norm(a_.ast)))
        import re as _re05
        okp_ = any((l == "T" and _re05.search(r"\.nrow == 0|len\(\w+\) == 0|^not \w+\.nrow$|\.nrow < 1", t)) or
                   (l == "F" and _re05.search(r"^\w+\.nrow$|\.nrow > 0|\.nrow >= 1", t)) for l, t in tests_)
    ctx.ob("TS-other", gji, "every return of _get_join_indices follows the key->row lookup", dc, okp_,
           "no exit avoids the lookup (or only when a side has no rows)" if okp_ else
           f"a path through _get_join_indices answers `nothing matches` without consulting the lookup (under {tests_[-2:]}): rows whose "
           f"keys are equal as values (True == 1, a fixed-width and a variable-width string, an object column) are reported unmatched",
           clause="extended with the columns of the first right row whose key columns all equal its own")
    FR = None
    it = dc.generators[0].iter
    for n in ast.walk(it):
        if isinstance(n, ast.Attribute) and n.attr == "nrow" and isinstance(n.value, ast.Name):
            FR = n.value.id
    if FR is None:
        raise AnalysisError("cannot identify the frame the key->row dict of _get_join_indices is built over")
    KEYS = None
    for n in body_nodes(gji.node):
        if isinstance(n, (ast.GeneratorExp, ast.ListComp)) and len(n.generators) == 1 and isinstance(n.generators[0].iter, ast.Name) \
                and isinstance(n.generators[0].target, ast.Name) and not n.generators[0].ifs \
                and pmatch(f"{FR}[{n.generators[0].target.id}]", n.elt) is not None:
            KEYS = n.generators[0].iter.id
    if KEYS is None:
        # the key columns are there but pass through a conversion first (a local lambda is beta-reduced by canon): keys are
        # then compared as CONVERTED values -- every conversion that is not injective on some admitted dtype (a datetime
        # unit change truncates ns, as_string / as_float merge distinct keys) pairs rows whose keys differ
        for n in body_nodes(gji.node):
            if isinstance(n, (ast.GeneratorExp, ast.ListComp)) and len(n.generators) == 1 and isinstance(n.generators[0].iter, ast.Name) \
                    and isinstance(n.generators[0].target, ast.Name) and not n.generators[0].ifs:
                colx = f"{FR}[{n.generators[0].target.id}]"
                convs = [c for c in ast.walk(n.elt) if isinstance(c, ast.Call) and isinstance(c.func, ast.Attribute)
                         and (c.func.attr.startswith("as_") or c.func.attr in ("astype", "view", "round", "str", "lower", "strip"))
                         and colx in norm(c.func.value)]
                if not convs and isinstance(n.elt, ast.Call) and isinstance(n.elt.func, ast.Name) and len(n.elt.args) == 1 and norm(n.elt.args[0]) == colx:
                    # through a local helper: f = lambda x: x.as_datetime() if x.is_datetime() else x
                    for d_ in defs_reaching(gji, n.elt.func.id, n):
                        if isinstance(d_.value, ast.Lambda) and len(d_.value.args.args) == 1:
                            pn_ = d_.value.args.args[0].arg
                            convs += [c for c in ast.walk(d_.value.body) if isinstance(c, ast.Call) and isinstance(c.func, ast.Attribute)
                                      and (c.func.attr.startswith("as_") or c.func.attr in ("astype", "view", "round", "str", "lower", "strip"))
                                      and norm(c.func.value) == pn_]
                if convs and colx in norm(n.elt):
                    ctx.ob("TS-other", gji, norm(n.elt)[:80], n, False,
                           f"the key columns enter the lookup as {norm(convs[0])[:50]}, not as they are: keys that differ but convert to the same "
                           f"value (datetime64[ns] keys less than the target unit apart; numbers that round or print alike) are matched, "
                           f"and with several such right rows the one kept is no longer the first equal one",
                           clause="never pairs rows with unequal keys")
                    KEYS = n.generators[0].iter.id
    if KEYS is None:
        raise AnalysisError("cannot identify the key-name list of the right-hand frame in _get_join_indices")

    def chain_state(value, keys):
        """Transitions a method chain applies: drop_na(*keys) -> NONMISSING, unique(*keys) -> UNIQUE; (state, base expr)."""
        ch, base = method_chain(value)
        st = set()
        for meth, args in ch:
            if meth == "drop_na" and args == [f"*{keys}"]:
                st.add("NONMISSING")
            elif meth == "unique" and args == [f"*{keys}"]:
                st.add("UNIQUE")
            elif meth in ("copy", "deepcopy"):
                pass
            else:
                return None, base       # an operation the typestate does not know: state lost
        return st, base

    def state_of(fn, name, at, keys, chain_txt, depth=0):
        """(state, open) -- open is True when some path leaves the frame as the function's own parameter."""
        states, opened = [], False
        for d in defs_reaching(fn, name, at):
            if d.kind == "param":
                opened = True
                states.append(set())
                chain_txt.append(f"{fn.name}: parameter {name} as given")
            elif d.kind == "assign" and d.value is not None and isinstance(d.target, ast.Name):
                st, base = chain_state(d.value, keys)
                chain_txt.append(f"{fn.name}: {name} = {norm(d.value)}")
                if st is None:
                    states.append(set())
                elif isinstance(base, ast.Name) and depth < 4:
                    st0, op0 = state_of(fn, base.id, d.node.ast, keys, chain_txt, depth + 1)
                    opened = opened or op0
                    states.append(st | st0)
                else:
                    states.append(st)
            else:
                states.append(set())
                chain_txt.append(f"{fn.name}: {name} defined by {d.kind}")
        out = set.intersection(*states) if states else set()
        return out, opened

    def formal_index(fn, pname):
        ps = [p for p in fn.params if p not in ("self", "cls")]
        return ps.index(pname) if pname in ps else None

    inner_txt = []
    st_in, open_in = state_of(gji, FR, dc, KEYS, inner_txt)
    # is the key-name list the builder's own parameter, or computed inside (then call sites cannot name it)
    keys_is_param = all(d.kind == "param" for d in defs_reaching(gji, KEYS, dc))
    fr_idx = formal_index(gji, FR)
    k_idx = formal_index(gji, KEYS)
    states = {}
    for fn, c in sites:
        chain_txt = list(inner_txt)
        state = set(st_in)
        if open_in:
            arg = c.args[fr_idx] if fr_idx is not None and fr_idx < len(c.args) else None
            karg = c.args[k_idx] if (keys_is_param and k_idx is not None and k_idx < len(c.args)) else None
            if isinstance(arg, ast.Name) and (isinstance(karg, ast.Name) or not keys_is_param):
                st_c, _ = state_of(fn, arg.id, c, karg.id if karg is not None else KEYS, chain_txt)
                state |= st_c
        states[fn.name] = state
        ok = {"NONMISSING", "UNIQUE"} <= state
        miss = sorted({"NONMISSING", "UNIQUE"} - state)
        ctx.ob("TS-other", fn, norm(c), c, ok,
               "the frame the key->row dict is built over is drop_na(*keys).unique(*keys): first match per key, missing keys never match" if ok else
               f"right-hand frame reaches the key->row dict in state {sorted(state) or ['RAW']} (missing {miss}): "
               + ("rows whose key is missing can match; " if "NONMISSING" in miss else "")
               + ("with duplicate right keys the LAST duplicate wins instead of the first; " if "UNIQUE" in miss else "")
               + "and the four joins no longer agree (semi_join and anti_join must partition the left frame)",
               chain=chain_txt, clause="rows with a missing key never match; first right row; semi/anti partition")
    same = len({frozenset(s_) for s_ in states.values()}) == 1
    ctx.ob("TS-other", gji, "the four joins normalise the right-hand frame identically", gji.node, same,
           "all four call sites agree" if same else f"call sites disagree: { {k: sorted(v) for k, v in states.items()} }",
           nontrivial=False, clause="semi_join and anti_join together partition the left frame")
    # ---- identity: the rows `src` counts are rows of the frame the dict was built over; a join that takes right-hand
    # values with src must index THAT frame -- the caller's own variable when the builder does not rebind it, else the
    # frame the builder hands back.
    rebinds = any(d.kind != "param" for d in defs_reaching(gji, FR, dc))
    ret_idx = None
    for r in [n for n in body_nodes(gji.node) if isinstance(n, ast.Return) and n.value is not None]:
        elts = r.value.elts if isinstance(r.value, ast.Tuple) else [r.value]
        for k_, e in enumerate(elts):
            if isinstance(e, ast.Name) and e.id == FR and \
                    {id(d.node) for d in defs_reaching(gji, FR, r)} == {id(d.node) for d in defs_reaching(gji, FR, dc)}:
                ret_idx = k_
    n_cons = 0
    for fn, c in sites:
        stmt = fn.module.parent.get(c)
        unpack = stmt.targets[0] if isinstance(stmt, ast.Assign) else None
        bound = [e.id for e in unpack.elts if isinstance(e, ast.Name)] if isinstance(unpack, ast.Tuple) else \
            ([unpack.id] if isinstance(unpack, ast.Name) else [])
        for loop in [n for n in body_nodes(fn.node) if isinstance(n, ast.For)]:
            b = pmatch("_X.items()", loop.iter)
            if b is None or not isinstance(b["_X"], ast.Name) or b["_X"].id == fn.params[0]:
                continue
            X = b["_X"].id
            uses_idx = any(isinstance(n, ast.Subscript) and any(isinstance(m, ast.Name) and m.id in bound for m in ast.walk(n.slice))
                           for s_ in loop.body for n in ast.walk(s_))
            if not uses_idx:
                continue
            n_cons += 1
            xdefs = {id(d.node) for d in defs_reaching(fn, X, loop)}
            if not rebinds:
                arg = c.args[fr_idx] if fr_idx is not None and fr_idx < len(c.args) else None
                okc = isinstance(arg, ast.Name) and arg.id == X and xdefs == {id(d.node) for d in defs_reaching(fn, X, c)}
                why = (f"{X} is the frame handed to _get_join_indices, unchanged since" if okc else
                       f"the rows numbered by the index come from {norm(arg) if arg is not None else '?'} but values are taken from {X}")
            else:
                cn = __import__("sa.facts", fromlist=["cfg_node_of"]).cfg_node_of(fn, c)
                okc = ret_idx is not None and isinstance(unpack, ast.Tuple) and ret_idx < len(unpack.elts) \
                    and isinstance(unpack.elts[ret_idx], ast.Name) and unpack.elts[ret_idx].id == X and xdefs == {id(cn)}
                why = (f"{X} is the reduced frame returned by _get_join_indices" if okc else
                       f"_get_join_indices numbers the rows of its own reduced copy of the right-hand frame (drop_na/unique applied "
                       f"inside), but {fn.name} takes the values from its own unreduced {X}: whenever a right row with a missing or "
                       f"duplicate key precedes the match, src points at a different row and values of an unequal key are attached")
            ctx.ob("TS-other", fn, f"values taken from {X} with the row numbers of the index", loop, okc, why,
                   clause="extended with the columns of the first right row whose key columns all equal its own")
    ctx.count("joins taking right-hand values by row number", n_cons, 2)
    ok = needs_unique and any("range(" in norm(d.generators[0].iter) and "nrow" in norm(d.generators[0].iter) for d in dcs)
    ctx.ob("TS-other", gji, norm(dcs[0]) if dcs else "lookup dict", dcs[0] if dcs else gji.node, ok,
           "lookup maps each key tuple to its row number over all rows of the right-hand frame" if ok else
           "lookup dict is not built over all rows of the right-hand frame", nontrivial=False)
    # not-found marker and found positions
    wh = [c for f, c in calls_in(gji) if repo.dotted(f, c.func) in ("numpy.where", "numpy.flatnonzero", "numpy.nonzero")]
    ok = bool(wh) and any("> -1" in norm(c) or ">= 0" in norm(c) or "!= -1" in norm(c) for c in wh) and \
        any(isinstance(c.func, ast.Attribute) and c.func.attr == "get" and len(c.args) == 2 and norm(c.args[1]) == "-1"
            for f, c in calls_in(gji))
    ctx.ob("TS-other", gji, "src = lookup.get(key, -1); found = where(src > -1)", wh[0] if wh else gji.node, ok,
           "unmatched rows are marked -1 and exactly the others are 'found'" if ok else
           "the not-found marker and the test selecting found rows do not correspond", clause="never pairs rows with unequal keys")
    # ------------------------------------------------------------------ IDX
    for name, ops in (("inner_join", {"index", "take"}), ("semi_join", {"index", "take"}), ("anti_join", {"delete"})):
        fn = repo.fn(f"{DF}.{name}")
        idx1(ctx, fn, "whole rows", expect_ops=ops, rule="IDX")
    lj = repo.fn(f"{DF}.left_join")
    ys = yields_of(lj)
    own = [y for y in ys if enclosing_loop(lj, y) is not None and norm(enclosing_loop(lj, y).iter) == f"{lj.params[0]}.items()"]
    ctx.count("left_join yields of own columns", len(own), 1)
    for y in own:
        colexpr, idx, op = row_index_of(y.value.elts[1])
        ok = idx is None and isinstance(colexpr, ast.Name)
        ctx.ob("IDX", lj, f"yield {norm(y.value)}", y, ok,
               "every left row exactly once, in order: own columns are yielded whole" if ok else
               f"left_join indexes its own columns with {norm(idx) if idx is not None else '?'}: left rows can be dropped or reordered",
               clause="left_join returns every left row exactly once, in order and with its own columns unchanged")
    inn = repo.fn(f"{DF}.inner_join")
    ys_i = yields_of(inn)
    unpack = [n for n in body_nodes(inn.node) if isinstance(n, ast.Assign) and isinstance(n.targets[0], ast.Tuple)
              and isinstance(n.value, ast.Call) and isinstance(n.value.func, ast.Attribute) and n.value.func.attr == "_get_join_indices"]
    ok = False
    desc = "found, src = self._get_join_indices(...)"
    # positions of `found` and `src` in the tuple the index builder returns
    pos_f = pos_s = None
    for r_ in [n for n in body_nodes(gji.node) if isinstance(n, ast.Return) and isinstance(n.value, ast.Tuple)]:
        for k_, e in enumerate(r_.value.elts):
            if not isinstance(e, ast.Name):
                continue
            dv = [d.value for d in defs_reaching(gji, e.id, r_) if d.value is not None]
            if dv and all(isinstance(v, ast.Call) and repo.dotted(gji, v.func) in ("numpy.where", "numpy.flatnonzero", "numpy.nonzero") for v in dv):
                pos_f = k_
                inner = {m.id for v in dv for m in ast.walk(v) if isinstance(m, ast.Name)}
                for k2, e2 in enumerate(r_.value.elts):
                    if isinstance(e2, ast.Name) and e2.id in inner and k2 != k_:
                        pos_s = k2
    if unpack and pos_f is not None and pos_s is not None and len(unpack[0].targets[0].elts) > max(pos_f, pos_s):
        F, SRC = text(unpack[0].targets[0].elts[pos_f]), text(unpack[0].targets[0].elts[pos_s])
        own_iter = f"{inn.params[0]}.items()"
        idx_self = {norm(row_index_of(y.value.elts[1])[1]) for y in ys_i
                    if enclosing_loop(inn, y) is not None and norm(enclosing_loop(inn, y).iter) == own_iter
                    and row_index_of(y.value.elts[1])[1] is not None}
        idx_other = {norm(row_index_of(y.value.elts[1])[1]) for y in ys_i
                     if enclosing_loop(inn, y) is not None and norm(enclosing_loop(inn, y).iter) != own_iter
                     and row_index_of(y.value.elts[1])[1] is not None}
        ok = idx_self == {F} and idx_other == {f"{SRC}[{F}]"}
        desc = f"left rows {sorted(idx_self)} / right rows {sorted(idx_other)}"
    ctx.ob("IDX", inn, desc, inn.node, ok,
           "matched left rows and their right rows are selected by the same found/src pair" if ok else
           "left and right columns of inner_join are selected by indices that do not correspond",
           clause="inner_join is exactly the matched subset")
    # GRD-src: src holds -1 for the rows without a match.  It may index a column only through the found mask
    # (column[src[found]]); column[src] reads the LAST row for every unmatched row and raises IndexError when the right
    # frame has no rows -- also when it is evaluated "only to be masked afterwards" (np.where(src > -1, column[src], na)).
    ctx.rule("GRD-src", "the match positions index a column only after the not-found marker has been masked out")
    n_src = 0
    for name in ("inner_join", "left_join"):
        fn = repo.fn(f"{DF}.{name}")
        up = [n for n in body_nodes(fn.node) if isinstance(n, ast.Assign) and isinstance(n.targets[0], ast.Tuple)
              and isinstance(n.value, ast.Call) and isinstance(n.value.func, ast.Attribute) and n.value.func.attr == "_get_join_indices"]
        if not up or pos_s is None or len(up[0].targets[0].elts) <= pos_s:
            continue
        SRC_ = text(up[0].targets[0].elts[pos_s])
        for sub in [n for n in body_nodes(fn.node) if isinstance(n, ast.Subscript) and isinstance(n.ctx, ast.Load)]:
            if norm(sub.value) == SRC_:
                n_src += 1
                continue
            if norm(sub.slice) == SRC_:
                n_src += 1
                ctx.ob("GRD-src", fn, norm(sub), sub, False,
                       f"{norm(sub)} indexes with the unmasked match positions: unmatched rows carry -1, so the expression reads the last "
                       f"row for them and raises IndexError (index -1 is out of bounds for size 0) when the right frame is empty or nothing "
                       f"can match -- even if the values are discarded afterwards", clause="all joins succeed when either side is empty or nothing matches")
    ctx.count("uses of the match positions in inner_join / left_join", n_src, 2)
    for name in ("inner_join", "left_join"):
        fn = repo.fn(f"{DF}.{name}")
        gj = [c for _, c in calls_in(fn) if isinstance(c.func, ast.Attribute) and c.func.attr == "_get_join_indices"]
        rname = norm(gj[0].args[0]) if gj and gj[0].args else "other"
        by2n = norm(gj[0].args[2]) if gj and len(gj[0].args) > 2 else "by2"
        loops = [n for n in ast.walk(fn.node) if isinstance(n, ast.For) and norm(n.iter) == f"{rname}.items()"]
        ok = bool(loops)
        for l in loops:
            skips = [norm(s.test) for s in l.body if isinstance(s, ast.If) and any(isinstance(x, ast.Continue) for x in s.body)]
            ok = ok and any(f"in {by2n}" in s for s in skips) and any(f"in {fn.params[0]}" in s for s in skips)
        ctx.ob("IDX", fn, "right columns: skip key columns and names already present", loops[0] if loops else fn.node, ok,
               "key columns of the right side and clashing names are not copied" if ok else
               "right-hand key columns / clashing names are not skipped: left columns can be overwritten by right ones",
               nontrivial=False, clause="own columns unchanged")
    # ---------------------------------------------------------------- SIB-5
    n_pair = 0
    for q in (f"{DF}.left_join", f"{DF}.rbind"):
        fn = repo.fn(q)
        scope = [fn] + list(fn.nested.values())
        for f in scope:
            vals = [n for n in body_nodes(f.node) if isinstance(n, ast.Attribute) and n.attr == "na_value"]
            dts = [n for n in body_nodes(f.node) if isinstance(n, ast.Attribute) and n.attr == "na_dtype"]
            if not vals and not dts:
                continue
            n_pair += 1
            a = {norm(n.value) for n in vals}
            b = {norm(n.value) for n in dts}
            ok = a == b and len(a) == 1
            ctx.ob("SIB-5", f, f"na_value of {sorted(a)} / na_dtype of {sorted(b)}", (vals + dts)[0], ok,
                   "missing value and the dtype able to hold it come from the same column" if ok else
                   "NA value and NA dtype are taken from different columns (or one of them is missing): the fill value "
                   "may not be representable in the column's type", clause="missing values in a type able to hold them")
    ctx.count("NA-pair sites", n_pair, 2)
    # ------------------------------------------------------------ GRD-bcast
    n_b = 0
    for name in ("left_join", "full_join", "inner_join"):
        fn = repo.fn(f"{DF}.{name}")
        for f, c in calls_in(fn):
            if repo.dotted(f, c.func) != DFC:
                continue
            v = c.args[0] if c.args else None
            nexpr = c.args[2] if len(c.args) > 2 else kw(c, "nrow")
            if v is None or nexpr is None:
                continue
            scalar = isinstance(v, ast.Constant)
            if isinstance(v, ast.Name):
                ds = defs_reaching(f, v.id, c)
                scalar = bool(ds) and all(d.value is not None and (isinstance(d.value, ast.Constant) or
                                          (isinstance(d.value, ast.Attribute) and d.value.attr == "na_value")) for d in ds)
            if isinstance(v, ast.Attribute) and v.attr == "na_value":
                scalar = True
            if not scalar:
                continue
            n_b += 1
            lb = lower_bound(repo, f, nexpr, c)
            ok = lb is not None and lb >= 1
            ctx.ob("GRD-bcast", f, norm(c), c, ok,
                   f"row count {norm(nexpr)} >= {lb}" if ok else
                   f"a scalar is broadcast to {norm(nexpr)} rows, which can be 0: DataFrameColumn rejects nrow < 1 "
                   f"('Bad arguments for broadcast'), so the join raises when the left frame has no rows",
                   clause="all joins succeed when either side is empty")
    ctx.note(f"{n_b} scalar broadcast site(s) in the joins")
    # ---------------------------------------------------------------- SIB-6
    s1 = repo.fn(f"{DF}._split_join_by")
    s2 = repo.fn(f"{LOD}._split_join_by")
    def _core(fn_):
        # the splitting logic itself: docstrings and leading argument validations (`if ...: raise`) aside
        body = [x for x in alpha(fn_.node).body if not (isinstance(x, ast.Expr) and isinstance(x.value, ast.Constant))]
        while body and isinstance(body[0], ast.If) and not body[0].orelse and all(isinstance(y, ast.Raise) for y in body[0].body):
            body = body[1:]
        return [dump(x) for x in body]
    d1, d2 = _core(s1), _core(s2)
    ctx.ob("SIB-6", s1, "_split_join_by: DataFrame == ListOfDicts", s1.node, d1 == d2,
           "both classes split by-tuples identically" if d1 == d2 else "DataFrame and ListOfDicts split (left,right) keys differently",
           nontrivial=False, clause="key columns may be named differently on the two sides")
    lcs = [n for n in ast.walk(s1.node) if isinstance(n, ast.ListComp)]
    picks = []
    for lc in lcs:
        e = lc.elt
        if isinstance(e, ast.IfExp) and isinstance(e.orelse, ast.Subscript):
            picks.append(norm(e.orelse.slice))
    tgt_order = []
    for r in [n for n in ast.walk(s1.node) if isinstance(n, ast.Return)]:
        tgt_order = [norm(x) for x in r.value.elts] if isinstance(r.value, ast.Tuple) else []
    assigns = {norm(n.targets[0]): n.value for n in s1.node.body if isinstance(n, ast.Assign)}
    order_ok = False
    if len(tgt_order) == 2 and all(t in assigns for t in tgt_order):
        p = []
        for t in tgt_order:
            v = assigns[t]
            if isinstance(v, ast.ListComp) and isinstance(v.elt, ast.IfExp) and isinstance(v.elt.orelse, ast.Subscript):
                p.append(norm(v.elt.orelse.slice))
        order_ok = p == ["0", "1"]
    ctx.ob("SIB-6", s1, "by1 = x[0], by2 = x[1]", s1.node, order_ok,
           "left names are the first, right names the second element of each by-tuple" if order_ok else
           "the left/right elements of the by-tuples are swapped or not taken by position",
           clause="key columns may be named differently on the two sides")
    fj = repo.fn(f"{DF}.full_join")
    P, O, BY = fj.params[0], fj.params[1], fj.vararg
    stm = sorted((n for n in body_nodes(fj.node) if isinstance(n, ast.stmt)), key=lambda n: n.lineno)

    def first(pattern, env=None):
        for n in stm:
            bb = pstmt(pattern, n, dict(env or {}))
            if bb is not None:
                return n, bb
        return None, None
    sa_, ba_ = first(f"_A = {P}.modify(_aid_=__)")
    sb_, bb_ = first(f"_B = {O}.modify(_bid_=__)")
    if ba_ is None or bb_ is None:
        raise AnalysisError("DataFrame.full_join: the synthetic row ids _aid_/_bid_ are no longer attached with modify(); re-confirm SIB-6")
    env = {"_A": ba_["_A"], "_B": bb_["_B"]}
    sab, bab = first(f"_AB = _A.left_join(_B, *{BY})", env)
    ctx.ob("SIB-6", fj, text(sab) if sab else "ab = a.left_join(b, *by)", sab or fj.node, bab is not None,
           "forward join: left frame joined with the right frame by the keys as given" if bab is not None else
           "the forward join is not a.left_join(b, *by)", nontrivial=False)
    ctx.count("left_join calls in full_join", len([c for _, c in calls_in(fj) if isinstance(c.func, ast.Attribute) and c.func.attr == "left_join"]), 2)
    if bab is not None:
        env["_AB"] = bab["_AB"]
        san, ban = first("_B = _B.anti_join(_AB, '_bid_')", env)
        if ban is None:
            # the remaining right rows may get a name of their own
            san, ban = first("_R = _B.anti_join(_AB, '_bid_')", env)
            if ban is not None:
                env["_BR"] = ban["_R"]
        anti = [c for _, c in calls_in(fj) if isinstance(c.func, ast.Attribute) and c.func.attr == "anti_join"]
        ctx.ob("SIB-6", fj, text(anti[0]) if anti else "b = b.anti_join(ab, '_bid_')", anti[0] if anti else fj.node, ban is not None and len(anti) == 1,
               "right rows still to be added are those whose synthetic row id does not occur in the left-join result" if ban is not None else
               "unused right rows are not determined by the synthetic row id against the left-join result: left_join consumes only the "
               "FIRST right row per key, so further right rows sharing a matched key are neither joined nor appended -- they vanish",
               clause="full_join contains every right row at least once")
    BREM = env.get("_BR", env["_B"])
    rev = [c for _, c in calls_in(fj) if isinstance(c.func, ast.Attribute) and c.func.attr == "left_join" and text(c.func.value) == text(BREM)]
    for c in rev:
        star = [a for a in c.args if isinstance(a, ast.Starred)]
        okr = bool(c.args) and text(c.args[0]) == text(env["_A"]) and bool(star)
        swapped = False
        # where the reversed by-list is built: in full_join itself, or in a helper given `by`
        OWNER, LISTNAME, BYN, AT = fj, None, BY, c
        if okr and isinstance(star[0].value, ast.Name) and star[0].value.id != BY:
            LISTNAME = star[0].value.id
        elif okr and isinstance(star[0].value, ast.Call) and len(star[0].value.args) == 1 and norm(star[0].value.args[0]) == BY:
            r_ = repo.resolve_call(fj, star[0].value)
            if r_[0] == "pkg" and len(r_[1]) == 1 and len(r_[1][0].params) == 1:
                OWNER = r_[1][0]
                BYN = OWNER.params[0]
                rets_h = [n for n in body_nodes(OWNER.node) if isinstance(n, ast.Return) and isinstance(n.value, ast.Name)]
                if len(rets_h) == 1:
                    LISTNAME, AT = rets_h[0].value.id, rets_h[0]
        if LISTNAME is not None:
            from ..forms import contributions
            fj_, BY_ = OWNER, BYN
            cs = contributions(fj_, LISTNAME, AT)
            srcs = {norm(x["iter"]) for x in cs if x["iter"] is not None}
            # a contributed local name stands for whatever reaches it (item = tuple(reversed(item)) under an if)
            cs2 = []
            for x in cs:
                v = x["value"]
                if isinstance(v, ast.Name):
                    ds = defs_reaching(fj_, v.id, x["node"])
                    if ds and all(d.kind in ("assign", "for") for d in ds):
                        for d in ds:
                            y = dict(x)
                            y["value"] = d.value if d.kind == "assign" else v
                            cs2.append(y)
                        continue
                cs2.append(x)
            cs = cs2
            vals = [norm(x["value"]) for x in cs if x["value"] is not None]
            # every element comes from iterating by; tuple elements are reversed, plain names kept
            if cs and srcs == {BY_} and any("reversed(" in v or "[::-1]" in v for v in vals) \
                    and all(("reversed(" in v or "[::-1]" in v) or v == norm(x["target"]) or " if " in v for v, x in zip(vals, [y for y in cs if y["value"] is not None])):
                swapped = True
            # the swapped pairs are indexed again (x[0] / x[1] in _split_join_by): they must be sequences, not iterators
            lazy = []
            for x in cs:
                v = x["value"]
                if v is None:
                    continue
                for leaf, _f in __import__("sa.forms", fromlist=["split_ifexp"]).split_ifexp(v):
                    if isinstance(leaf, ast.Call) and isinstance(leaf.func, ast.Name) and leaf.func.id in ("reversed", "map", "iter", "zip", "filter"):
                        lazy.append(leaf)
            if swapped and lazy:
                ctx.ob("SIB-6", fj, f"{norm(lazy[0])} handed on as a by-pair", lazy[0], False,
                       f"the swapped pair is the iterator {norm(lazy[0])}: _split_join_by indexes a pair with x[0] / x[1], which an iterator "
                       f"does not support -- every full_join with differently named keys raises TypeError",
                       clause="key columns may be named differently on the two sides")
        ctx.ob("SIB-6", fj, text(c), c, okr and swapped,
               "reverse join receives the by-tuples with left/right swapped" if (okr and swapped) else
               f"reverse join {text(c)} swaps the operands but reuses the by-tuples unswapped: renamed keys are looked up on the wrong side",
               clause="key columns may be named differently on the two sides")
    # the shortcut that skips the reverse part is taken only when no right row is left over
    all_rets = [n for n in body_nodes(fj.node) if isinstance(n, ast.Return)]
    B_ = text(BREM)
    EMPTY = {("T", f"{B_}.nrow == 0"), ("T", f"0 == {B_}.nrow"), ("T", f"{B_}.nrow < 1"), ("F", f"{B_}.nrow"), ("F", f"{B_}.nrow > 0"),
             ("F", f"{B_}.nrow >= 1"), ("F", f"{B_}.nrow != 0"), ("T", f"{B_}.nrow <= 0")}
    ba_names = set()
    for c in rev:
        st_ = fj.module.parent.get(c)
        if isinstance(st_, ast.Assign) and isinstance(st_.targets[0], ast.Name):
            ba_names.add(st_.targets[0].id)

    def mentions_reverse(expr, at, depth=3):
        for nm in [m for m in ast.walk(expr) if isinstance(m, ast.Name)]:
            if nm.id in ba_names:
                return True
            if depth:
                for d in defs_reaching(fj, nm.id, at):
                    if d.kind == "assign" and d.value is not None and d.node is not None and mentions_reverse(d.value, d.node.ast, depth - 1):
                        return True
        return False
    for r_ in all_rets:
        if r_.value is None or mentions_reverse(r_.value, r_):
            continue
        fr = facts_at(fj, r_)
        about_b = [(k, t) for k, t in fr if f"{B_}.nrow" in t or f"len({B_})" in t]
        if not about_b:
            continue
        okb = any(x in EMPTY for x in about_b)
        ctx.ob("SIB-6", fj, f"shortcut {text(r_)[:60]} under {about_b}", r_, okb,
               "the reverse part is skipped only when every right row has been joined" if okb else
               f"full_join returns the left join alone under {about_b}, i.e. also when right rows are still left over: those rows are "
               f"missing from the result", clause="full_join contains every left row and every right row at least once")
    ren = [n for n in ast.walk(fj.node) if isinstance(n, ast.Assign) and isinstance(n.targets[0], ast.Subscript)
           and isinstance(n.value, ast.Call) and isinstance(n.value.func, ast.Attribute) and n.value.func.attr == "pop"]
    ok = bool(ren) and all(pmatch("_X[0]", n.targets[0].slice) is not None and n.value.args and pmatch("_X[1]", n.value.args[0], {"_X": pmatch("_X[0]", n.targets[0].slice)["_X"]}) is not None
                           and text(n.targets[0].value) == text(n.value.func.value) for n in ren)
    ctx.ob("SIB-6", fj, text(ren[0]) if ren else "rename of the right-hand key in the reverse part", ren[0] if ren else fj.node, ok,
           "in the reverse part the right-hand key column is renamed to the left-hand name" if ok else
           "the reverse part keeps the right-hand key name (or renames the wrong way): rbind then splits one key into two columns",
           clause="full_join contains every left row and every right row")
    n = grd_empty(ctx, [repo.fn(f"{DF}.{j}") for j in JOINS + ("full_join",)], "all joins succeed when either side is empty",
                  only=lambda f: f.module.name == "dataiter.data_frame")
    ctx.note(f"{n} partial-operation site(s) reachable from the joins inside data_frame.py")
    from .shared import grd_broadcast
    nb = grd_broadcast(ctx, [repo.fn(f"{DF}.{j}") for j in JOINS + ("full_join",)], "all joins succeed when either side is empty")
    ctx.note(f"{nb} single-element broadcast site(s) reachable from the joins")
