"""C05 -- DataFrame joins follow first-match relational semantics and never lose rows."""
import ast
from ..common import calls_in, norm, DF, DFC, LOD, kw
from ..model import AnalysisError, body_nodes
from ..dataflow import defs_reaching
from ..guards import lower_bound
from .shared import grd_empty, idx1, yields_of, row_index_of, enclosing_loop
from ..pattern import pmatch, pstmt, text, alpha, dump, find

EXPLANATION = (
    "Structural necessary conditions of the five DataFrame joins decided from source: (TS-other) typestate of the right-hand "
    "frame: _get_join_indices builds a key->row dict by comprehension (last key wins, missing keys would match), so at each of "
    "its four call sites the frame passed must have gone through drop_na(*by2) and unique(*by2) -- the four joins must agree; "
    "(IDX) left rows once, in order, own columns un-indexed copies in left_join, matched subset indexed by one found/src pair in "
    "inner/semi/anti with complementary operators; (SIB-5) a column filled with X.na_value is built with X.na_dtype of the same "
    "X; (GRD-bcast) a scalar broadcast DataFrameColumn(scalar, dtype, n) needs n >= 1 (the callee rejects nrow < 1), so joins of "
    "0-row left frames need another construction; (SIB-6) the (left,right) key mapping: _split_join_by picks x[0]/x[1], the "
    "reverse join of full_join receives the by-tuples reversed and keeps the left name; (GRD-empty) reductions reachable from the "
    "joins are guarded for empty operands. Not decided: which rows match; full_join multiplicities."
)
ASSUMPTIONS = ["a dict comprehension keeps the last value for a repeated key", "np.where(src > -1) returns the matched positions in order"]

JOINS = ("inner_join", "left_join", "semi_join", "anti_join")


def method_chain(expr):
    """[(method, args text...)] applied to a base name: other.drop_na(*by2).unique(*by2)."""
    chain = []
    while isinstance(expr, ast.Call) and isinstance(expr.func, ast.Attribute):
        chain.append((expr.func.attr, [norm(a) for a in expr.args]))
        expr = expr.func.value
    return list(reversed(chain)), expr


def check(ctx):
    repo = ctx.repo
    for r, t in (("TS-other", "right-hand frame reduced to non-missing unique keys before the key->row dict is built"),
                 ("IDX", "whole rows, own columns unchanged, one index pair"),
                 ("SIB-5", "NA value and NA dtype come from the same column"),
                 ("GRD-bcast", "scalar broadcast needs nrow >= 1"),
                 ("SIB-6", "(left,right) key name mapping"),
                 ("GRD-empty", "reductions guarded for empty operands")):
        ctx.rule(r, t)
    gji = repo.fn(f"{DF}._get_join_indices")
    # the lookup is a comprehension-built dict: last wins
    dcs = [n for n in ast.walk(gji.node) if isinstance(n, ast.DictComp)]
    needs_unique = bool(dcs)
    sites = []
    for name in JOINS:
        fn = repo.fn(f"{DF}.{name}")
        for f, c in calls_in(fn):
            if isinstance(c.func, ast.Attribute) and c.func.attr == "_get_join_indices":
                sites.append((fn, c))
    ctx.count("_get_join_indices call sites", len(sites), 4)
    states = {}
    for fn, c in sites:
        arg = c.args[0] if c.args else None
        by2 = norm(c.args[2]) if len(c.args) > 2 else None
        state = set()
        chain_txt = []
        if isinstance(arg, ast.Name):
            for d in defs_reaching(fn, arg.id, c):
                if d.kind == "assign" and d.value is not None:
                    ch, base = method_chain(d.value)
                    chain_txt.append(norm(d.value))
                    st = set()
                    for meth, args in ch:
                        if meth == "drop_na" and args == [f"*{by2}"]:
                            st.add("NONMISSING")
                        if meth == "unique" and args == [f"*{by2}"]:
                            st.add("UNIQUE")
                    state = st if not state else (state & st)
                elif d.kind == "param":
                    state = set() if not state else state & set()
                    chain_txt.append(f"parameter {arg.id} as given")
        states[fn.name] = state
        ok = {"NONMISSING", "UNIQUE"} <= state
        miss = sorted({"NONMISSING", "UNIQUE"} - state)
        ctx.ob("TS-other", fn, norm(c), c, ok,
               "right-hand frame is drop_na(*by2).unique(*by2): first match per key, missing keys never match" if ok else
               f"right-hand frame reaches the key->row dict in state {sorted(state) or ['RAW']} (missing {miss}): "
               + ("rows whose key is missing can match; " if "NONMISSING" in miss else "")
               + ("with duplicate right keys the LAST duplicate wins instead of the first; " if "UNIQUE" in miss else "")
               + "and the four joins no longer agree (semi_join and anti_join must partition the left frame)",
               chain=chain_txt, clause="rows with a missing key never match; first right row; semi/anti partition")
    same = len({frozenset(s) for s in states.values()}) == 1
    ctx.ob("TS-other", gji, "the four joins normalise the right-hand frame identically", gji.node, same,
           "all four call sites agree" if same else f"call sites disagree: { {k: sorted(v) for k, v in states.items()} }",
           nontrivial=False, clause="semi_join and anti_join together partition the left frame")
    ok = needs_unique and any("range(" in norm(d.generators[0].iter) and "nrow" in norm(d.generators[0].iter) for d in dcs)
    ctx.ob("TS-other", gji, norm(dcs[0]) if dcs else "lookup dict", dcs[0] if dcs else gji.node, ok,
           "lookup maps each key tuple to its row number over all rows of the right-hand frame" if ok else
           "lookup dict is not built over all rows of the right-hand frame", nontrivial=False)
    # not-found marker and found positions
    wh = [c for f, c in calls_in(gji) if repo.dotted(f, c.func) in ("numpy.where", "numpy.flatnonzero", "numpy.nonzero")]
    ok = bool(wh) and any("> -1" in norm(c) or ">= 0" in norm(c) or "!= -1" in norm(c) for c in wh) and \
        any(isinstance(c.func, ast.Attribute) and c.func.attr == "get" and len(c.args) == 2 and norm(c.args[1]) == "-1"
            for f, c in calls_in(gji))
    ctx.ob("TS-other", gji, "src = lookup.get(key, -1); found = where(src > -1)", wh[0] if wh else gji.node, ok,
           "unmatched rows are marked -1 and exactly the others are 'found'" if ok else
           "the not-found marker and the test selecting found rows do not correspond", clause="never pairs rows with unequal keys")
    # ------------------------------------------------------------------ IDX
    for name, ops in (("inner_join", {"index", "take"}), ("semi_join", {"index", "take"}), ("anti_join", {"delete"})):
        fn = repo.fn(f"{DF}.{name}")
        idx1(ctx, fn, "whole rows", expect_ops=ops, rule="IDX")
    lj = repo.fn(f"{DF}.left_join")
    ys = yields_of(lj)
    own = [y for y in ys if enclosing_loop(lj, y) is not None and norm(enclosing_loop(lj, y).iter) == f"{lj.params[0]}.items()"]
    ctx.count("left_join yields of own columns", len(own), 1)
    for y in own:
        colexpr, idx, op = row_index_of(y.value.elts[1])
        ok = idx is None and isinstance(colexpr, ast.Name)
        ctx.ob("IDX", lj, f"yield {norm(y.value)}", y, ok,
               "every left row exactly once, in order: own columns are yielded whole" if ok else
               f"left_join indexes its own columns with {norm(idx) if idx is not None else '?'}: left rows can be dropped or reordered",
               clause="left_join returns every left row exactly once, in order and with its own columns unchanged")
    inn = repo.fn(f"{DF}.inner_join")
    ys_i = yields_of(inn)
    unpack = [n for n in body_nodes(inn.node) if isinstance(n, ast.Assign) and isinstance(n.targets[0], ast.Tuple)
              and isinstance(n.value, ast.Call) and isinstance(n.value.func, ast.Attribute) and n.value.func.attr == "_get_join_indices"]
    ok = False
    desc = "found, src = self._get_join_indices(...)"
    if unpack and len(unpack[0].targets[0].elts) == 2:
        F, SRC = (text(e) for e in unpack[0].targets[0].elts)
        own_iter = f"{inn.params[0]}.items()"
        idx_self = {norm(row_index_of(y.value.elts[1])[1]) for y in ys_i
                    if enclosing_loop(inn, y) is not None and norm(enclosing_loop(inn, y).iter) == own_iter
                    and row_index_of(y.value.elts[1])[1] is not None}
        idx_other = {norm(row_index_of(y.value.elts[1])[1]) for y in ys_i
                     if enclosing_loop(inn, y) is not None and norm(enclosing_loop(inn, y).iter) != own_iter
                     and row_index_of(y.value.elts[1])[1] is not None}
        ok = idx_self == {F} and idx_other == {f"{SRC}[{F}]"}
        desc = f"left rows {sorted(idx_self)} / right rows {sorted(idx_other)}"
    ctx.ob("IDX", inn, desc, inn.node, ok,
           "matched left rows and their right rows are selected by the same found/src pair" if ok else
           "left and right columns of inner_join are selected by indices that do not correspond",
           clause="inner_join is exactly the matched subset")
    for name in ("inner_join", "left_join"):
        fn = repo.fn(f"{DF}.{name}")
        gj = [c for _, c in calls_in(fn) if isinstance(c.func, ast.Attribute) and c.func.attr == "_get_join_indices"]
        rname = norm(gj[0].args[0]) if gj and gj[0].args else "other"
        by2n = norm(gj[0].args[2]) if gj and len(gj[0].args) > 2 else "by2"
        loops = [n for n in ast.walk(fn.node) if isinstance(n, ast.For) and norm(n.iter) == f"{rname}.items()"]
        ok = bool(loops)
        for l in loops:
            skips = [norm(s.test) for s in l.body if isinstance(s, ast.If) and any(isinstance(x, ast.Continue) for x in s.body)]
            ok = ok and any(f"in {by2n}" in s for s in skips) and any(f"in {fn.params[0]}" in s for s in skips)
        ctx.ob("IDX", fn, "right columns: skip key columns and names already present", loops[0] if loops else fn.node, ok,
               "key columns of the right side and clashing names are not copied" if ok else
               "right-hand key columns / clashing names are not skipped: left columns can be overwritten by right ones",
               nontrivial=False, clause="own columns unchanged")
    # ---------------------------------------------------------------- SIB-5
    n_pair = 0
    for q in (f"{DF}.left_join", f"{DF}.rbind"):
        fn = repo.fn(q)
        scope = [fn] + list(fn.nested.values())
        for f in scope:
            vals = [n for n in body_nodes(f.node) if isinstance(n, ast.Attribute) and n.attr == "na_value"]
            dts = [n for n in body_nodes(f.node) if isinstance(n, ast.Attribute) and n.attr == "na_dtype"]
            if not vals and not dts:
                continue
            n_pair += 1
            a = {norm(n.value) for n in vals}
            b = {norm(n.value) for n in dts}
            ok = a == b and len(a) == 1
            ctx.ob("SIB-5", f, f"na_value of {sorted(a)} / na_dtype of {sorted(b)}", (vals + dts)[0], ok,
                   "missing value and the dtype able to hold it come from the same column" if ok else
                   "NA value and NA dtype are taken from different columns (or one of them is missing): the fill value "
                   "may not be representable in the column's type", clause="missing values in a type able to hold them")
    ctx.count("NA-pair sites", n_pair, 2)
    # ------------------------------------------------------------ GRD-bcast
    n_b = 0
    for name in ("left_join", "full_join", "inner_join"):
        fn = repo.fn(f"{DF}.{name}")
        for f, c in calls_in(fn):
            if repo.dotted(f, c.func) != DFC:
                continue
            v = c.args[0] if c.args else None
            nexpr = c.args[2] if len(c.args) > 2 else kw(c, "nrow")
            if v is None or nexpr is None:
                continue
            scalar = isinstance(v, ast.Constant)
            if isinstance(v, ast.Name):
                ds = defs_reaching(f, v.id, c)
                scalar = bool(ds) and all(d.value is not None and (isinstance(d.value, ast.Constant) or
                                          (isinstance(d.value, ast.Attribute) and d.value.attr == "na_value")) for d in ds)
            if isinstance(v, ast.Attribute) and v.attr == "na_value":
                scalar = True
            if not scalar:
                continue
            n_b += 1
            lb = lower_bound(repo, f, nexpr, c)
            ok = lb is not None and lb >= 1
            ctx.ob("GRD-bcast", f, norm(c), c, ok,
                   f"row count {norm(nexpr)} >= {lb}" if ok else
                   f"a scalar is broadcast to {norm(nexpr)} rows, which can be 0: DataFrameColumn rejects nrow < 1 "
                   f"('Bad arguments for broadcast'), so the join raises when the left frame has no rows",
                   clause="all joins succeed when either side is empty")
    ctx.note(f"{n_b} scalar broadcast site(s) in the joins")
    # ---------------------------------------------------------------- SIB-6
    s1 = repo.fn(f"{DF}._split_join_by")
    s2 = repo.fn(f"{LOD}._split_join_by")
    d1 = [dump(x) for x in alpha(s1.node).body if not (isinstance(x, ast.Expr) and isinstance(x.value, ast.Constant))]
    d2 = [dump(x) for x in alpha(s2.node).body if not (isinstance(x, ast.Expr) and isinstance(x.value, ast.Constant))]
    ctx.ob("SIB-6", s1, "_split_join_by: DataFrame == ListOfDicts", s1.node, d1 == d2,
           "both classes split by-tuples identically" if d1 == d2 else "DataFrame and ListOfDicts split (left,right) keys differently",
           nontrivial=False, clause="key columns may be named differently on the two sides")
    lcs = [n for n in ast.walk(s1.node) if isinstance(n, ast.ListComp)]
    picks = []
    for lc in lcs:
        e = lc.elt
        if isinstance(e, ast.IfExp) and isinstance(e.orelse, ast.Subscript):
            picks.append(norm(e.orelse.slice))
    tgt_order = []
    for r in [n for n in ast.walk(s1.node) if isinstance(n, ast.Return)]:
        tgt_order = [norm(x) for x in r.value.elts] if isinstance(r.value, ast.Tuple) else []
    assigns = {norm(n.targets[0]): n.value for n in s1.node.body if isinstance(n, ast.Assign)}
    order_ok = False
    if len(tgt_order) == 2 and all(t in assigns for t in tgt_order):
        p = []
        for t in tgt_order:
            v = assigns[t]
            if isinstance(v, ast.ListComp) and isinstance(v.elt, ast.IfExp) and isinstance(v.elt.orelse, ast.Subscript):
                p.append(norm(v.elt.orelse.slice))
        order_ok = p == ["0", "1"]
    ctx.ob("SIB-6", s1, "by1 = x[0], by2 = x[1]", s1.node, order_ok,
           "left names are the first, right names the second element of each by-tuple" if order_ok else
           "the left/right elements of the by-tuples are swapped or not taken by position",
           clause="key columns may be named differently on the two sides")
    fj = repo.fn(f"{DF}.full_join")
    P, O, BY = fj.params[0], fj.params[1], fj.vararg
    stm = sorted((n for n in body_nodes(fj.node) if isinstance(n, ast.stmt)), key=lambda n: n.lineno)

    def first(pattern, env=None):
        for n in stm:
            bb = pstmt(pattern, n, dict(env or {}))
            if bb is not None:
                return n, bb
        return None, None
    sa_, ba_ = first(f"_A = {P}.modify(_aid_=__)")
    sb_, bb_ = first(f"_B = {O}.modify(_bid_=__)")
    if ba_ is None or bb_ is None:
        raise AnalysisError("DataFrame.full_join: the synthetic row ids _aid_/_bid_ are no longer attached with modify(); re-confirm SIB-6")
    env = {"_A": ba_["_A"], "_B": bb_["_B"]}
    sab, bab = first(f"_AB = _A.left_join(_B, *{BY})", env)
    ctx.ob("SIB-6", fj, text(sab) if sab else "ab = a.left_join(b, *by)", sab or fj.node, bab is not None,
           "forward join: left frame joined with the right frame by the keys as given" if bab is not None else
           "the forward join is not a.left_join(b, *by)", nontrivial=False)
    ctx.count("left_join calls in full_join", len([c for _, c in calls_in(fj) if isinstance(c.func, ast.Attribute) and c.func.attr == "left_join"]), 2)
    if bab is not None:
        env["_AB"] = bab["_AB"]
        san, ban = first("_B = _B.anti_join(_AB, '_bid_')", env)
        anti = [c for _, c in calls_in(fj) if isinstance(c.func, ast.Attribute) and c.func.attr == "anti_join"]
        ctx.ob("SIB-6", fj, text(anti[0]) if anti else "b = b.anti_join(ab, '_bid_')", anti[0] if anti else fj.node, ban is not None and len(anti) == 1,
               "right rows still to be added are those whose synthetic row id does not occur in the left-join result" if ban is not None else
               "unused right rows are not determined by the synthetic row id against the left-join result: left_join consumes only the "
               "FIRST right row per key, so further right rows sharing a matched key are neither joined nor appended -- they vanish",
               clause="full_join contains every right row at least once")
    rev = [c for _, c in calls_in(fj) if isinstance(c.func, ast.Attribute) and c.func.attr == "left_join" and text(c.func.value) == text(env["_B"])]
    for c in rev:
        star = [a for a in c.args if isinstance(a, ast.Starred)]
        okr = bool(c.args) and text(c.args[0]) == text(env["_A"]) and bool(star)
        swapped = False
        if okr and isinstance(star[0].value, ast.Name) and star[0].value.id != BY:
            from ..forms import contributions
            cs = contributions(fj, star[0].value.id, c)
            srcs = {norm(x["iter"]) for x in cs if x["iter"] is not None}
            vals = [norm(x["value"]) for x in cs if x["value"] is not None]
            # every element comes from iterating by; tuple elements are reversed, plain names kept
            if cs and srcs == {BY} and any("reversed(" in v or "[::-1]" in v for v in vals) \
                    and all(("reversed(" in v or "[::-1]" in v) or v == norm(x["target"]) or " if " in v for v, x in zip(vals, [y for y in cs if y["value"] is not None])):
                swapped = True
        ctx.ob("SIB-6", fj, text(c), c, okr and swapped,
               "reverse join receives the by-tuples with left/right swapped" if (okr and swapped) else
               f"reverse join {text(c)} swaps the operands but reuses the by-tuples unswapped: renamed keys are looked up on the wrong side",
               clause="key columns may be named differently on the two sides")
    ren = [n for n in ast.walk(fj.node) if isinstance(n, ast.Assign) and isinstance(n.targets[0], ast.Subscript)
           and isinstance(n.value, ast.Call) and isinstance(n.value.func, ast.Attribute) and n.value.func.attr == "pop"]
    ok = bool(ren) and all(pmatch("_X[0]", n.targets[0].slice) is not None and n.value.args and pmatch("_X[1]", n.value.args[0], {"_X": pmatch("_X[0]", n.targets[0].slice)["_X"]}) is not None
                           and text(n.targets[0].value) == text(n.value.func.value) for n in ren)
    ctx.ob("SIB-6", fj, text(ren[0]) if ren else "rename of the right-hand key in the reverse part", ren[0] if ren else fj.node, ok,
           "in the reverse part the right-hand key column is renamed to the left-hand name" if ok else
           "the reverse part keeps the right-hand key name (or renames the wrong way): rbind then splits one key into two columns",
           clause="full_join contains every left row and every right row")
    n = grd_empty(ctx, [repo.fn(f"{DF}.{j}") for j in JOINS + ("full_join",)], "all joins succeed when either side is empty",
                  only=lambda f: f.module.name == "dataiter.data_frame")
    ctx.note(f"{n} partial-operation site(s) reachable from the joins inside data_frame.py")
