"""C10 -- vector construction and the missing-value model are coherent (consistency of the NA tables)."""
import ast
from ..common import calls_in, norm, VEC, kw
from ..model import AnalysisError, body_nodes
from ..facts import facts_at

EXPLANATION = (
    "Consistency of the missing-value tables decided from source: (SIB-9) Vector.is_na, na_dtype and na_value are parsed into "
    "ordered decision lists over dtype predicates and evaluated for every dtype kind with a trusted predicate/kind table that "
    "encodes NumPy's scalar hierarchy (in particular: timedelta64 is a subclass of signedinteger, so is_integer is also true for "
    "timedeltas and must be tested after is_timedelta); per kind the value must be the statement's (NaT for date/datetime and "
    "timedelta, NaN for float and integer, the string dtype's na_object for strings, None otherwise), the dtype must be able to hold "
    "it (integer -> float, string/float/datetime keep their dtype, everything else -> object), and is_na evaluated on the kind after "
    "the cast must be the detector of exactly that value (isnat<->NaT, isnan<->nan, == na_object<->na_object, is None<->None); "
    "(SIB-pred) the predicate with which _std_to_np substitutes missing values equals the one util.unique_types uses to ignore them, "
    "and the substitution is unconditional; _std_to_np_na_value's decision list matches the statement; date/datetime map to "
    "datetime64[D]/[us]; (NA-flow) tolist, drop_na, replace_na and equal obtain missing positions only through is_na, and tolist "
    "puts None exactly there. Not decided: the dtype NumPy infers for a given mixed list; that equal is an equivalence; round trips."
)
ASSUMPTIONS = ["predicate/kind table below reflects numpy.issubdtype for NumPy 2 (timedelta64 <: signedinteger <: integer <: number)",
               "np.isnat / np.isnan / == / `is None` detect exactly NaT / NaN / equal strings / None"]

KINDS = ["datetime", "timedelta", "float", "integer", "boolean", "string", "fixed", "bytes", "object"]
PRED = {
    "is_datetime": {"datetime"}, "is_timedelta": {"timedelta"}, "is_float": {"float"},
    "is_integer": {"integer", "timedelta"},          # np.timedelta64 is a subclass of np.signedinteger
    "is_number": {"integer", "timedelta", "float"},
    "is_boolean": {"boolean"}, "is_string": {"string"}, "_is_string_fixed": {"fixed"}, "is_bytes": {"bytes"},
    "is_object": {"object"},
}
WANT_VALUE = {"datetime": "NaT", "timedelta": "NaT", "float": "nan", "integer": "nan", "string": "na_object",
              "fixed": "na_object", "boolean": "None", "bytes": "None", "object": "None"}
WANT_DTYPE = {"datetime": "same", "timedelta": "same", "float": "same", "integer": "float", "string": "same",
              "fixed": "same", "boolean": "object", "bytes": "object", "object": "object"}
ALL_KINDS = set(WANT_VALUE)
DETECTOR = {"NaT": "isnat", "nan": "isnan", "na_object": "eq_na_object", "None": "is_none"}


def kinds_of_test(test, selfname):
    """Set of kinds for which a test like `self.is_x() or self.is_y()` holds."""
    if isinstance(test, ast.BoolOp) and isinstance(test.op, ast.Or):
        out = set()
        for v in test.values:
            k = kinds_of_test(v, selfname)
            if k is None:
                return None
            out |= k
        return out
    if isinstance(test, ast.BoolOp) and isinstance(test.op, ast.And):
        out = None
        for v in test.values:
            k = kinds_of_test(v, selfname)
            if k is None:
                return None
            out = k if out is None else (out & k)
        return out
    if isinstance(test, ast.UnaryOp) and isinstance(test.op, ast.Not):
        k = kinds_of_test(test.operand, selfname)
        return None if k is None else (ALL_KINDS - k)
    if isinstance(test, ast.Call) and isinstance(test.func, ast.Attribute) and norm(test.func.value) == selfname \
            and test.func.attr in PRED and not test.args:
        return set(PRED[test.func.attr])
    # self.dtype.kind in "biu" / in ("b", "i") / == "f": NumPy's one-letter kind codes
    if isinstance(test, ast.Compare) and len(test.ops) == 1 and norm(test.left) == f"{selfname}.dtype.kind":
        rhs = test.comparators[0]
        codes = None
        if isinstance(rhs, ast.Constant) and isinstance(rhs.value, str):
            codes = list(rhs.value) if isinstance(test.ops[0], (ast.In, ast.NotIn)) else [rhs.value]
        elif isinstance(rhs, (ast.Tuple, ast.List, ast.Set)) and all(isinstance(e, ast.Constant) and isinstance(e.value, str) for e in rhs.elts):
            codes = [e.value for e in rhs.elts]
        if codes is not None and all(c in KIND_OF_CODE for c in codes):
            ks = {KIND_OF_CODE[c] for c in codes}
            if isinstance(test.ops[0], (ast.In, ast.Eq)):
                return ks
            if isinstance(test.ops[0], (ast.NotIn, ast.NotEq)):
                return ALL_KINDS - ks
    return None


# NumPy dtype.kind codes -> the element kinds of this module ('i' is signed integers only: timedelta64 has kind 'm')
KIND_OF_CODE = {"b": "boolean", "i": "integer", "u": "integer", "f": "float", "M": "datetime", "m": "timedelta",
                "U": "fixed", "T": "string", "S": "bytes", "O": "object"}


def decision_list(fn):
    s0 = fn.params[0]
    out = []
    fallback = None
    for s in fn.node.body:
        if isinstance(s, ast.Expr) and isinstance(s.value, ast.Constant):
            continue
        if isinstance(s, ast.If):
            ks = kinds_of_test(s.test, s0)
            rets = [x for x in s.body if isinstance(x, ast.Return)]
            if ks is None or len(rets) != 1 or s.orelse:
                raise AnalysisError(f"{fn.qualname}: decision list idiom changed at line {s.lineno} ({norm(s.test)})")
            out.append((ks, rets[0].value, s))
        elif isinstance(s, ast.Return):
            fallback = s.value
        else:
            raise AnalysisError(f"{fn.qualname}: unexpected statement {norm(s)[:40]} in a decision list")
    if fallback is None:
        raise AnalysisError(f"{fn.qualname}: decision list without fallback")
    return out, fallback


def evaluate(dl, kind):
    branches, fallback = dl
    for ks, val, node in branches:
        if kind in ks:
            return val, node
    return fallback, None


def classify_value(e):
    t = norm(e)
    if "NaT" in t:
        return "NaT"
    if t in ("np.nan", "float('nan')", "math.nan"):
        return "nan"
    if "na_object" in t:
        return "na_object"
    if t == "None":
        return "None"
    return t


def classify_dtype(e):
    t = norm(e)
    if t.endswith(".dtype"):
        return "same"
    if t in ("float", "np.float64", "np.floating"):
        return "float"
    if t in ("object", "np.object_"):
        return "object"
    return t


def classify_detector(e, selfname):
    t = norm(e)
    if t == f"np.isnat({selfname})":
        return "isnat"
    if t == f"np.isnan({selfname})":
        return "isnan"
    if t.startswith(f"{selfname} == ") and "na_object" in t:
        return "eq_na_object"
    if "is None" in t:
        return "is_none"
    return t


def check(ctx):
    repo = ctx.repo
    from . import generic as _gen
    _gen.language_traps(ctx, _gen.anchor_functions(repo, "C10"), "the property holds for every input, on every call")
    _gen.bool_mask_dtype(ctx, _gen.module_functions(repo, "dataiter.vector", "dataiter.data_frame", "dataiter.util"),
                         "is_na / drop_na work for vectors of every length, zero included")
    _gen.total_functions(ctx, ["dataiter.vector.Vector.replace_na", "dataiter.vector.Vector.drop_na", "dataiter.vector.Vector.is_na"])
    from . import generic
    generic.lossy_calls(ctx, generic.module_functions(repo, "dataiter.vector"),
                        "replace_na replaces exactly the missing positions")
    generic.na_blind_paths(ctx, [f for f in generic.module_functions(repo, "dataiter.vector") if f.cls is not None and f.cls.name == "Vector"],
                           "drop_na and replace_na remove or replace exactly the missing positions")
    generic.memo_projection(ctx, ("dataiter.vector", "dataiter.util", "dataiter.dtypes"),
                            "na_value / na_dtype are the missing value of the vector's own dtype")
    for r, t in (("SIB-9", "is_na / na_dtype / na_value agree per dtype kind with each other and with the statement"),
                 ("SIB-pred", "NA substitution predicate == type-inference ignore predicate; inference decision list"),
                 ("NA-flow", "consumers obtain missing positions only through is_na"),
                 ("NA-src", "the value substituted for None/NaN: na_value of the known dtype, else guessed from the element types")):
        ctx.rule(r, t)
    ctx.trust("predicate/kind table in sa/props/C10.py (NumPy scalar hierarchy)")
    isna = repo.fn(f"{VEC}.is_na")
    nad = repo.fn(f"{VEC}.na_dtype")
    nav = repo.fn(f"{VEC}.na_value")
    dl_isna, dl_d, dl_v = decision_list(isna), decision_list(nad), decision_list(nav)
    cast_kind = {"same": None, "float": "float", "object": "object"}
    for k in KINDS:
        v, vn = evaluate(dl_v, k)
        d, dn = evaluate(dl_d, k)
        cv, cd = classify_value(v), classify_dtype(d)
        ok = cv == WANT_VALUE[k]
        ctx.ob("SIB-9", nav, f"na_value[{k}] = {cv}", vn or nav.node, ok,
               f"missing value of a {k} vector is {WANT_VALUE[k]} as stated" if ok else
               f"na_value of a {k} vector evaluates to {cv} (first matching branch: {norm(vn.test) if vn is not None else 'fallback'}), "
               f"the statement requires {WANT_VALUE[k]}", clause="maps None and NaN to the missing value of the inferred type")
        ok = cd == WANT_DTYPE[k]
        ctx.ob("SIB-9", nad, f"na_dtype[{k}] = {cd}", dn or nad.node, ok,
               f"a {k} vector is cast to {'its own dtype' if cd == 'same' else cd} to hold its missing value" if ok else
               f"na_dtype of a {k} vector evaluates to {cd} (first matching branch: {norm(dn.test) if dn is not None else 'fallback'}) "
               f"instead of {WANT_DTYPE[k]}: after the cast the vector cannot hold {WANT_VALUE[k]} as missing "
               f"(note: is_integer() is also true for timedelta64)", clause="a vector cast to its na_dtype can hold its na_value as missing")
        k2 = cast_kind.get(cd) or k
        det, detn = evaluate(dl_isna, k2)
        cdet = classify_detector(det, isna.params[0])
        want = DETECTOR.get(cv)
        ok = want is not None and cdet == want
        ctx.ob("SIB-9", isna, f"is_na[{k} cast to {k2}] = {cdet} detects {cv}", detn or isna.node, ok,
               f"is_na finds exactly the value na_value names for {k}" if ok else
               f"for a {k} vector na_value is {cv} and na_dtype gives kind {k2}, but is_na on that kind tests {cdet}: "
               f"the value stored as missing is not recognised as missing", clause="is_na flags exactly those positions")
    ctx.count("dtype kinds evaluated", len(KINDS), 9)
    # the predicates the decision lists branch on are the NumPy kinds the table assumes
    SPEC = {"is_boolean": "np.bool_", "is_bytes": "np.bytes_", "is_datetime": "np.datetime64", "is_float": "np.floating",
            "is_integer": "np.integer", "is_number": "np.number", "is_object": "np.object_", "is_timedelta": "np.timedelta64",
            "_is_string_fixed": "np.str_"}
    from ..pattern import pmatch as _pmk
    for name, kind in SPEC.items():
        fnp = repo.fn(f"{VEC}.{name}")
        rets = [n for n in body_nodes(fnp.node) if isinstance(n, ast.Return)]
        ok = len(rets) == 1 and _pmk(f"np.issubdtype({fnp.params[0]}.dtype, {kind})", rets[0].value) is not None
        ctx.ob("SIB-9", fnp, f"{name} == issubdtype(dtype, {kind})", rets[0] if rets else fnp.node, ok,
               "predicate tests the NumPy kind the NA tables assume" if ok else
               f"{name} no longer tests np.issubdtype(self.dtype, {kind}): the branches of is_na / na_dtype / na_value select other dtypes",
               nontrivial=False, clause="the missing value of the inferred type")
    fs = repo.fn(f"{VEC}.is_string")
    rets = [n for n in body_nodes(fs.node) if isinstance(n, ast.Return)]
    ok = len(rets) == 1 and _pmk(f"isinstance({fs.params[0]}.dtype, StringDType)", rets[0].value) is not None
    ctx.ob("SIB-9", fs, "is_string == isinstance(dtype, StringDType)", rets[0] if rets else fs.node, ok,
           "string vectors are those of the variable-width string dtype" if ok else "is_string no longer tests for StringDType", nontrivial=False)
    nw = repo.fn(f"{VEC}.__new__")
    from ..forms import value_cases as _vck
    cs = _vck(nw, "return")
    obj = nw.params[1]
    arr = [leaf for _, leaf, f_ in cs if any(k == "T" and t == f"isinstance({obj}, np.ndarray)" for k, t in f_)]
    gen = [leaf for _, leaf, f_ in cs if not any(k == "T" and t == f"isinstance({obj}, np.ndarray)" for k, t in f_)]
    ok = len(arr) == 1 and len(gen) == 1 and _pmk(f"{nw.params[0]}._np_array({obj}, __).view({nw.params[0]})", arr[0]) is not None \
        and _pmk(f"{nw.params[0]}._std_to_np({obj}, __).view({nw.params[0]})", gen[0]) is not None
    ctx.ob("SIB-pred", nw, "Vector(...): ndarray -> _np_array; anything else -> _std_to_np (missing values substituted)", nw.node, ok,
           "Python sequences always pass the NA substitution, arrays are taken as they are" if ok else
           "Vector.__new__ no longer routes non-array input through _std_to_np (None / NaN would not be mapped to the missing value)",
           clause="Building a Vector from Python values maps None and NaN to the missing value")
    mi = repo.fn(f"{VEC}._map_input_dtype")
    cs = _vck(mi, "return")
    dp = mi.params[1]
    ok = any(norm(leaf) == "dtypes.string" and any(k == "T" and t == f"{dp} is str" for k, t in f_) for _, leaf, f_ in cs) and \
        any(norm(leaf) == dp for _, leaf, f_ in cs)
    ctx.ob("SIB-pred", mi, "dtype str -> dtypes.string, other dtypes unchanged", mi.node, ok,
           "str means the string dtype with '' as missing value" if ok else "_map_input_dtype changed", nontrivial=False)
    # ------------------------------------------------------------- SIB-pred
    from ..dataflow import defs_reaching as _defs
    std = repo.fn(f"{VEC}._std_to_np")
    ut = repo.fn("dataiter.util.unique_types")
    comp = [n for n in ast.walk(std.node) if isinstance(n, ast.ListComp) and isinstance(n.elt, ast.IfExp)]
    if not comp:
        raise AnalysisError("Vector._std_to_np: NA substitution comprehension not found")
    sub_pred = norm(comp[0].elt.test)
    var = norm(comp[0].generators[0].target)
    ucomp = [n for n in ast.walk(ut.node) if isinstance(n, (ast.GeneratorExp, ast.ListComp, ast.SetComp)) and n.generators[0].ifs]
    if not ucomp:
        raise AnalysisError("util.unique_types: filter not found")
    uvar = norm(ucomp[0].generators[0].target)
    ign = ucomp[0].generators[0].ifs
    ign_t = " and ".join(norm(c) for c in ign) if len(ign) > 1 else norm(ign[0])
    # unique_types keeps x when NOT missing: not (A or B) == (not A and not B)
    want_keep = f"{var} is not None and (not (isinstance({var}, float) and np.isnan({var})))"
    want_sub = f"{var} is None or (isinstance({var}, float) and np.isnan({var}))"
    a_ok = sub_pred == want_sub
    b_ok = ign_t.replace(uvar, var) == want_keep
    ctx.ob("SIB-pred", std, f"substituted when: {sub_pred}", comp[0], a_ok,
           "None and float NaN are replaced by the type's missing value" if a_ok else
           f"substitution predicate is {sub_pred}, expected {want_sub}", clause="maps None and NaN to the missing value")
    ctx.ob("SIB-pred", ut, f"kept for inference when: {ign_t}", ucomp[0], b_ok,
           "exactly the substituted values are ignored when the type is inferred" if b_ok else
           f"type inference ignores values by {ign_t}, which is not the negation of the substitution predicate: inference and "
           f"substitution disagree about what is missing", clause="the inferred type")
    # the inference looks at EVERY element: the filter iterates the parameter itself, not a prefix or sample of it
    uit = ucomp[0].generators[0].iter
    whole = isinstance(uit, ast.Name) and uit.id == ut.params[0] and all(d.kind == "param" for d in _defs(ut, uit.id, ucomp[0]))
    ctx.ob("SIB-pred", ut, f"element types are collected over {norm(uit)}", ucomp[0], whole,
           "every element of the sequence contributes its type" if whole else
           f"unique_types scans {norm(uit)}"
           + (f" = {[norm(d.value) for d in _defs(ut, uit.id, ucomp[0]) if d.value is not None]}" if isinstance(uit, ast.Name) else "")
           + ", not the whole sequence: a sequence whose leading elements are all missing (or whose later elements have another type) "
             "gets the missing value and dtype of the wrong type", clause="the missing value of the inferred type")
    # every result of unique_types comes from the filtered scan: a return that bypasses the filter counts the types of
    # missing elements too (a NumPy float NaN is a float subclass instance, not the exact type float)
    from ..forms import expand as _expand_ut
    for r_ in [n for n in body_nodes(ut.node) if isinstance(n, ast.Return) and n.value is not None]:
        e_ = _expand_ut(ut, r_.value, r_)
        through = any(n is ucomp[0] or ast.dump(n) == ast.dump(ucomp[0]) for n in ast.walk(e_))
        if through:
            continue
        guard_ = [t for k, t in facts_at(ut, r_) if ("isinstance(" in t or "issubclass(" in t) and "float" in t]
        okr_ = bool(guard_)
        ctx.ob("SIB-pred", ut, f"return {norm(r_.value)} bypasses the missing-value filter", r_, okr_,
               f"taken only under {guard_[:1]}" if okr_ else
               f"{norm(e_)[:70]} is returned without the None/NaN filter (path conditions: "
               f"{[t for k, t in facts_at(ut, r_) if not t.startswith('iter:')][:2]}): a NaN given as numpy.float64 is not of the exact type "
               f"float, so its type is reported and a sequence of dates with such a NaN is no longer inferred as dates",
               clause="maps None and NaN to the missing value of the inferred type")
    # NA-dtype: with an explicit dtype the substituted missing value is THAT dtype's na_value, whatever the elements suggest.
    # The assignments to the substituted name are replayed in order for the world `dtype is not None` (branches taken only
    # when dtype is None are skipped); `a or b` is evaluated with every operand tried truthy and falsy -- a guessed value that
    # is '' or None falls through, a guessed NaN / NaT does not.
    ctx.rule("NA-dtype", "with an explicit dtype, the missing value substituted is that dtype's na_value on every path")
    sub_name = norm(comp[0].elt.body) if isinstance(comp[0].elt.body, ast.Name) else None
    dtp = next((p_ for p_ in std.all_params if p_ == "dtype"), None)
    if sub_name and dtp:
        import itertools as _it10
        assigns = sorted([n for n in body_nodes(std.node) if isinstance(n, ast.Assign) and len(n.targets) == 1 and norm(n.targets[0]) == sub_name
                          and n.lineno < comp[0].lineno], key=lambda n: n.lineno)
        live = [n for n in assigns if not any((k == "T" and t == f"{dtp} is None") or (k == "F" and t == f"{dtp} is not None")
                                              for k, t in facts_at(std, n))]

        def _atoms(e, acc):
            if isinstance(e, ast.BoolOp):
                for v in e.values:
                    _atoms(v, acc)
            elif not (isinstance(e, ast.Name) and e.id == sub_name):
                if norm(e) not in acc:
                    acc.append(norm(e))
        allat = []
        for n in live:
            _atoms(n.value, allat)

        def _ev10(e, cur, truth):
            if isinstance(e, ast.Name) and e.id == sub_name:
                return cur
            if isinstance(e, ast.BoolOp):
                last = None
                for v in e.values:
                    last = _ev10(v, cur, truth)
                    tv = truth.get(last, True)
                    if (isinstance(e.op, ast.Or) and tv) or (isinstance(e.op, ast.And) and not tv):
                        return last
                return last
            return norm(e)
        def _is_dtype_na(t):
            return t is not None and "na_value" in t and dtp in t
        wit = None
        uncond = [n for n in live if not any((k == "T" and t == f"{dtp} is not None") or (k == "F" and t == f"{dtp} is None") for k, t in facts_at(std, n))]
        for combo in _it10.product((True, False), repeat=min(len(allat), 5)):
            truth = dict(zip(allat, combo))
            cur = None
            for n in live:
                cur = _ev10(n.value, cur, truth)
            if live and not _is_dtype_na(cur) and wit is None:
                wit = (cur, {k: v for k, v in truth.items() if not _is_dtype_na(k)})
        ctx.ob("NA-dtype", std, f"{sub_name} with an explicit {dtp}: " + "; ".join(norm(n)[:50] for n in live)[:140], live[-1] if live else std.node, wit is None and bool(live),
               f"the value substituted is the na_value of the given {dtp}" if wit is None and live else
               f"with an explicit {dtp} the substituted value can be `{wit[0] if wit else '?'}` (when {wit[1] if wit else ''}) instead of the dtype's na_value: "
               f"e.g. Vector([1, None], object) substitutes NaN -- which is_na() of an object vector does not report -- where None belongs",
               clause="missing values are NaN / NaT / '' for the respective dtypes and None otherwise; is_na flags exactly those positions")
    facts = facts_at(std, comp[0])
    seqn = norm(comp[0].generators[0].iter)
    harmless = {seqn, f"len({seqn})", f"len({seqn}) > 0", f"not {seqn}", f"len({seqn}) == 0", f"{seqn} is not None", f"{seqn} is None"}
    guards = [(k, t) for k, t in facts if not t.startswith("iter:") and t not in harmless]
    ctx.ob("SIB-pred", std, "substitution is unconditional", comp[0], not guards,
           "every element is examined" if not guards else
           f"the substitution only runs under {guards}: a pre-test of `something is missing` has to find every NaN the element-wise test "
           f"finds (membership tests find NaN by identity only: float('nan'), math.nan and computed NaNs are not np.nan), otherwise "
           f"those are not replaced", clause="maps None and NaN to the missing value of the inferred type")
    # the substituted list is what is handed to numpy
    tgt = std.module.parent.get(comp[0])
    ok = isinstance(tgt, ast.Assign) and norm(tgt.targets[0]) == "seq" and all(
        norm(c.args[0]) == "seq" for _, c in calls_in(std) if isinstance(c.func, ast.Attribute) and c.func.attr == "_np_array")
    ctx.ob("SIB-pred", std, "the substituted sequence is the one converted", comp[0], ok,
           "np.array receives the sequence with missing values replaced" if ok else "the converted sequence is not the substituted one", nontrivial=False)
    # where the substituted value comes from
    subst = comp[0].elt.body
    n_src = 0
    if isinstance(subst, ast.Name):
        for d in _defs(std, subst.id, comp[0]):
            if d.value is None:
                continue
            n_src += 1
            v = d.value
            at = d.node.ast if d.node is not None else comp[0]
            dfacts = facts_at(std, at)
            explicit = any((k == "T" and t.endswith("is not None") and not t.startswith("not ")) or
                           (k == "F" and t.endswith("is None")) for k, t in dfacts)
            if isinstance(v, ast.Call) and isinstance(v.func, ast.Attribute) and v.func.attr == "_std_to_np_na_value":
                arg = v.args[0] if v.args else None
                srcs = [arg]
                if isinstance(arg, ast.Name):
                    srcs = [x.value for x in _defs(std, arg.id, at) if x.value is not None]
                from_types = bool(srcs) and all(isinstance(x, ast.Call) and repo.dotted(std, x.func) == "dataiter.util.unique_types"
                                                for x in srcs)
                okv = from_types and not explicit
                why = ("the missing value is guessed from the element types found by util.unique_types" if okv else
                       f"_std_to_np_na_value decides by the Python types of the elements, but it is given {norm(arg) if arg is not None else '?'}"
                       + (" on the path where the dtype is known" if explicit else "") +
                       ": NumPy scalar types of a dtype are not in its decision list (np.str_ is not str, timedelta64 counts as integer), "
                       "so fixed-width strings store the text 'None' and timedeltas become float")
            else:
                t = norm(v)
                okv = t.endswith(".na_value") and "dtype" in t
                why = ("the missing value is the na_value of a vector of the known dtype" if okv else
                       f"with a known dtype the substituted value is {t}, not the na_value of that dtype: is_na / tolist / "
                       f"drop_na then disagree with construction about what is missing")
            ctx.ob("NA-src", std, f"{subst.id} = {norm(v)[:80]}", at, okv, why,
                   clause="maps None and NaN to the missing value of the inferred type ... with and without an explicit dtype")
    ctx.count("definitions of the substituted missing value", n_src, 1)
    nvf = repo.fn(f"{VEC}._std_to_np_na_value")
    seq = []

    def _with_tables(test):
        """the test with names of literal type tables (a local `datetimes = [...]`, a module-level NUMBER_TYPES = (...))
        replaced by the tables themselves"""
        import copy
        mod_tables = {t.targets[0].id: t.value for t in nvf.module.tree.body if isinstance(t, ast.Assign) and len(t.targets) == 1
                      and isinstance(t.targets[0], ast.Name) and isinstance(t.value, (ast.Tuple, ast.List, ast.Set))}

        class R(ast.NodeTransformer):
            def visit_Name(self, node):
                if not isinstance(node.ctx, ast.Load):
                    return node
                ds = [d for d in _defs(nvf, node.id, test)]
                if len(ds) == 1 and ds[0].value is not None and isinstance(ds[0].value, (ast.Tuple, ast.List, ast.Set)):
                    return copy.deepcopy(ds[0].value)
                local = any(isinstance(x, ast.Name) and x.id == node.id and isinstance(x.ctx, ast.Store) for x in body_nodes(nvf.node)) \
                    or node.id in nvf.all_params
                if not local and node.id in mod_tables:
                    return copy.deepcopy(mod_tables[node.id])
                return node
        return norm(R().visit(copy.deepcopy(test)))
    for s in nvf.node.body:
        if isinstance(s, ast.If):
            r = [x for x in s.body if isinstance(x, ast.Return)]
            seq.append((_with_tables(s.test), classify_value(r[0].value) if r else None))
        elif isinstance(s, ast.Return):
            seq.append(("else", classify_value(s.value)))
    # a leading "the dtype is known -> its own na_value" case may live here instead of in the caller (NA-src covers it there)
    known = [(t, v) for t, v in seq if t.endswith(" is not None") and isinstance(v, str) and v.endswith(".na_value")]
    for t, v in known:
        pn = t[:-len(" is not None")]
        okk = pn in nvf.params and f", {pn})" in v.replace(" ", " ")
        ctx.ob("NA-src", nvf, f"{t} -> {v}", nvf.node, okk,
               "with a known dtype the missing value is the na_value of a vector of that dtype" if okk else
               f"the known-dtype case of {nvf.name} does not take the na_value of a vector of that dtype", clause="with and without an explicit dtype")
    seq = [x for x in seq if x not in known]
    vals = [v for _, v in seq]
    tests = [t for t, _ in seq]
    ok = vals == ["None", "na_object", "nan", "NaT", "None"] and tests[0] == "not types" and "str in types" in tests[1] \
        and "float" in tests[2] and "int" in tests[2] and tests[2].startswith("all(") and tests[3].startswith("all(") \
        and all(t_ in tests[3] for t_ in ("datetime.date", "datetime.datetime", "np.datetime64"))
    ctx.ob("SIB-pred", nvf, f"inference decision list {seq}", nvf.node, ok,
           "no values -> None; any str -> ''; all numeric -> NaN; all date-like -> NaT; otherwise None" if ok else
           "the decision list that picks the missing value from the element types no longer matches the statement",
           clause="NaN for numbers, NaT for dates and datetimes, the empty string for strings, None otherwise")
    # np.issubdtype(dtype, T) asks "is dtype one of the KIND T" only for NumPy's abstract classes; the Python builtins
    # int / float / bool / complex / str denote ONE concrete dtype (int64, float64, ...), so int32 or float32 are not "int"/"float"
    ABSTRACT = {"np.integer", "np.signedinteger", "np.unsignedinteger", "np.floating", "np.inexact", "np.number", "np.complexfloating",
                "np.datetime64", "np.timedelta64", "np.bool_", "np.str_", "np.bytes_", "np.object_", "np.character", "np.flexible",
                "np.generic"}
    n_sub = 0
    for q_, f_ in sorted(repo.functions.items()):
        if f_.module.name not in ("dataiter.vector", "dataiter.aggregate", "dataiter.dt", "dataiter.util", "dataiter.data_frame") or f_.parent is not None:
            continue
        for ff_, c_ in calls_in(f_):
            if repo.dotted(ff_, c_.func) != "numpy.issubdtype" or len(c_.args) != 2:
                continue
            n_sub += 1
            t_ = norm(c_.args[1])
            oka = t_ in ABSTRACT or not (isinstance(c_.args[1], ast.Name) and c_.args[1].id in ("int", "float", "bool", "complex", "str", "bytes", "object"))
            ctx.ob("SIB-9", ff_, norm(c_), c_, oka,
                   f"{t_} is a class of NumPy's scalar hierarchy: the test holds for every width of that kind" if oka else
                   f"np.issubdtype(..., {t_}) compares with the ONE dtype the Python type {t_} stands for (int64 / float64 / ...): vectors "
                   f"of another width (int32, uint8, float32) are no longer recognised as that kind, so e.g. their missing values are not "
                   f"converted / detected", clause="for all finite sequences ... with and without an explicit dtype")
    ctx.count("np.issubdtype sites", n_sub, 10)
    # an explicitly requested dtype is what np.array is given and is not converted afterwards
    npa = repo.fn(f"{VEC}._np_array")
    DT = npa.params[2] if len(npa.params) > 2 else "dtype"
    n_conv = 0
    sites = []
    for n in body_nodes(npa.node):
        if isinstance(n, ast.Call) and isinstance(n.func, ast.Attribute) and n.func.attr in ("astype", "view") and n.args:
            sites.append(n)
        elif isinstance(n, ast.Call) and repo.dotted(npa, n.func) in ("numpy.array", "numpy.asarray") and len(n.args) >= 2 \
                and not (isinstance(n.args[1], ast.Name) and n.args[1].id == DT):
            sites.append(n)
        elif isinstance(n, ast.Assign) and isinstance(n.targets[0], ast.Name) and n.targets[0].id == DT \
                and not (isinstance(n.value, ast.Call) and isinstance(n.value.func, ast.Attribute) and n.value.func.attr == "_map_input_dtype"):
            sites.append(n)
    for conv in sites:
        n_conv += 1
        fx = facts_at(npa, conv)
        okc = ("T", f"{DT} is None") in fx or ("F", f"{DT} is not None") in fx
        ctx.ob("SIB-pred", npa, f"{norm(conv)} only when no dtype was requested", conv, okc,
               "the dtype is chosen by the library only where the caller left it open" if okc else
               f"{norm(conv)} also runs when the caller requested a dtype: an explicit dtype (e.g. 'U8' in a dtype map) is replaced, so "
               f"construction with an explicit dtype no longer gives that dtype", clause="with and without an explicit dtype")
    ctx.count("dtype decisions of _np_array", n_conv, 1)
    vecmod = repo.modules["dataiter.vector"]
    tc = [n for n in vecmod.tree.body if isinstance(n, ast.Assign) and norm(n.targets[0]) == "TYPE_CONVERSIONS"]
    ok = bool(tc) and isinstance(tc[0].value, ast.Dict) and {norm(k): norm(v) for k, v in zip(tc[0].value.keys, tc[0].value.values)} == \
        {"datetime.date": "'datetime64[D]'", "datetime.datetime": "'datetime64[us]'"}
    ctx.ob("SIB-pred", "dataiter.vector", "TYPE_CONVERSIONS", f"dataiter/vector.py:{tc[0].lineno if tc else 0}", ok,
           "date -> datetime64[D], datetime -> datetime64[us]" if ok else "TYPE_CONVERSIONS changed", nontrivial=False)
    na_obj = repo.modules["dataiter.dtypes"]
    sd = [n for n in na_obj.tree.body if isinstance(n, ast.Assign) and norm(n.targets[0]) == "string"]
    ok = bool(sd) and kw(sd[0].value, "na_object") is not None and norm(kw(sd[0].value, "na_object")) == "''"
    ctx.ob("SIB-pred", "dataiter.dtypes", "string = StringDType(na_object='')", f"dataiter/dtypes.py:{sd[0].lineno if sd else 0}", ok,
           "the empty string is the string dtype's missing value" if ok else "the string dtype's na_object is no longer ''", nontrivial=False)
    # -------------------------------------------------------------- NA-flow
    for name in ("tolist", "drop_na", "replace_na", "equal"):
        fn = repo.fn(f"{VEC}.{name}")
        calls = [c for _, c in calls_in(fn) if isinstance(c.func, ast.Attribute) and c.func.attr == "is_na"]
        other = [c for _, c in calls_in(fn) if repo.dotted(fn, c.func) in ("numpy.isnan", "numpy.isnat")]
        ok = bool(calls) and not other
        ctx.ob("NA-flow", fn, f"{name}: missing positions from {[norm(c) for c in calls]}", fn.node, ok,
               "missing positions come from is_na" if ok else f"{name} determines missing positions without is_na (or by its own test)",
               clause="is_na flags exactly those positions")
    eq = repo.fn(f"{VEC}.equal")
    from ..pattern import pmatch as _pm
    S0, O0 = eq.params[0], eq.params[1]
    masks = {}
    for n in body_nodes(eq.node):
        if isinstance(n, ast.Assign) and isinstance(n.targets[0], ast.Name):
            if _pm(f"{S0}.is_na()", n.value) is not None:
                masks["self"] = n.targets[0].id
            if _pm(f"{O0}.is_na()", n.value) is not None:
                masks["other"] = n.targets[0].id
    ok = False
    if len(masks) == 2:
        a_, b_ = masks["self"], masks["other"]
        from ..forms import expand as _expand, split_ifexp as _sx
        MASK_EQ = (f"np.all({a_} == {b_})", f"np.all({b_} == {a_})", f"np.array_equal({a_}, {b_})", f"np.array_equal({b_}, {a_})",
                   f"({a_} == {b_}).all()", f"({b_} == {a_}).all()")
        ELEM_EQ = (f"{S0}[~{a_}] == {O0}[~{b_}]", f"{O0}[~{b_}] == {S0}[~{a_}]")
        # names bound to the mask comparison
        mask_names = {n.targets[0].id for n in body_nodes(eq.node) if isinstance(n, ast.Assign) and isinstance(n.targets[0], ast.Name)
                      and norm(n.value) in MASK_EQ}
        elem_rets = [r for r in body_nodes(eq.node) if isinstance(r, ast.Return) and r.value is not None
                     and any(t in norm(r.value) for t in ELEM_EQ)]
        # the two non-missing parts are compared as they are: converting one side to the other's dtype makes the
        # relation depend on the direction (3 == int(3.7) but 3.7 != float(3))
        cmp_nodes = [x for x in body_nodes(eq.node) if isinstance(x, ast.Compare) and len(x.ops) == 1 and isinstance(x.ops[0], ast.Eq)
                     and any(isinstance(y, ast.Subscript) and norm(y).startswith((f"{S0}[~", f"{O0}[~")) for y in ast.walk(x))]
        exact = bool(cmp_nodes) and all(norm(x) in ELEM_EQ for x in cmp_nodes)
        good = bool(elem_rets) and exact
        for r in elem_rets:
            txt = norm(r.value)
            fx = facts_at(eq, r)
            gated = any(m in txt for m in MASK_EQ) or any(mn in txt.split(" and ")[0] for mn in mask_names if " and " in txt) \
                or any((k == "T" and (t in MASK_EQ or t in mask_names)) or (k == "F" and t.startswith("not ") and t[4:] in mask_names)
                       for k, t in fx)
            # the mask comparison must come FIRST and short-circuit: `&` evaluates the element comparison even when the masks
            # differ, and then the two non-missing parts have different lengths
            bitand = [x for x in ast.walk(r.value) if isinstance(x, ast.BinOp) and isinstance(x.op, ast.BitAnd)
                      and any(m in norm(x) for m in MASK_EQ) and any(t_ in norm(x) for t_ in ELEM_EQ)]
            good = good and gated and not bitand
        ok = good
    ctx.ob("NA-flow", eq, "equal: same missing positions AND equal non-missing elements", eq.node, ok,
           "both vectors' NA masks are compared and the non-missing elements of each are compared with each other" if ok else
           "equal does not compare the two NA masks (or indexes both vectors with one mask): a missing value on one side matches "
           "any value on the other and equal is no longer symmetric", clause="equal is an equivalence relation that treats missing values as equal to each other")
    # element-wise comparison happens only between vectors of the same length (NumPy would broadcast a length-1 vector)
    cmp_rets = [r for r in body_nodes(eq.node) if isinstance(r, ast.Return) and r.value is not None
                and any(isinstance(x, ast.Subscript) for x in ast.walk(r.value))]
    for r in cmp_rets:
        fx = facts_at(eq, r)
        okl = any((k == "T" and ("length ==" in t or "len(" in t and "==" in t) and S0 in t and O0 in t) or
                  (k == "F" and ("length !=" in t) and S0 in t and O0 in t) for k, t in fx)
        ctx.ob("NA-flow", eq, "elements are compared only between vectors of equal length", r, okl,
               "the comparison is reached only when both lengths are equal" if okl else
               "equal compares element-wise without having checked the lengths: NumPy broadcasts a length-1 vector, so [1] equals [1, 1]",
               clause="equal is an equivalence relation")
    # dates are recognised only when there ARE element types: an all-missing sequence has none
    for r in [n for n in body_nodes(std.node) if isinstance(n, ast.Return)]:
        lp = std.module.parent.get(r)
        inloop = False
        while lp is not None and lp is not std.node:
            if isinstance(lp, ast.For) and "TYPE_CONVERSIONS" in norm(lp.iter):
                inloop = True
            lp = std.module.parent.get(lp)
        if not inloop:
            continue
        fx = facts_at(std, r)
        tv = [n.targets[0].id for n in body_nodes(std.node) if isinstance(n, ast.Assign) and isinstance(n.targets[0], ast.Name)
              and isinstance(n.value, ast.Call) and repo.dotted(std, n.value.func) == "dataiter.util.unique_types"]
        okt = any(("T", v) in fx or any(k == "T" and t in (f"len({v}) > 0", f"len({v}) >= 1", f"bool({v})") for k, t in fx) for v in tv)
        ctx.ob("SIB-pred", std, f"{norm(r)[:60]} only for a non-empty set of element types", r, okt,
               "an all-missing sequence (no element types) is not taken for dates" if okt else
               "all(x == date for x in types) is vacuously true for an EMPTY type set: a sequence of only None/NaN becomes a "
               "datetime64 vector of NaT instead of an object vector of None", clause="None otherwise")
    tl = repo.fn(f"{VEC}.tolist")
    rets = [n for n in body_nodes(tl.node) if isinstance(n, ast.Return)]
    from ..forms import expand as _expand
    ok = len(rets) == 1 and norm(_expand(tl, rets[0].value, rets[0])) == f"np.where({tl.params[0]}.is_na(), None, {tl.params[0]}).tolist()"
    ctx.ob("NA-flow", tl, norm(rets[0].value) if rets else "tolist", rets[0] if rets else tl.node, ok,
           "None exactly at the missing positions, the element elsewhere" if ok else
           "tolist no longer is np.where(self.is_na(), None, self).tolist()", clause="tolist returns the original values with None at the missing positions")
    rn = repo.fn(f"{VEC}.replace_na")
    st = [n for n in body_nodes(rn.node) if isinstance(n, ast.Assign) and isinstance(n.targets[0], ast.Subscript)]
    ok = bool(st) and norm(st[0].targets[0].slice).endswith(".is_na()") and norm(st[0].value) == rn.params[1]
    ctx.ob("NA-flow", rn, norm(st[0]) if st else "vector[vector.is_na()] = value", st[0] if st else rn.node, ok,
           "exactly the missing positions are replaced" if ok else "replace_na does not assign value at exactly the is_na positions",
           clause="replace_na replaces exactly the missing positions")
    dn = repo.fn(f"{VEC}.drop_na")
    rets = [n for n in body_nodes(dn.node) if isinstance(n, ast.Return)]
    # every exit keeps exactly the non-missing positions: the masked selection, or -- for element types that have no missing
    # value (judged by the dtype-class dataflow, see NA-blind) -- the whole vector
    from ..dtclass import analyse as _an10
    from ..facts import cfg_node_of as _cn10
    _cfg10, _IN10 = _an10(dn, dn.params[0], init=frozenset("B I U F C SF SV BY DT TD O".split()))

    def _keeps(r_):
        t_ = norm(_expand(dn, r_.value, r_)) if r_.value is not None else ""
        if t_.startswith(f"{dn.params[0]}[~{dn.params[0]}.is_na()]"):
            return True
        nd_ = _cn10(dn, r_)
        st_ = _IN10.get(nd_.id) if nd_ is not None else None
        whole = t_ in (f"{dn.params[0]}.copy()", f"{dn.params[0]}[:].copy()")
        return bool(st_) and whole and not (set(st_) & {"F", "C", "DT", "TD", "SF", "SV", "O"})
    ok = bool(rets) and all(_keeps(r_) for r_ in rets)
    ctx.ob("NA-flow", dn, norm(rets[0].value) if rets else "drop_na", rets[0] if rets else dn.node, ok,
           "exactly the non-missing positions are kept" if ok else "drop_na does not keep exactly the non-missing positions",
           clause="drop_na removes exactly the missing positions")
