"""C02 -- row subsetting returns exactly the selected whole rows, in order."""
import ast
from ..common import calls_in, norm, DF, VEC, kw
from ..model import AnalysisError, body_nodes
from ..dataflow import defs_reaching, comprehension_binding
from ..facts import facts_at
from ..pattern import pmatch, text
from .shared import grd_empty, idx1, clamp_check, yields_of, row_index_of

EXPLANATION = (
    "Structural necessary conditions of the row-subsetting methods decided from source: (IDX-1) in filter, filter_out, "
    "slice, slice_off, unique, semi_join, anti_join one loop-invariant row index is applied to every column with the "
    "expected keep/drop operator; (SIB-1) filter and filter_out build their row mask identically (callable -> rows(self), "
    "key=value -> conjunction '&' of '==' tests from an all-true start, _parse_rows_from_boolean with its length check) and "
    "apply complementary operators; (SIB-2) drop_na accumulates is_na() of every named column with '|' and feeds filter_out; "
    "(SIB-3) head/tail/sample clamp n to the available size before building positions, sample sorts its random choice; "
    "(GRD-sentinel) a value substituted for NA inside unique's hash key is accompanied by the NA mask as its own key "
    "component -- a sentinel computed from the data (nanmin - 1) is not provably outside the value domain under IEEE-754; "
    "(GRD-empty) reductions reachable from these methods are guarded for 0-row frames; (LEN) the boolean-mask parser rejects "
    "masks of the wrong length; (STATE) no subsetting method reads the grouping state an earlier group_by() left on the frame; "
    "(SIB-parse) column-position parsers mirror the row-position parsers; the default count replaces only a count that was not "
    "given. Not decided: which rows a mask selects; correctness of the first-seen scan."
)
ASSUMPTIONS = ["np.take keeps / np.delete drops exactly the given positions; advanced indexing keeps them in the given order"]

KEEP = {"filter": {"take", "index"}, "slice": {"take", "index"}, "unique": {"take", "index"}, "semi_join": {"take", "index"}}
DROP = {"filter_out": {"delete"}, "slice_off": {"delete"}, "anti_join": {"delete"}}


def mask_features(repo, fn):
    """Feature record of how filter / filter_out build their row positions."""
    feat = {}
    ys = yields_of(fn)
    if not ys:
        raise AnalysisError(f"{fn.qualname}: no yield")
    col, idx, op = row_index_of(ys[0].value.elts[1])
    feat["operator"] = op
    if not isinstance(idx, ast.Name):
        raise AnalysisError(f"{fn.qualname}: row index is not a simple name ({norm(idx) if idx is not None else None})")
    rows = idx.id
    # positions = self._parse_rows_from_boolean(mask): the mask may be built under another name than the positions
    for n in body_nodes(fn.node):
        if isinstance(n, ast.Assign) and len(n.targets) == 1 and isinstance(n.targets[0], ast.Name) and n.targets[0].id == rows \
                and isinstance(n.value, ast.Call) and isinstance(n.value.func, ast.Attribute) and n.value.func.attr.startswith("_parse_rows") \
                and n.value.args and isinstance(n.value.args[0], ast.Name) and n.value.args[0].id != rows:
            feat["parse"] = n.value.func.attr
            rows = n.value.args[0].id
            break
    feat.setdefault("parse", None)
    feat["callable"] = None
    feat["acc_op"] = None
    feat["cmp_op"] = None
    feat["init"] = None
    for n in body_nodes(fn.node):
        if isinstance(n, ast.Assign) and len(n.targets) == 1 and isinstance(n.targets[0], ast.Name) and n.targets[0].id == rows:
            v = n.value
            if isinstance(v, ast.Call) and isinstance(v.func, ast.Attribute) and v.func.attr.startswith("_parse_rows"):
                feat["parse"] = v.func.attr
            elif isinstance(v, ast.Call) and isinstance(v.func, ast.Name) and v.func.id == rows:
                facts = facts_at(fn, n)
                feat["callable"] = (norm(v), ("T", f"callable({rows})") in facts)
            elif isinstance(v, ast.BinOp) and isinstance(v.left, ast.Name) and v.left.id == rows:
                feat["acc_op"] = type(v.op).__name__
                c = v.right
                if isinstance(c, ast.Compare) and len(c.ops) == 1:
                    feat["cmp_op"] = type(c.ops[0]).__name__
                    feat["cmp_left"] = norm(c.left)
            elif isinstance(v, ast.Call):
                consts = [x.value for x in ast.walk(v) if isinstance(x, ast.Constant) and isinstance(x.value, bool)]
                feat["init"] = (consts[0] if consts else None, "nrow" in norm(v))
        if isinstance(n, ast.AugAssign) and isinstance(n.target, ast.Name) and n.target.id == rows:
            feat["acc_op"] = type(n.op).__name__
            if isinstance(n.value, ast.Compare) and len(n.value.ops) == 1:
                feat["cmp_op"] = type(n.value.ops[0]).__name__
                feat["cmp_left"] = norm(n.value.left)
    missing = [k for k in ("parse", "callable", "acc_op", "cmp_op", "init") if feat.get(k) is None]
    if missing:
        raise AnalysisError(f"{fn.qualname}: cannot extract mask feature(s) {missing}; the idiom changed, re-confirm the table")
    return feat


def check(ctx):
    repo = ctx.repo
    from . import generic as _gen
    _gen.language_traps(ctx, _gen.anchor_functions(repo, "C02"), "the property holds for every input, on every call")
    _gen.bool_mask_dtype(ctx, _gen.module_functions(repo, "dataiter.data_frame"),
                         "filter / filter_out accept an empty mask on a zero-row frame")
    _gen.total_functions(ctx, ["dataiter.data_frame.DataFrame.drop_na"])
    from . import generic
    generic.cross_column_promotion(ctx, [repo.fn(f"{DF}.unique")], "unique keeps one row per distinct combination of key values")
    generic.order_by_difference(ctx, generic.module_functions(repo, "dataiter.data_frame"),
                                "unique keeps the first row of every distinct key combination")
    ctx.rule("IDX-1", "one loop-invariant row index for all yielded columns, expected keep/drop operator")
    ctx.rule("SIB-1", "filter / filter_out: identical mask construction, complementary operators")
    ctx.rule("SIB-2", "drop_na: '|' accumulation of is_na over all named columns, fed to filter_out")
    ctx.rule("SIB-3", "head/tail/sample clamp n; sample sorts its choice")
    ctx.rule("GRD-sentinel", "NA replaced inside a hash key only together with the NA mask as a key component")
    ctx.rule("GRD-empty", "reductions guarded for 0-row frames")
    ctx.rule("LEN", "boolean mask length is checked against nrow")
    ctx.rule("SIB-seen", "first-seen scan tests and records the key tuples themselves")
    ctx.rule("GRD-negslice", "no negated slice bound that can be 0")
    ctx.rule("SIB-parse", "column-position parsers mirror the row-position parsers")
    ctx.rule("STATE", "the subsetting methods never read the grouping state an earlier group_by() left on the frame")
    n = 0
    for name, ops in list(KEEP.items()) + list(DROP.items()):
        fn = repo.fn(f"{DF}.{name}")
        k = idx1(ctx, fn, "whole input rows only: every output row agrees with one input row in every column", expect_ops=ops)
        if k == 0:
            raise AnalysisError(f"no indexed yield found in {fn.qualname}")
        n += k
    ctx.count("indexed yields in the seven subsetting loops", n, 7)
    # ------------------------------------------------------------- SIB-1
    f1, f2 = repo.fn(f"{DF}.filter"), repo.fn(f"{DF}.filter_out")
    a, b = mask_features(repo, f1), mask_features(repo, f2)
    spec = {"acc_op": "BitAnd", "cmp_op": "Eq", "init": (True, True), "parse": "_parse_rows_from_boolean"}
    for who, feat in ((f1, a), (f2, b)):
        for k, want in spec.items():
            ok = feat[k] == want
            ctx.ob("SIB-1", who, f"{k} = {feat[k]!r}", who.node, ok,
                   f"{k} is {want!r} as the statement requires (rows whose condition is true; all pairs must hold)" if ok else
                   f"{k} is {feat[k]!r}, expected {want!r}: key=value conditions no longer select exactly the rows where "
                   f"every pair matches", clause="mask, callable and column=value conditions are interchangeable")
        ok = feat["callable"][1]
        ctx.ob("SIB-1", who, f"callable branch {feat['callable'][0]}", who.node, ok,
               "rows(self) is evaluated under callable(rows)" if ok else "callable condition is not applied to the frame")
    # colname=value pairs are compared AS GIVEN: a value first cast to the column's dtype (Vector.fast([value], column.dtype),
    # column.dtype.type(value), np.array(value, column.dtype)) is rounded / truncated to it -- guests=1.5 then selects the
    # rows where guests == 1 -- so the pair form is no longer the same selection as the mask or the callable
    ctx.rule("CAST-value", "filter / filter_out compare colname=value pairs with the value as given")
    n_cv = 0
    for ff in (f1, f2):
        for lp in [n for n in ast.walk(ff.node) if isinstance(n, ast.For) and isinstance(n.target, ast.Tuple) and len(n.target.elts) == 2
                   and ".items()" in norm(n.iter)]:
            vn = norm(lp.target.elts[1])
            for cmp_ in [n for b_ in lp.body for n in ast.walk(b_) if isinstance(n, ast.Compare) and len(n.ops) == 1 and isinstance(n.ops[0], (ast.Eq, ast.NotEq))]:
                sides = [x for x in (cmp_.left, cmp_.comparators[0]) if isinstance(x, ast.Name) and x.id == vn]
                if not sides:
                    continue
                n_cv += 1
                redefs = [d for d in defs_reaching(ff, vn, cmp_) if d.kind == "assign" and d.value is not None]
                casts = [d for d in redefs if ".dtype" in norm(d.value)]
                ctx.ob("CAST-value", ff, norm(cmp_), cmp_, not casts,
                       "the value reaches the comparison as the caller gave it" if not casts else
                       f"`{vn}` is first converted with {norm(casts[0].value)[:60]}: a value the column's dtype cannot hold exactly is rounded or "
                       f"truncated (1.5 -> 1 for integers, a time of day dropped for dates, any non-zero number -> True), so rows are selected "
                       f"that the mask `column == value` does not select", clause="the column=value form selects the same rows as the equivalent mask")
                if redefs and not casts:
                    raise AnalysisError(f"{ff.qualname}: the compared value `{vn}` is rebound ({norm(redefs[0].value)[:50]}) before the comparison")
    ctx.count("colname=value comparisons in filter / filter_out", n_cv, 2)
    same = {k: (a[k], b[k]) for k in a if k != "operator" and a[k] != b.get(k)}
    ctx.ob("SIB-1", f2, "mask construction equals filter's", f2.node, not same,
           "filter and filter_out build their positions identically" if not same else
           f"filter and filter_out disagree on {same}: they are no longer complements", clause="filter_out keeps exactly the rest")
    comp = (a["operator"] in ("take", "index")) and b["operator"] == "delete"
    ctx.ob("SIB-1", f2, f"operators {a['operator']} / {b['operator']}", f2.node, comp,
           "complementary operators on the same positions" if comp else
           f"filter applies {a['operator']} and filter_out {b['operator']}: not complementary",
           clause="filter_out keeps exactly the rest")
    # LEN
    for pname in ("_parse_rows_from_boolean",):
        p = repo.fn(f"{DF}.{pname}")
        raises = [n for n in body_nodes(p.node) if isinstance(n, ast.Raise)]
        ok = False
        for r in raises:
            facts = facts_at(p, r)
            if any(k == "T" and "len(" in t and "nrow" in t and "!=" in t for k, t in facts):
                ok = True
        rets = [n for n in body_nodes(p.node) if isinstance(n, ast.Return)]
        nz = any("nonzero" in norm(r.value) or "where" in norm(r.value) or "flatnonzero" in norm(r.value) for r in rets if r.value is not None)
        ctx.ob("LEN", p, "raise when len(rows) != self.nrow", p.node, ok,
               "mask of the wrong length is rejected" if ok else
               "a boolean mask of the wrong length is not rejected: np.nonzero of a short/long mask silently selects other rows",
               clause="kept rows are exactly those whose condition is true")
        ctx.ob("LEN", p, "positions = nonzero(mask)", p.node, nz,
               "positions of true elements" if nz else "mask is not converted with nonzero/where", nontrivial=False)
    pi = repo.fn(f"{DF}._parse_rows_from_integer")
    rets = [n for n in body_nodes(pi.node) if isinstance(n, ast.Return)]
    from ..pattern import pmatch as _pm
    ok = bool(rets) and all(_pm(f"Vector.fast({pi.params[1]}, int)", r.value) is not None for r in rets)
    ctx.ob("LEN", pi, norm(rets[0].value) if rets else "_parse_rows_from_integer", rets[0] if rets else pi.node, ok,
           "the given positions reach the row index unchanged (order and repetitions kept)" if ok else
           "integer positions are transformed (sorted / de-duplicated / filtered) before they index the rows: slice no longer keeps "
           "exactly the given positions", clause="slice/slice_off keep/drop exactly the given positions")
    # ------------------------------------------------------------- SIB-2
    dn = repo.fn(f"{DF}.drop_na")
    acc = [n for n in body_nodes(dn.node) if isinstance(n, (ast.Assign, ast.AugAssign))
           and any(isinstance(x, ast.Call) and isinstance(x.func, ast.Attribute) and x.func.attr == "is_na" for x in ast.walk(n))]
    ctx.count("drop_na accumulation statements", len(acc), 1)
    for s in acc:
        v = s.value
        op = type(s.op).__name__ if isinstance(s, ast.AugAssign) else (type(v.op).__name__ if isinstance(v, ast.BinOp) else None)
        ok = op == "BitOr"
        ctx.ob("SIB-2", dn, norm(s), s, ok,
               "missing in ANY named column drops the row ('|')" if ok else
               f"per-column masks are combined with {op}: rows are dropped only when several columns are missing",
               clause="drop_na drops exactly the rows having a missing value in a named column")
        loop = None
        p = dn.module.parent.get(s)
        while p is not None and p is not dn.node:
            if isinstance(p, ast.For):
                loop = p
            p = dn.module.parent.get(p)
        ok = loop is not None and norm(loop.iter) == dn.vararg and not any(isinstance(x, (ast.Break, ast.Continue)) for x in ast.walk(loop))
        ctx.ob("SIB-2", dn, f"loop over {dn.vararg}", loop or s, ok,
               "every named column contributes" if ok else "not every named column contributes to the mask",
               nontrivial=False)
        isna = [x for x in ast.walk(s) if isinstance(x, ast.Call) and isinstance(x.func, ast.Attribute) and x.func.attr == "is_na"][0]
        ok = isinstance(isna.func.value, ast.Subscript) and loop is not None and norm(isna.func.value.slice) == norm(loop.target)
        ctx.ob("SIB-2", dn, norm(isna), isna, ok, "mask of the named column itself" if ok else "mask is not taken from the named column",
               nontrivial=False)
    rets = [n for n in body_nodes(dn.node) if isinstance(n, ast.Return)]
    ok = all(isinstance(r.value, ast.Call) and isinstance(r.value.func, ast.Attribute) and r.value.func.attr == "filter_out" for r in rets) and rets
    ctx.ob("SIB-2", dn, "return self.filter_out(mask)", rets[0] if rets else dn.node, bool(ok),
           "rows with the mask set are dropped" if ok else "drop_na does not drop the masked rows with filter_out "
           "(filter would keep exactly the rows that have missing values)", clause="drop_na")
    init = [n for n in body_nodes(dn.node) if isinstance(n, ast.Assign) and any(
        isinstance(x, ast.Constant) and isinstance(x.value, bool) for x in ast.walk(n.value))]
    ok = bool(init) and all(x.value is False for n in init for x in ast.walk(n.value) if isinstance(x, ast.Constant) and isinstance(x.value, bool))
    ctx.ob("SIB-2", dn, "mask starts all-False", init[0] if init else dn.node, ok,
           "no row is dropped unless a named column is missing" if ok else "initial mask is not all-False", nontrivial=False)
    # ------------------------------------------------------------- SIB-3
    k = 0
    for cq, size in ((DF, {"self.nrow"}), (VEC, {"self.length", "len(self)"})):
        for name in ("head", "tail", "sample"):
            fn = repo.fn(f"{cq}.{name}")
            k += clamp_check(ctx, fn, size, "head/tail keep min(n, nrow) rows")
    ctx.count("clamp sites (DataFrame + Vector)", k, 6)
    from ..guards import lower_bound
    for cq in (DF, VEC):
        for name in ("head", "tail", "sample"):
            fn = repo.fn(f"{cq}.{name}")
            for n in body_nodes(fn.node):
                if isinstance(n, ast.Slice):
                    for bound in (n.lower, n.upper):
                        if isinstance(bound, ast.UnaryOp) and isinstance(bound.op, ast.USub) and not isinstance(bound.operand, ast.Constant):
                            lb = lower_bound(repo, fn, bound.operand, n)
                            ok = lb is not None and lb >= 1
                            ctx.ob("GRD-negslice", fn, f"[{norm(n)}]", n, ok, f"{norm(bound.operand)} >= {lb}" if ok else
                                   f"slice bound -{norm(bound.operand)} where {norm(bound.operand)} can be 0: x[-0:] is the whole "
                                   f"sequence, so {name}(0) returns every row instead of none",
                                   clause="head/tail keep the first/last min(n, nrow) rows")
    from ..pattern import pmatch as _pm2
    for cq, size in ((DF, "nrow"), (VEC, "length")):
        h, t = repo.fn(f"{cq}.head"), repo.fn(f"{cq}.tail")
        S_ = h.params[0]
        hp = [c for f_, c in calls_in(h) if repo.dotted(f_, c.func) == "numpy.arange"]
        ok = len(hp) == 1 and _pm2("np.arange(_N)", hp[0]) is not None and isinstance(_pm2("np.arange(_N)", hp[0])["_N"], ast.Name)
        ctx.ob("SIB-3", h, norm(hp[0]) if hp else "np.arange(n)", hp[0] if hp else h.node, ok,
               "head selects positions 0..n-1" if ok else "head does not select exactly positions 0..n-1",
               clause="head/tail keep the first/last min(n, nrow) rows")
        tp = [c for f_, c in calls_in(t) if repo.dotted(f_, c.func) == "numpy.arange"]
        from ..forms import resolved_text as _rt2
        ok = len(tp) == 1 and ((_pm2(f"np.arange({S_}.{size} - _N, {S_}.{size})", tp[0]) is not None) or (
            len(tp[0].args) == 2 and _rt2(t, tp[0].args[1], tp[0]) == f"{S_}.{size}"
            and isinstance(tp[0].args[0], ast.BinOp) and isinstance(tp[0].args[0].op, ast.Sub)
            and _rt2(t, tp[0].args[0].left, tp[0]) == f"{S_}.{size}" and isinstance(tp[0].args[0].right, ast.Name)))
        ctx.ob("SIB-3", t, norm(tp[0]) if tp else "np.arange(size - n, size)", tp[0] if tp else t.node, ok,
               "tail selects positions size-n..size-1" if ok else "tail does not select exactly the last n positions",
               clause="head/tail keep the first/last min(n, nrow) rows")
    for cq in (DF, VEC):
        fn = repo.fn(f"{cq}.sample")
        rnd = [(f, c) for f, c in calls_in(fn) if (repo.dotted(f, c.func) or "").startswith(("numpy.random.", "random."))]
        ctx.count(f"random choice sites in {fn.qualname}", len(rnd), 1)
        for f, c in rnd:
            par = fn.module.parent.get(c)
            var = par.targets[0].id if isinstance(par, ast.Assign) and isinstance(par.targets[0], ast.Name) else None
            sorted_use = False
            for n in body_nodes(fn.node):
                if isinstance(n, ast.Call) and (repo.dotted(fn, n.func) in ("numpy.sort", "builtins.sorted")
                                                or (isinstance(n.func, ast.Attribute) and n.func.attr == "sort")):
                    names = {x.id for x in ast.walk(n) if isinstance(x, ast.Name)}
                    if var in names or c in list(ast.walk(n)):
                        sorted_use = True
            raw_use = False
            if var:
                for n in body_nodes(fn.node):
                    if isinstance(n, ast.Name) and n.id == var and isinstance(n.ctx, ast.Load):
                        p = fn.module.parent.get(n)
                        if not (isinstance(p, ast.Call) and (repo.dotted(fn, p.func) in ("numpy.sort", "builtins.sorted"))):
                            raw_use = True
            ok = sorted_use and not raw_use
            ctx.ob("SIB-3", fn, norm(c), c, ok,
                   "random positions are sorted before they index: kept rows retain their original relative order" if ok else
                   "random positions index the rows unsorted: sample returns rows in random order",
                   clause="kept rows retain their original relative order")
            rep = kw(c, "replace")
            ok = isinstance(rep, ast.Constant) and rep.value is False
            ctx.ob("SIB-3", fn, "replace=False", c, ok, "no row is drawn twice" if ok else
                   "sampling with replacement can return the same input row twice", nontrivial=False)
    # the boolean-row parser converts its argument WITH the bool dtype stated (an empty list would otherwise be float64 and
    # be rejected or mis-indexed), and drop_na looks at exactly the columns it was given
    prb = repo.functions.get(f"{DF}._parse_rows_from_boolean")
    if prb is not None and len(prb.params) > 1:
        convs = [c for _, c in calls_in(prb) if isinstance(c.func, ast.Attribute) and c.func.attr in ("fast", "as_boolean", "astype")
                 and ((c.args and norm(c.args[0]) == prb.params[1]) or norm(c.func.value) == prb.params[1])]
        okb = bool(convs) and all(c.func.attr == "as_boolean" or any(norm(a) in ("bool", "np.bool_") for a in list(c.args[1:]) + [k.value for k in c.keywords])
                                  or (c.func.attr == "astype" and c.args and norm(c.args[0]) in ("bool", "np.bool_")) for c in convs)
        ctx.ob("LEN", prb, norm(convs[0]) if convs else "Vector.fast(rows, bool)", convs[0] if convs else prb.node, okb,
               "the mask is converted to bool explicitly" if okb else
               "the mask is converted without stating bool: an empty list (the mask of a zero-row frame) is inferred as float64",
               clause="filter / filter_out accept every boolean mask of the frame's length, zero included")
    dna = repo.functions.get(f"{DF}.drop_na")
    if dna is not None and dna.vararg:
        for lp in [n for n in body_nodes(dna.node) if isinstance(n, ast.For) and isinstance(n.iter, ast.Name) and n.iter.id == dna.vararg]:
            given = all(d.kind == "param" for d in defs_reaching(dna, dna.vararg, lp.iter))
            ctx.ob("SIB-2", dna, f"for ... in {dna.vararg}: the names as given", lp, given,
                   "exactly the named columns are inspected" if given else
                   f"{dna.vararg} is rebound before the loop: with no names given the method inspects other columns than the (empty) set it was "
                   f"asked about and drops rows", clause="drops exactly the rows having a missing value in a named column")
    # ------------------------------------------------------- GRD-sentinel
    uq = repo.fn(f"{DF}.unique")
    reps = [c for f, c in calls_in(uq) if isinstance(c.func, ast.Attribute) and c.func.attr == "replace_na"]
    zips = [c for f, c in calls_in(uq) if isinstance(c.func, ast.Name) and c.func.id == "zip"]
    if not reps:
        _gen.bitpattern_keys(ctx, uq, "missing values compare equal to each other; one row per distinct key")
        raise AnalysisError("DataFrame.unique no longer normalises NaN/NaT with replace_na: idiom changed, re-confirm GRD-sentinel")
    ctx.count("NA substitution sites in unique", len(reps), 1)
    # which element types take part in the substitution?  Every type whose missing value is not equal to itself
    # (NaN, NaT of dates AND of timedeltas) must: `x in seen` compares key tuples with ==
    from ..dtclass import refine as _refine, ALL as _ALLK
    for c in reps:
        recv = c.func.value
        recv_name = recv.id if isinstance(recv, ast.Name) else None
        guards_ = []
        p_ = uq.module.parent.get(c)
        while p_ is not None and p_ is not uq.node:
            par_ = uq.module.parent.get(p_)
            if isinstance(par_, ast.If) and p_ in par_.body:
                guards_.append(par_.test)
            p_ = par_
        if recv_name is None:
            continue
        st_ = frozenset(_ALLK)
        for g_ in guards_:
            st_ = _refine(st_, g_, True, recv_name)
        need = {"F", "DT", "TD"}
        miss = sorted(need - st_)
        ctx.ob("GRD-sentinel", uq, f"element types whose missing value is normalised in the key: {sorted(st_ & need)}", c, not miss,
               "NaN and both kinds of NaT are replaced (with their mask added), so missing keys compare equal to each other" if not miss else
               f"columns of type {miss} (F float / DT datetime / TD timedelta) keep NaN/NaT inside the key tuples: NaT != NaT, so every "
               f"row with a missing key is 'distinct' -- unique keeps them all and group_by makes one group per missing row",
               clause="missing values compare equal to each other and to nothing else")
    # is an NA mask added to the key components?
    mask_added = False
    for n in body_nodes(uq.node):
        if isinstance(n, ast.Call) and isinstance(n.func, ast.Attribute) and n.func.attr in ("append", "extend", "insert"):
            argt = " ".join(norm(a) for a in n.args)
            tgt = norm(n.func.value)
            if ("is_na" in argt or _is_mask_name(uq, n)) and any(tgt in norm(z) for z in zips):
                mask_added = True
    for c in reps:
        val = c.args[0] if c.args else None
        data_dep = False
        chain = []
        if isinstance(val, ast.Name):
            for d in defs_reaching(uq, val.id, c):
                if d.value is not None:
                    t = norm(d.value)
                    chain.append(f"{val.id} = {t}")
                    if any(isinstance(x, ast.Call) and (repo.dotted(uq, x.func) or "").startswith("numpy.nan")
                           or (isinstance(x, ast.Call) and isinstance(x.func, ast.Attribute) and x.func.attr in ("min", "max"))
                           for x in ast.walk(d.value)):
                        data_dep = True
        ok = mask_added
        why = ("the NA mask is a key component of its own, so the substituted value cannot be confused with data" if ok else
               ("missing values are replaced by a sentinel computed from the data (" + "; ".join(chain) + ") and the mask is not part "
                "of the key: under IEEE-754 nanmin - 1 == nanmin for -inf and |x| >= 2**53, so a missing value compares equal to "
                "a real one and rows are lost" if data_dep else
                "missing values are replaced by a constant without the NA mask as a key component: a real value equal to the "
                "constant is merged with the missing ones"))
        ctx.ob("GRD-sentinel", uq, norm(c), c, ok, why, chain=chain,
               clause="missing values compare equal to each other and to nothing else")
    # the substituted constant is itself NOT missing: replacing NaT by NaT normalises nothing.  A NumPy scalar type called
    # without an argument gives 0 for numbers and timedelta64 but NaT for datetime64.
    from ..forms import expand as _expand02
    import re as _re02
    for c in reps:
        if not c.args:
            continue
        e_ = _expand02(uq, c.args[0], c)
        t_ = norm(e_)
        bad_ = _re02.search(r"\.dtype\.type\(\)$|^np\.datetime64\(\)$|^np\.datetime64\(['\"]NaT['\"]\)$|\.na_value$|^np\.nan$|^(float|np\.float64)\(['\"]nan['\"]\)$", t_)
        ctx.ob("GRD-sentinel", uq, f"value substituted for the missing keys: {t_[:60]}", c, not bad_,
               "a value of the column's dtype that is not missing itself" if not bad_ else
               f"{t_} is (for datetime64: np.datetime64() is NaT) itself a missing value: the missing keys are replaced by NaT, NaT != NaT, and "
               f"every row with a missing date stays its own key", clause="missing values compare equal to each other and to nothing else")
    # the first-seen scan compares the key tuples themselves
    LOSSY = {"builtins.hash", "builtins.id", "builtins.str", "builtins.repr", "builtins.len", "builtins.sum", "builtins.bool"}
    tests = [n for n in body_nodes(uq.node) if isinstance(n, ast.Compare) and len(n.ops) == 1 and isinstance(n.ops[0], (ast.NotIn, ast.In))
             and isinstance(n.comparators[0], ast.Name)]
    adds = [c for f, c in calls_in(uq) if isinstance(c.func, ast.Attribute) and c.func.attr == "add"]
    ctx.count("membership tests of the first-seen scan", len(tests), 1)
    for t in tests:
        seen = norm(t.comparators[0])
        operands = [t.left] + [c.args[0] for c in adds if norm(c.func.value) == seen and c.args]
        lossy = None
        for o in operands:
            exprs = [o]
            if isinstance(o, ast.Name):
                exprs = [d.value for d in defs_reaching(uq, o.id, t) if d.value is not None]
            for e in exprs:
                for x in ast.walk(e):
                    if isinstance(x, ast.Call) and repo.dotted(uq, x.func) in LOSSY:
                        lossy = x
        same = len({norm(o) for o in operands}) == 1
        ok = lossy is None and same and bool(adds)
        ctx.ob("SIB-seen", uq, f"{norm(t)} / add({', '.join(norm(o) for o in operands[1:])})", t, ok,
               "the set of seen keys holds the key tuples themselves and the test uses the same expression" if ok else
               (f"keys are reduced with {norm(lossy)} before the membership test: distinct keys can collide (hash(-1) == hash(-2), "
                f"hash(0) == hash(2**61-1)), so rows with different keys are dropped" if lossy is not None else
                "the expression tested for membership is not the one recorded as seen"),
               clause="unique keeps exactly the first row of every distinct key combination")
    n = grd_empty(ctx, [repo.fn(f"{DF}.{m}") for m in ("filter", "filter_out", "slice", "slice_off", "head", "tail",
                                                         "drop_na", "sample", "unique")],
                  "succeeds on 0..N rows", only=lambda f: f.module.name == "dataiter.data_frame")
    ctx.note(f"{n} partial-operation site(s) reachable from the nine methods inside data_frame.py")
    # ----------------------------------------------------------- SIB-parse
    # the column-position parsers are the row-position parsers with ncol for nrow (slice/slice_off use both)
    def _record(fn, size_attr):
        """What a position parser does, as a record: element type of the conversion, the length check, what is returned."""
        from ..forms import value_cases, resolve
        P_ = fn.params[1] if len(fn.params) > 1 else None
        rec = {}
        rets = value_cases(fn, "return")
        if len(rets) != 1 or P_ is None:
            return None
        rv = rets[0][1]
        b = pmatch("Vector.fast(_E, _T)", rv)
        if b is None:
            return None
        rec["out_type"] = text(b["_T"])
        e = b["_E"]
        bz = pmatch("np.nonzero(_M)[_K]", e)
        rec["positions"] = ("nonzero", text(bz["_K"])) if bz is not None else ("as given",)
        src = bz["_M"] if bz is not None else e
        if not isinstance(src, ast.Name):
            return None
        defs = [d for d in defs_reaching(fn, src.id, rets[0][0])]
        convs = []
        for d in defs:
            if d.kind == "param":
                convs.append("as given")
            elif d.value is not None and pmatch(f"Vector.fast({P_}, _T)", d.value) is not None:
                convs.append(text(pmatch(f"Vector.fast({P_}, _T)", d.value)["_T"]))
            elif d.value is not None and pmatch("Vector.fast(__, __)", d.value) is not None:
                convs.append(text(d.value).replace(P_, "X"))
            else:
                return None
        rec["in_type"] = sorted(set(convs))
        checks = []
        for n in body_nodes(fn.node):
            if isinstance(n, ast.Raise):
                for k, t in facts_at(fn, n):
                    if "len(" in t:
                        checks.append((k, t.replace(src.id, "X").replace(f"self.{size_attr}", "self.SIZE")))
        rec["length_check"] = sorted(checks)
        return rec
    n_tw = 0
    for kind in ("boolean", "integer"):
        fr = repo.functions.get(f"{DF}._parse_rows_from_{kind}")
        fc = repo.functions.get(f"{DF}._parse_cols_from_{kind}")
        if fr is None or fc is None:
            continue
        n_tw += 1
        rr, rc = _record(fr, "nrow"), _record(fc, "ncol")
        if rr is None or rc is None:
            ctx.note(f"SIB-parse: the {kind} position parsers are written in a form the record extractor does not read; not compared")
            continue
        ok = rr == rc
        ctx.ob("SIB-parse", fc, f"_parse_cols_from_{kind} {rc} == _parse_rows_from_{kind} {rr}", fc.node, ok,
               "column positions are parsed exactly like row positions (same length check, same conversion)" if ok else
               f"_parse_cols_from_{kind} no longer mirrors _parse_rows_from_{kind}: a boolean/integer column selector is checked or "
               f"converted differently from a row selector", clause="slice/slice_off keep/drop exactly the given positions")
    ctx.count("row/column parser twins", n_tw, 2)
    from .shared import state_read
    k = state_read(ctx, [repo.fn(f"{DF}.{m}") for m in ("filter", "filter_out", "slice", "slice_off", "head", "tail",
                                                         "drop_na", "sample", "unique")],
                   "unique keeps exactly the first row of every distinct key combination (of the named or of all columns)")
    ctx.count("functions scanned for reads of the grouping state", k, 9)


def _is_mask_name(fn, call):
    for a in call.args:
        if isinstance(a, ast.Name):
            for d in defs_reaching(fn, a.id, call):
                if d.value is not None and "is_na" in norm(d.value):
                    return True
    return False
