"""C11 -- Vector sort, rank and unique are total and mutually consistent."""
import ast
from ..common import calls_in, norm, VEC, kw, const
from ..model import AnalysisError, body_nodes
from ..cfg import cfg_of
from ..facts import cfg_node_of, facts_at
from ..dataflow import defs_reaching
from .shared import grd_empty, grd_width

EXPLANATION = (
    "Structural necessary conditions of Vector.sort / rank / unique decided from source: (ORD-3) every argsort used for "
    "ordering is kind='stable' and no unstable sort primitive is used; (SIB-na-last) every exit of sort returns "
    "X[~na].concat(X[na]) with na = X.is_na() computed after any reversal of X; (MPT-rank) every rank-method branch stores "
    "both out[~na] and out[na] before returning and the fall-through is a raise, the non-NA ranks are written before the NA "
    "ranks are derived; (ORD-unique) first-occurrence indices from np.unique(return_index=True) are sorted before indexing; "
    "(GRD-empty, GRD-width) every identity-less reduction and every fixed-width cast reachable from the three methods is "
    "guarded against empty / entirely missing input. Not decided: that the ranks are the right numbers, ordering of "
    "object vectors."
)
ASSUMPTIONS = ["np.argsort(kind='stable') and sorted() are stable; np.unique(return_index=True) returns first-occurrence indices"]

UNSTABLE_OK_KINDS = ("stable", "mergesort")


def check(ctx):
    repo = ctx.repo
    from . import generic as _gen
    _gen.language_traps(ctx, _gen.anchor_functions(repo, "C11"), "the property holds for every input, on every call")
    _gen.rank_orders_values(ctx, repo.fn("dataiter.vector.Vector.rank"), "rank is consistent with sort; missing values are ranked last")
    ctx.rule("ORD-3", "argsort sites in Vector.sort/rank use kind='stable'")
    ctx.rule("SIB-na-last", "each exit of sort returns X[~na].concat(X[na]) with na computed from the final X")
    ctx.rule("MPT-rank", "every method branch of rank fills out[~na] and out[na]; unknown methods raise")
    ctx.rule("ORD-unique", "first-occurrence indices are sorted before indexing")
    ctx.rule("GRD-empty", "identity-less reductions guarded against empty operands")
    ctx.rule("GRD-width", "fixed-width cast width >= 1")
    sort = repo.fn(f"{VEC}.sort")
    rank = repo.fn(f"{VEC}.rank")
    uniq = repo.fn(f"{VEC}.unique")
    # ------------------------------------------------------------- ORD-3
    n_arg = 0
    for fn in (sort, rank):
        for f, c in calls_in(fn):
            if isinstance(c.func, ast.Attribute) and c.func.attr == "argsort" or repo.dotted(f, c.func) == "numpy.argsort":
                n_arg += 1
                k = kw(c, "kind")
                ok = isinstance(k, ast.Constant) and k.value in UNSTABLE_OK_KINDS
                ctx.ob("ORD-3", fn, norm(c), c, ok,
                       "stable sort kind" if ok else
                       f"argsort without kind='stable' (got {norm(k) if k is not None else 'default quicksort'}): "
                       f"equal elements may be reordered, 'ordinal' ranks and sort stability break",
                       clause="ties by position")
            d = repo.dotted(f, c.func)
            if d in ("numpy.sort",) or (isinstance(c.func, ast.Attribute) and c.func.attr == "sort"
                                       and fn is not uniq and d is None):
                k = kw(c, "kind")
                ok = isinstance(k, ast.Constant) and k.value in UNSTABLE_OK_KINDS
                ctx.ob("ORD-3", fn, norm(c), c, ok, "stable" if ok else "unstable sort primitive used for ordering")
    ctx.count("argsort sites in Vector.sort/rank", n_arg, 2)
    # ------------------------------------------------------- SIB-na-last
    rets = [n for n in body_nodes(sort.node) if isinstance(n, ast.Return)]
    ctx.count("exits of Vector.sort", len(rets), 1)
    for r in rets:
        v = r.value
        ok, why = False, "return value is not X[~na].concat(X[na])"
        if (isinstance(v, ast.Call) and isinstance(v.func, ast.Attribute) and v.func.attr == "concat"
                and isinstance(v.func.value, ast.Subscript) and len(v.args) == 1 and isinstance(v.args[0], ast.Subscript)):
            a, b = v.func.value, v.args[0]
            X1, X2 = norm(a.value), norm(b.value)
            m1 = a.slice.operand if isinstance(a.slice, ast.UnaryOp) and isinstance(a.slice.op, ast.Invert) else None
            m2 = b.slice
            if X1 == X2 and m1 is not None and isinstance(m1, ast.Name) and isinstance(m2, ast.Name) and m1.id == m2.id:
                defs = defs_reaching(sort, m1.id, r)
                ok = True
                why = f"non-missing part first, missing part last; {m1.id} = {X1}.is_na() computed from the final {X1}"
                for d in defs:
                    if not (d.kind == "assign" and isinstance(d.value, ast.Call) and isinstance(d.value.func, ast.Attribute)
                            and d.value.func.attr == "is_na" and norm(d.value.func.value) == X1):
                        ok, why = False, f"{m1.id} is not {X1}.is_na()"
                        break
                    # X must not be redefined between the mask and the return
                    if isinstance(a.value, ast.Name):
                        dx_ret = {id(x.node) for x in defs_reaching(sort, a.value.id, r)}
                        dx_mask = {id(x.node) for x in defs_reaching(sort, a.value.id, d.node.ast)}
                        if dx_ret != dx_mask:
                            ok, why = False, (f"{X1} is changed (e.g. reversed) after its NA mask was computed: "
                                              f"the mask no longer matches and missing values are not last")
            else:
                why = "the two parts index different vectors or use different masks; or the missing part is first"
        if not ok and v is not None:
            # an exit taken only when nothing is missing: there is nothing to place last, the sorted vector goes out whole
            fs = facts_at(sort, r)
            for k_, t_ in fs:
                m_ = None
                if k_ == "F" and t_.endswith(".any()"):
                    m_ = t_[:-len(".any()")]
                elif k_ == "T" and t_.startswith("not ") and t_.endswith(".any()"):
                    m_ = t_[4:-len(".any()")]
                if not m_ or not m_.isidentifier():
                    continue
                mdefs = defs_reaching(sort, m_, r)
                if len(mdefs) != 1 or mdefs[0].value is None or not norm(mdefs[0].value).endswith(".is_na()"):
                    continue
                X_ = norm(mdefs[0].value)[:-len(".is_na()")]
                roots = {n.id for n in ast.walk(v) if isinstance(n, ast.Name)}
                same_x = X_.isidentifier() and {id(x.node) for x in defs_reaching(sort, X_, r)} == \
                    {id(x.node) for x in defs_reaching(sort, X_, mdefs[0].node.ast)}
                if roots == {X_} and same_x:
                    ok, why = True, f"taken only when {X_} has no missing value ({k_}:{t_}): the sorted vector is returned whole"
                    break
        ctx.ob("SIB-na-last", sort, norm(v) if v is not None else "return", r, ok, why,
               clause="missing values last in both directions")
    # ----------------------------------------------------------- MPT-rank
    cfg = cfg_of(rank)
    fall = [p for p, _ in cfg.exit.pred if not (p.kind == "stmt" and isinstance(p.ast, ast.Return))]
    # every result of sort depends on the requested direction
    from ..dataflow import depends_on
    dpar = "dir" if "dir" in sort.kwonly + sort.params else None
    n_dirdep = 0
    if dpar:
        for r in [n for n in body_nodes(sort.node) if isinstance(n, ast.Return) and n.value is not None]:
            n_dirdep += 1
            dep = depends_on(sort, r.value, r, dpar)
            ctx.ob("ORD-3", sort, f"{norm(r)[:70]} depends on {dpar}", r, dep,
                   "the result is ordered according to the requested direction" if dep else
                   f"this result of Vector.sort does not depend on {dpar}: sort(dir=-1) returns the ascending order",
                   clause="sort orders the elements in the requested direction")
    ctx.count("results of Vector.sort", n_dirdep, 1)
    ctx.ob("MPT-rank", rank, "unknown method -> raise", rank.node, not fall,
           "control cannot fall off the end of rank: unknown methods are rejected" if not fall else
           "rank can fall through and return None for an unknown method", clause="all rank methods")
    # a zero-length result only for a zero-length receiver: every other exit ranks every element
    R0 = rank.params[0]
    empt = {f"{R0}.length == 0", f"len({R0}) == 0", f"not len({R0})", f"{R0}.size == 0", f"not {R0}.length", f"{R0}.length < 1"}
    for r_ in [n for n in body_nodes(rank.node) if isinstance(n, ast.Return) and n.value is not None]:
        lits = [c for c in ast.walk(r_.value) if isinstance(c, (ast.List, ast.Tuple)) and not c.elts]
        if not lits:
            continue
        oke = any(k == "T" and t in empt for k, t in facts_at(rank, r_))
        ctx.ob("MPT-rank", rank, f"return {norm(r_.value)} only when the vector is empty", r_, oke,
               "the empty result belongs to the empty vector" if oke else
               f"{norm(r_.value)} is returned under {[t for k, t in facts_at(rank, r_) if not t.startswith('iter:')][:2]}, which also holds for "
               f"non-empty vectors (all elements missing): the rank has fewer elements than the vector, and a sort by that key loses every row "
               f"or fails", clause="rank accepts entirely missing vectors; every element receives a rank")
    branches = [n for n in rank.node.body if isinstance(n, ast.If) and "method" in norm(n.test)
                and not (n.body and isinstance(n.body[-1], ast.Raise))]        # a validation of `method` is not a ranking branch
    ctx.count("rank method branches", len(branches), 1)
    for br in branches:
        stores = []
        retn = [s for s in br.body if isinstance(s, ast.Return)]
        rnames = {n.id for n in ast.walk(retn[0].value) if isinstance(n, ast.Name)} if retn and retn[0].value is not None else set()
        for s in br.body:
            for n in ast.walk(s):
                if isinstance(n, ast.Subscript) and isinstance(n.ctx, ast.Store) and isinstance(n.value, ast.Name) \
                        and n.value.id in rnames:
                    stores.append((n, s))
        from ..forms import resolved_text
        pos = [resolved_text(rank, n.slice, n) for n, _ in stores]
        stores_txt = pos
        has_val = any(p.startswith("~") for p in pos)
        has_na = any(not p.startswith("~") and p in [q[1:] for q in pos if q.startswith("~")] for p in pos)
        ret = [s for s in br.body if isinstance(s, ast.Return)]
        ok = has_val and has_na and bool(ret)
        why = "branch fills both the non-missing and the missing positions and returns"
        if ok:
            # the result returned is the filled array
            tgt = stores[0][0].value.id
            if not (ret[0].value is not None and tgt in {n.id for n in ast.walk(ret[0].value) if isinstance(n, ast.Name)}):
                ok, why = False, "branch does not return the array it filled"
            idx_val = next(i for i, t in enumerate(pos) if t.startswith("~"))
            idx_na = next(i for i, t in enumerate(pos) if not t.startswith("~"))
            if idx_na < idx_val:
                na_stmt = stores[idx_na][1]
                if any(isinstance(n, ast.Subscript) and resolved_text(rank, n.slice, n).startswith("~") and isinstance(n.ctx, ast.Load)
                       for n in ast.walk(na_stmt.value)):
                    ok, why = False, "missing ranks are derived from the non-missing ranks before those are written"
        else:
            why = f"branch {norm(br.test)} does not fill both out[~na] and out[na] before returning (stores: {pos})"
        ctx.ob("MPT-rank", rank, f"branch {norm(br.test)}", br, ok, why, clause="missing values ranked after all others")
        # the rank given to missing values starts above every rank a non-missing element can have: it is built on the
        # NUMBER of non-missing elements (or on the total length), never on a smaller quantity such as the number of
        # distinct values
        for (n, st), ptxt in zip(stores, pos):
            if ptxt.startswith("~") or not isinstance(st, ast.Assign) or not ptxt.isidentifier():
                continue
            NA_ = ptxt
            kinds = [_count_kind(rank, t, st, NA_) for t in _terms(st.value)]
            counts = [k for k in kinds if k in ("nonmissing", "total")]
            unknown = [norm(t) for t, k in zip(_terms(st.value), kinds) if k is None]
            okc = len(counts) >= 1 and not unknown
            ctx.ob("MPT-rank", rank, f"{norm(st)}: base of the missing ranks", st, okc,
                   f"missing ranks start from the {counts[0]} count" if okc else
                   f"the rank given to missing values is built from {unknown or 'no count'}, not from the number of non-missing elements "
                   f"(or the total length): with repeated values it is not above every real rank, so missing elements are ranked "
                   f"among -- not after -- the others", clause="missing values ranked after all others")
    # ---------------------------------------------------------- ORD-unique
    us = [c for f, c in calls_in(uniq) if repo.dotted(f, c.func) == "numpy.unique"]
    if not us:
        # de-duplication by hashing / == of the raw elements: NaN and NaT are not equal to themselves, so every missing
        # element stays "distinct" (np.unique treats them as equal)
        hashed = [c for f, c in calls_in(uniq) if (repo.dotted(f, c.func) or "") in ("dataiter.util.unique_keys", "builtins.set", "builtins.dict.fromkeys",
                                                                                     "builtins.frozenset")
                  or norm(c.func) in ("dict.fromkeys", "set", "util.unique_keys")]
        if hashed:
            ctx.ob("ORD-unique", uniq, norm(hashed[0])[:70], hashed[0], False,
                   f"{norm(hashed[0])[:50]} de-duplicates by hash and ==: NaN != NaN and NaT != NaT, so a vector with several missing "
                   f"values keeps all of them (and an all-missing vector is returned whole), where each distinct value -- the missing "
                   f"one included -- is to appear once", clause="unique returns each distinct value once, missing values included")
        # the array-API spellings np.unique_all / unique_counts / unique_inverse / unique_values fix equal_nan=False
        api = [c for f, c in calls_in(uniq) if (repo.dotted(f, c.func) or "") in ("numpy.unique_all", "numpy.unique_counts", "numpy.unique_inverse",
                                                                                "numpy.unique_values")]
        if api:
            ctx.ob("ORD-unique", uniq, norm(api[0])[:70], api[0], False,
                   f"{norm(api[0].func)} is np.unique with equal_nan=False built in: every NaN / NaT counts as a value of its own, so a vector "
                   f"with several missing values returns the missing value once per occurrence",
                   clause="unique returns each distinct value once, missing values included")
            us = api
    for c in [c for c in us if (repo.dotted(uniq, c.func) or "") == "numpy.unique"]:
        en = kw(c, "equal_nan")
        if en is not None and isinstance(en, ast.Constant) and en.value is False:
            ctx.ob("ORD-unique", uniq, norm(c)[:70], c, False,
                   "equal_nan=False: every NaN / NaT counts as a value of its own, so several missing values are all returned",
                   clause="unique returns each distinct value once, missing values included")
    ctx.count("np.unique sites in Vector.unique", len(us), 1)
    for c in us:
        ri = kw(c, "return_index")
        ok = isinstance(ri, ast.Constant) and ri.value is True
        ctx.ob("ORD-unique", uniq, norm(c), c, ok,
               "first-occurrence indices requested" if ok else "np.unique without return_index: values come back sorted, "
               "not in order of first occurrence", clause="order of first occurrence")
    rets = [n for n in body_nodes(uniq.node) if isinstance(n, ast.Return)]
    for r in rets:
        subs = [n for n in ast.walk(r.value) if isinstance(n, ast.Subscript)]
        ok = False
        for s in subs:
            t = norm(s.slice)
            if ".sort(" in t or t.startswith("np.sort(") or t.startswith("sorted("):
                ok = True
            elif isinstance(s.slice, ast.Name):
                for d in defs_reaching(uniq, s.slice.id, r):
                    if d.value is not None and (".sort(" in norm(d.value) or "np.sort(" in norm(d.value) or "sorted(" in norm(d.value)):
                        ok = True
        if not ok:
            # used as they are only under a test that they are already increasing (neighbours compared, not subtracted)
            import re as _re
            for s in subs:
                if not isinstance(s.slice, ast.Name):
                    continue
                I_ = _re.escape(s.slice.id)
                pats = [rf"^\(?{I_}\[1:\] >=? {I_}\[:-1\]\)?\.all\(\)$", rf"^\(?{I_}\[:-1\] <=? {I_}\[1:\]\)?\.all\(\)$",
                        rf"^(np|numpy)\.all\({I_}\[1:\] >=? {I_}\[:-1\]\)$", rf"^(np|numpy)\.all\({I_}\[:-1\] <=? {I_}\[1:\]\)$"]
                if any(k_ == "T" and any(_re.match(p_, t_) for p_ in pats) for k_, t_ in facts_at(uniq, r)):
                    ok = True
        ctx.ob("ORD-unique", uniq, norm(r.value), r, ok,
               "indices are sorted before they index the vector (or tested to be increasing already)" if ok else
               "first-occurrence indices are used unsorted: result is in value order, not in order of first occurrence",
               clause="order of first occurrence")
    # ------------------------------------------------ GRD-empty / GRD-width
    n = grd_empty(ctx, [sort, rank, uniq], "accept empty and entirely missing vectors",
                  only=lambda f: f.module.name == "dataiter.vector")
    ctx.count("partial-operation sites", n, 1)
    from ..guards import nonempty
    cc = repo.fn(f"{VEC}.concat")
    for f_, c_ in calls_in(cc):
        if repo.dotted(f_, c_.func) == "numpy.concatenate" and c_.args:
            ok_, why_ = nonempty(repo, f_, c_.args[0], c_)
            ctx.ob("GRD-empty", cc, norm(c_), c_, ok_, f"np.concatenate receives at least one array: {why_}" if ok_ else
                   f"np.concatenate may receive an empty list ({why_}): it raises ValueError, so sort / unique fail on a length-0 vector",
                   clause="accept empty and entirely missing vectors")
    w = grd_width(ctx, [sort, rank, uniq], "accept empty and entirely missing vectors")
    ctx.count("fixed-width cast sites", w, 1)


def _terms(e):
    if isinstance(e, ast.BinOp) and isinstance(e.op, ast.Add):
        return _terms(e.left) + _terms(e.right)
    return [e]


def _count_kind(fn, t, at, na_name):
    """'nonmissing' / 'total' for an expression counting elements, 'offset' for constants and aranges, None otherwise."""
    from ..forms import resolve
    from ..dataflow import defs_reaching
    from ..pattern import pmatch
    from ..forms import resolved_text
    try:
        t = ast.parse(resolved_text(fn, t, at), mode="eval").body
    except SyntaxError:
        pass
    S0 = fn.params[0]
    if isinstance(t, ast.Constant) and isinstance(t.value, int):
        return "offset"
    if pmatch("np.arange(__)", t) is not None or pmatch("np.arange(__) + __", t) is not None:
        return "offset"
    for pat in (f"(~{na_name}).sum()", f"np.count_nonzero(~{na_name})", f"np.sum(~{na_name})", f"len({S0}) - {na_name}.sum()",
                f"{S0}.length - {na_name}.sum()", f"len({S0}[~{na_name}])", f"{S0}[~{na_name}].size"):
        if pmatch(pat, t) is not None:
            return "nonmissing"
    for pat in (f"len({S0})", f"{S0}.length", f"{S0}.size", f"len({na_name})", f"{na_name}.size"):
        if pmatch(pat, t) is not None:
            return "total"
    b = pmatch("len(_X)", t) or pmatch("_X.size", t)
    if b is not None and isinstance(b["_X"], ast.Name):
        # X derived, length-preservingly, from self[~na]
        seen = set()
        cur = [b["_X"].id]
        while cur:
            nm = cur.pop()
            if nm in seen:
                continue
            seen.add(nm)
            for d in defs_reaching(fn, nm, at):
                v = d.value
                if v is None or not isinstance(d.target, ast.Name):
                    return None
                # strip length-preserving wrappers
                while True:
                    if isinstance(v, ast.Call) and isinstance(v.func, ast.Attribute) and v.func.attr in ("argsort", "copy", "astype", "view") :
                        v = v.func.value
                    elif isinstance(v, ast.Call) and isinstance(v.func, ast.Attribute) and isinstance(v.func.value, ast.Name) and v.func.value.id == "np" \
                            and v.func.attr in ("zeros_like", "ones_like", "empty_like", "argsort", "asarray") and v.args:
                        v = v.args[0]
                    else:
                        break
                if pmatch(f"{S0}[~{na_name}]", v) is not None or \
                        resolved_text(fn, v, d.node.ast if d.node is not None else at).replace("(", "").replace(")", "") == f"{S0}[~{na_name}]":
                    continue
                if isinstance(v, ast.Name):
                    cur.append(v.id)
                    continue
                return None
        return "nonmissing"
    return None
