"""C18 -- GeoJSON read/write is faithful to the feature collection."""
import ast
from ..facts import facts_at
from ..common import precedes, calls_in, norm, GEO, kw
from ..model import AnalysisError, body_nodes
from ..signatures import name_uses
from ..dataflow import defs_reaching, comprehension_binding
from ..pattern import pmatch, pstmt, text

EXPLANATION = (
    "Hand-assembled JSON writer and the reader checked for: (TNT-json) every dynamic fragment interpolated into text given to "
    "f.write is the result of json.dumps, an indent built from ' ' * n, or a choice between string literals -- a raw name or value "
    "makes the file invalid JSON for some input; (SIB-16) writer and reader agree on member names: the literal keys emitted per "
    "feature equal FEATURE_KEYS, the emitted type is in FEATURE_TYPES, 'features' is the top-level member on both sides, the writer "
    "iterates all metadata members, the reader removes only 'features' before keeping the rest as metadata; (FILL) property columns "
    "are the union of keys over all features, filled with .get(key, None), geometry and properties read from the same feature "
    "sequence in file order; (FWD-live) encoding, columns, dtypes, indent and **kwargs reach a use. Not decided: value fidelity, "
    "float formatting."
)
ASSUMPTIONS = ["json.dumps produces valid JSON text for every JSON value and for every str used as a member name"]


def classify_fragment(repo, fn, expr, at, depth=4):
    """'json' | 'indent' | 'literal' | 'raw:<why>' for an interpolated expression."""
    if depth == 0:
        return "raw:definition chain too deep"
    if isinstance(expr, ast.Constant) and isinstance(expr.value, str):
        return "literal"
    if isinstance(expr, ast.IfExp):
        a = classify_fragment(repo, fn, expr.body, at, depth - 1)
        b = classify_fragment(repo, fn, expr.orelse, at, depth - 1)
        if a == b:
            return a
        if {a, b} <= {"literal", "indent"}:
            return "indent"
        return a if a.startswith("raw") else b
    if isinstance(expr, ast.Call) and repo.dotted(fn, expr.func) == "json.dumps":
        return "json"
    if isinstance(expr, ast.Call) and isinstance(expr.func, ast.Name) and not comprehension_binding(fn, expr.func.id, expr):
        # a local serialiser: dumps = functools.partial(json.dumps, ...) / json.JSONEncoder(...).encode / json.dumps
        ds = defs_reaching(fn, expr.func.id, at)

        def _serialiser(v):
            if v is None:
                return False
            if repo.dotted(fn, v) == "json.dumps":
                return True
            if isinstance(v, ast.Call) and repo.dotted(fn, v.func) == "functools.partial" and v.args and repo.dotted(fn, v.args[0]) == "json.dumps":
                return True
            if isinstance(v, ast.Attribute) and v.attr == "encode" and isinstance(v.value, ast.Call) \
                    and repo.dotted(fn, v.value.func) == "json.JSONEncoder":
                return True
            return False
        if ds and all(d.kind == "assign" and _serialiser(d.value) for d in ds):
            return "json"
    if isinstance(expr, ast.BinOp) and isinstance(expr.op, ast.Mult):
        sides = [expr.left, expr.right]
        if any(isinstance(s, ast.Constant) and isinstance(s.value, str) and s.value.strip() == "" for s in sides) or \
                any(classify_fragment(repo, fn, s, at, depth - 1) == "indent" for s in sides):
            return "indent"
    if isinstance(expr, ast.Name):
        if comprehension_binding(fn, expr.id, expr):
            return f"raw:{expr.id} is a comprehension variable"
        kinds = set()
        for d in defs_reaching(fn, expr.id, at):
            if d.kind in ("assign", "walrus") and d.value is not None and isinstance(d.target, (ast.Name, type(None))):
                site = d.node.ast if d.node is not None else at
                kinds.add(classify_fragment(repo, fn, d.value, site, depth - 1))
            elif d.kind == "for":
                kinds.add(f"raw:{expr.id} is bound by the loop over {norm(d.value)} and written as is")
            else:
                kinds.add(f"raw:{expr.id} ({d.kind})")
        if len(kinds) == 1:
            return kinds.pop()
        raws = [k for k in kinds if k.startswith("raw")]
        return raws[0] if raws else "raw:mixed definitions"
    return f"raw:{norm(expr)}"


def check(ctx):
    repo = ctx.repo
    from . import generic as _gen
    _gen.language_traps(ctx, _gen.anchor_functions(repo, "C18"), "the property holds for every input, on every call")
    for r, t in (("TNT-json", "dynamic text written to the file is json.dumps output, an indent, or a literal choice"),
                 ("SIB-16", "writer/reader member-name agreement, metadata handling"),
                 ("FILL", "property columns = union of keys, filled with .get(key, None), one feature sequence"),
                 ("FWD-live", "options reach a use")):
        ctx.rule(r, t)
    w = repo.fn(f"{GEO}.write")
    r = repo.fn(f"{GEO}.read")
    cls = repo.cls(GEO)
    writes = [c for f, c in calls_in(w) if isinstance(c.func, ast.Attribute) and c.func.attr == "write"]
    ctx.count("f.write sites in GeoJSON.write", len(writes), 5)
    n_frag = 0
    for c in writes:
        arg = c.args[0] if c.args else None
        frags = []
        if isinstance(arg, ast.JoinedStr):
            frags = [v.value for v in arg.values if isinstance(v, ast.FormattedValue)]
        elif isinstance(arg, ast.Constant):
            frags = []
        elif arg is not None:
            frags = [arg]
        for fr in frags:
            n_frag += 1
            k = classify_fragment(repo, w, fr, c)
            ok = not k.startswith("raw")
            ctx.ob("TNT-json", w, f"{norm(fr)} in {norm(arg)[:60]}", c, ok,
                   f"fragment is {k}" if ok else
                   f"fragment {norm(fr)} is interpolated into the JSON text unescaped ({k[4:]}): a value containing '\"' or '\\' "
                   f"yields a file that is not valid JSON",
                   clause="the written file is valid JSON for arbitrary member names and values")
    # the separator between features is chosen by POSITION (a counter against the length), not by comparing feature values:
    # a feature equal to the last one would lose its comma
    for c in writes:
        arg = c.args[0] if c.args else None
        if not isinstance(arg, ast.JoinedStr):
            continue
        for fv in [v.value for v in arg.values if isinstance(v, ast.FormattedValue) and isinstance(v.value, ast.Name)]:
            for d in defs_reaching(w, fv.id, c):
                v = d.value
                if not (isinstance(v, ast.IfExp) and isinstance(v.body, ast.Constant) and isinstance(v.orelse, ast.Constant)
                        and {v.body.value, v.orelse.value} == {",", ""}):
                    continue
                loop = None
                p_ = w.module.parent.get(d.node.ast) if d.node is not None else None
                while p_ is not None and p_ is not w.node:
                    if isinstance(p_, ast.For):
                        loop = p_
                        break
                    p_ = w.module.parent.get(p_)
                if loop is None:
                    continue
                tnames = {n.id for n in ast.walk(v.test) if isinstance(n, ast.Name)}
                tgt = loop.target
                counter = None
                item_names = {n.id for n in ast.walk(tgt) if isinstance(n, ast.Name)}
                if isinstance(tgt, ast.Tuple) and isinstance(loop.iter, ast.Call) and norm(loop.iter.func) == "enumerate" and isinstance(tgt.elts[0], ast.Name):
                    counter = tgt.elts[0].id
                    item_names -= {counter}
                by_value = bool(tnames & item_names)
                ctx.ob("TNT-json", w, f"separator {norm(v)[:60]}", d.node.ast, not by_value,
                       "the comma is decided by the feature's position" if not by_value else
                       f"the comma after a feature is decided by comparing the feature itself ({norm(v.test)}): a feature equal to the last one "
                       f"(same properties and geometry) gets no comma, and the file is not valid JSON",
                       clause="the written file is valid JSON")
    ctx.count("dynamic fragments", n_frag, 6)
    # ---------------------------------------------------------------- SIB-16
    def const_list(name):
        v = cls.attrs.get(name)
        if isinstance(v, ast.List):
            return [e.value for e in v.elts if isinstance(e, ast.Constant)]
        return None
    fkeys = const_list("FEATURE_KEYS")
    ftypes = const_list("FEATURE_TYPES")
    if fkeys is None or ftypes is None:
        raise AnalysisError("anchor vanished: GeoJSON.FEATURE_KEYS / FEATURE_TYPES are no longer literal lists")
    dicts = [n for n in ast.walk(w.node) if isinstance(n, ast.Dict) and any(
        isinstance(k, ast.Constant) and k.value == "geometry" for k in n.keys)]
    ctx.count("feature dict literals in write", len(dicts), 1)
    for d in dicts:
        keys = [k.value for k in d.keys if isinstance(k, ast.Constant)]
        ok = sorted(keys) == sorted(fkeys)
        ctx.ob("SIB-16", w, norm(d), d, ok,
               f"writer emits exactly FEATURE_KEYS {fkeys}" if ok else
               f"writer emits members {keys}, reader knows {fkeys}: a member is lost or ignored on re-reading",
               clause="writing and re-reading returns a frame with the same columns")
        tv = [v.value for k, v in zip(d.keys, d.values) if isinstance(k, ast.Constant) and k.value == "type" and isinstance(v, ast.Constant)]
        ok = bool(tv) and tv[0] in ftypes
        ctx.ob("SIB-16", w, f"type = {tv}", d, ok, "emitted feature type is accepted by the reader" if ok else
               f"emitted feature type {tv} is not in FEATURE_TYPES {ftypes}: the reader rejects the writer's own file", nontrivial=False)
        roles = {k.value: norm(v) for k, v in zip(d.keys, d.values) if isinstance(k, ast.Constant)}
        pops = [n for n in body_nodes(w.node) if isinstance(n, ast.Assign) and isinstance(n.value, ast.Call)
                and isinstance(n.value.func, ast.Attribute) and n.value.func.attr == "pop" and n.value.args
                and isinstance(n.value.args[0], ast.Constant) and n.value.args[0].value == "geometry"]
        ok = bool(pops) and roles.get("geometry") == norm(pops[0].targets[0]) and roles.get("properties") == norm(pops[0].value.func.value)
        ctx.ob("SIB-16", w, "geometry popped from the row, the rest are the properties", pops[0] if pops else d, ok,
               "geometry goes under 'geometry', all other columns under 'properties'" if ok else
               "geometry/properties are not separated by popping 'geometry' from the row dict", nontrivial=False)
    for d in dicts:
        pv = [v for k, v in zip(d.keys, d.values) if isinstance(k, ast.Constant) and k.value == "properties"]
        if pv and isinstance(pv[0], ast.Name):
            ds = defs_reaching(w, pv[0].id, d)
            ok = bool(ds) and all(dd.kind == "for" for dd in ds)
            ctx.ob("SIB-16", w, f"properties = {pv[0].id} ({', '.join(dd.kind + (':' + norm(dd.value) if dd.value is not None else '') for dd in ds)[:120]})",
                   d, ok, "the row's own dict (minus geometry) is written as the properties" if ok else
                   f"{pv[0].id} is rebuilt/filtered before it is written: properties (e.g. null ones) are dropped, so a column that is "
                   f"missing in every row disappears when the file is read back", clause="a frame with the same columns")
    lits = [n.value for n in ast.walk(w.node) if isinstance(n, ast.Constant) and isinstance(n.value, str)]
    w_has = any('"features"' in s for s in lits)
    r_has = any(isinstance(n, ast.Attribute) and n.attr == "features" for n in ast.walk(r.node)) or \
        any(isinstance(n, ast.Constant) and n.value == "features" for n in ast.walk(r.node))
    ctx.ob("SIB-16", w, "top-level member 'features' on both sides", w.node, w_has and r_has,
           "writer emits and reader consumes 'features'" if (w_has and r_has) else "writer and reader disagree on the top-level member holding the features")
    mloops = [n for n in ast.walk(w.node) if isinstance(n, ast.For) and "metadata" in norm(n.iter)]
    ok = bool(mloops) and all(norm(l.iter).endswith("metadata.items()") and not any(
        isinstance(x, (ast.Continue, ast.Break)) or (isinstance(x, ast.If)) for x in ast.walk(l) if x is not l) for l in mloops)
    ctx.ob("SIB-16", w, "for key, value in self.metadata.items()", mloops[0] if mloops else w.node, ok,
           "every metadata member is written" if ok else "some metadata members are skipped by the writer",
           clause="all other top-level members in metadata ... equal metadata")
    rawdef = [n for n in body_nodes(r.node) if isinstance(n, ast.Assign) and isinstance(n.targets[0], ast.Name)
              and any(isinstance(c, ast.Call) and repo.dotted(r, c.func) in ("json.load", "json.loads") for c in ast.walk(n.value))]
    RAW = norm(rawdef[0].targets[0]) if rawdef else "raw"
    dels = [n for n in body_nodes(r.node) if isinstance(n, ast.Delete)]
    del_t = [norm(t) for n in dels for t in n.targets]
    pops = [norm(c) for f, c in calls_in(r) if isinstance(c.func, ast.Attribute) and c.func.attr == "pop" and norm(c.func.value) == RAW]
    removed = del_t + pops
    ok = len(removed) == 1 and "features" in removed[0]
    ctx.ob("SIB-16", r, f"members removed from the raw object: {removed}", dels[0] if dels else r.node, ok,
           "only 'features' is removed before the rest becomes metadata" if ok else
           f"reader removes {removed} from the raw object: other top-level members are lost (or 'features' is duplicated in metadata)",
           clause="all other top-level members in metadata")
    meta = [n for n in body_nodes(r.node) if isinstance(n, ast.Assign) and isinstance(n.targets[0], ast.Attribute) and n.targets[0].attr == "metadata"]
    ok = bool(meta) and norm(meta[0].value) == RAW
    if meta:
        # every frame the reader returns has received its metadata: no return avoids the assignment
        from ..cfg import cfg_of as _cfg18
        cfg_r = _cfg18(r)
        mnodes = {id(cfg_r.node_of(m_, r.module.parent)) for m_ in meta}
        path = cfg_r.path_avoiding(lambda nd: id(nd) in mnodes)
        okp = path is None
        tests_ = [norm(p_.ast) for p_ in (path or []) if p_.kind == "test" and p_.ast is not None]
        ctx.ob("SIB-16", r, "every return of read() follows `<frame>.metadata = ...`", meta[0], okp,
               "no exit avoids the metadata assignment" if okp else
               f"a path through read() returns a frame without storing the other top-level members as metadata (under {tests_[-2:]}): for "
               f"such a file name / crs / bbox are lost on reading and therefore in the re-written file",
               clause="all other top-level members in metadata ... equal metadata")
    ctx.ob("SIB-16", r, norm(meta[0]) if meta else "data.metadata = raw", meta[0] if meta else r.node, ok,
           "metadata is the raw object minus features" if ok else "metadata is not taken from the raw object", nontrivial=False)
    if meta and dels:
        ok = precedes(r, dels[0], meta[0])
        ctx.ob("SIB-16", r, "features removed before metadata is stored", meta[0], ok,
               "order is remove-then-store" if ok else "metadata is stored before features are removed", nontrivial=False)
    # ------------------------------------------------------------------ FILL
    floops = [n for n in r.node.body + [x for w_ in r.node.body if isinstance(w_, ast.With) for x in w_.body]
              if isinstance(n, ast.For) and norm(n.iter).endswith(".features")]
    if not floops:
        # delegated column building: <list of property dicts>._to_columns() -- judged by where THAT helper takes its keys from
        for _, c in calls_in(r):
            if isinstance(c.func, ast.Attribute) and c.func.attr == "_to_columns":
                tc = repo.functions.get("dataiter.list_of_dicts.ListOfDicts._to_columns")
                comps = [n for n in body_nodes(tc.node) if isinstance(n, ast.DictComp)] if tc is not None else []
                first_only = [n for n in comps if isinstance(n.generators[0].iter, ast.Subscript)
                              and isinstance(n.generators[0].iter.slice, ast.Constant)]
                if first_only:
                    ctx.ob("FILL", r, norm(c)[:70], c, False,
                           f"the property columns come from ListOfDicts._to_columns, whose keys are those of ONE item "
                           f"(`for k in {norm(first_only[0].generators[0].iter)}`): a property key that the first feature lacks gets no column at all",
                           clause="a column for every property key occurring in any feature, None where a feature lacks it")
    ctx.count("loops over raw.features in read", len(floops), 1)
    srcs = {norm(l.iter) for l in floops}
    geo = [n for n in body_nodes(r.node) if isinstance(n, ast.Assign) and isinstance(n.targets[0], ast.Subscript)
           and isinstance(n.targets[0].slice, ast.Constant) and n.targets[0].slice.value == "geometry"]
    # elements of the geometry column, whether it is a comprehension or a list filled in a loop
    from ..forms import contributions
    gcontrib = []
    for n in geo:
        v = n.value
        if isinstance(v, ast.ListComp):
            gcontrib.append({"value": v.elt, "iter": v.generators[0].iter, "ifs": [norm(c) for g in v.generators for c in g.ifs],
                             "target": v.generators[0].target, "node": n})
        elif isinstance(v, ast.Name):
            for x in contributions(r, v.id, n):
                if x.get("whole"):
                    gcontrib.append({"value": x["value"], "iter": None, "ifs": ["?"], "target": None, "node": x["node"]})
                    continue
                fx = [t for k, t in facts_at(r, x["node"]) if k in ("T", "F") and not t.startswith("iter:")]
                gcontrib.append({"value": x["value"], "iter": x["iter"], "ifs": fx, "target": x["target"], "node": x["node"]})
    gsrc = {norm(x["iter"]) for x in gcontrib if x["iter"] is not None}
    ok = len(srcs | gsrc) == 1 and bool(geo) and bool(gcontrib) and all(x["iter"] is not None for x in gcontrib)
    ctx.ob("FILL", r, f"feature sequences {sorted(srcs | gsrc)}", geo[0] if geo else r.node, ok,
           "properties and geometry are read from the same feature sequence, in file order" if ok else
           "properties and geometry iterate different sequences (or in different order): rows are misaligned",
           clause="one row per feature in file order")
    if geo:
        ok = len(gcontrib) == 1 and not gcontrib[0]["ifs"] and gcontrib[0]["target"] is not None \
            and norm(gcontrib[0]["value"]) == f"{norm(gcontrib[0]['target'])}.geometry"
        ctx.ob("FILL", r, norm(geo[0]), geo[0], ok, "every feature's geometry object is kept unchanged (null included)" if ok else
               "geometries are filtered or transformed while reading", clause="the geometry objects unchanged in a geometry column")
    sd = [c for f, c in calls_in(r) if isinstance(c.func, ast.Attribute) and c.func.attr == "setdefault"]
    # the same collection as a comprehension: {k: [] for x in raw.features for k in x.properties}
    dcomp = [n for n in body_nodes(r.node) if isinstance(n, ast.Assign) and isinstance(n.value, ast.DictComp)
             and isinstance(n.targets[0], ast.Name) and isinstance(n.value.value, (ast.List,)) and not n.value.value.elts
             and len(n.value.generators) == 2 and norm(n.value.generators[0].iter).endswith(".features")]
    if not sd and dcomp:
        g0, g1 = dcomp[0].value.generators
        okc = not g0.ifs and not g1.ifs and norm(g1.iter) in (f"{norm(g0.target)}.properties", f"{norm(g0.target)}.properties.keys()") \
            and norm(dcomp[0].value.key) == norm(g1.target)
        ctx.ob("FILL", r, norm(dcomp[0])[:80], dcomp[0], okc,
               "columns are the union of property keys over all features, each with a list of its own" if okc else
               "property columns are not collected from every key of every feature",
               clause="a column for every property key occurring in any feature")
        floops = floops + [dcomp[0]] if len(floops) < 2 else floops
    if not sd and not dcomp:
        raise AnalysisError("GeoJSON.read no longer collects its property columns with data.setdefault(key, []) over the features: "
                            "the column assembly was rewritten; FILL cannot read it")
    if sd:
        ok = any(_inside(r, c, fl) for c in sd for fl in floops)
        ctx.ob("FILL", r, "data.setdefault(key, []) for every key of every feature", sd[0], ok,
               "columns are the union of property keys over all features" if ok else
               "property columns are not collected from every feature (e.g. only from the first)",
               clause="a column for every property key occurring in any feature")
    gets = [c for f, c in calls_in(r) if isinstance(c.func, ast.Attribute) and c.func.attr == "get" and "properties" in norm(c.func.value)]
    ok = bool(gets) and all(len(c.args) == 1 or norm(c.args[1]) == "None" for c in gets)
    ctx.ob("FILL", r, norm(gets[0]) if gets else "feature.properties.get(key, None)", gets[0] if gets else r.node, ok,
           "a feature lacking a key contributes None" if ok else "missing properties are not filled with None",
           clause="missing where a feature lacks it")
    floops = [fl for fl in floops if isinstance(fl, ast.For)]
    if gets and (len(floops) >= 2 or (dcomp and floops)):
        inner = [n for n in ast.walk(floops[-1]) if isinstance(n, ast.For) and n is not floops[-1]]
        dn = norm(sd[0].func.value) if sd else (norm(dcomp[0].targets[0]) if dcomp else "data")
        ok = bool(inner) and norm(inner[0].iter) in (dn, f"{dn}.keys()", f"list({dn})")
        app = [c for f, c in calls_in(r) if isinstance(c.func, ast.Attribute) and c.func.attr == "append" and _inside(r, c, floops[-1])]
        ok = ok and bool(app) and not any(isinstance(x, (ast.Continue, ast.Break)) for x in ast.walk(floops[-1]))
        ctx.ob("FILL", r, "every feature appends one value to every column", floops[-1], ok,
               "each column receives exactly one value per feature" if ok else
               "some feature/column combinations append no value: columns end up with different lengths or shifted rows",
               clause="one row per feature")
    # -------------------------------------------------------------- FWD-live
    for fn in (r, w):
        for p in fn.kwonly + ([fn.kwarg] if fn.kwarg else []):
            uses = name_uses(fn, p)
            ctx.ob("FWD-live", fn, f"option {p}", fn.node, bool(uses),
                   f"{p} used at line(s) {sorted({u.lineno for u in uses})}" if uses else f"option {p!r} is ignored for every value",
                   nontrivial=False)
    ind = [c for f, c in calls_in(w) if isinstance(c.func, ast.Attribute) and c.func.attr == "pop" and c.args
           and isinstance(c.args[0], ast.Constant) and c.args[0].value == "indent"]
    ctx.ob("FWD-live", w, "indent taken out of kwargs before json.dumps", ind[0] if ind else w.node, bool(ind),
           "indent drives the hand-written layout only" if ind else
           "indent stays in kwargs: json.dumps pretty-prints each feature across lines", nontrivial=False, clause="any indent")


def _inside(fn, node, anc):
    p = node
    while p is not None:
        if p is anc:
            return True
        p = fn.module.parent.get(p)
    return False
