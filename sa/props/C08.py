"""C08 -- Numba acceleration never changes aggregation results (dispatch wiring and twin structure only)."""
import ast
from ..common import calls_in, norm, kw
from ..model import AnalysisError, body_nodes
from .. import aggfeat as A

EXPLANATION = (
    "Decides ONLY dispatch wiring and the structure of the duplicated kernels -- necessary conditions for the two implementations "
    "to agree: (SIB-8) every (python, numba) pair handed to select() is ordered python first (select indexes the pair with the "
    "boolean use_numba), twins have identical parameter lists, iterate yield_groups / yield_groups_numba with the same arguments, "
    "and agree on threshold, under-threshold default and statistic (>= 1 is > 0); yield_groups and yield_groups_numba are the same "
    "loop modulo yield/append and the NA test; every Numba kernel is decorated njit(cache=dataiter.USE_NUMBA_CACHE); use_numba's "
    "dtype list equals the statement's (boolean, integer, float, date/datetime); the mode kernel counts occurrences over the whole "
    "group; (PURE-kernel) no kernel writes to or sorts in place the group slices it receives (they are views of the frame's "
    "column: a write changes what the next helper in the same call sees -- the order-of-use clause as far as code shape shows it); "
    "(SIB-9) for every element kind use_numba() admits -- its np.issubdtype disjuncts evaluated through NumPy's scalar hierarchy, in "
    "which timedelta64 is a sub-dtype of np.integer -- the Numba-side NA test is the one Vector.is_na applies (Float -> isnan, "
    "NPDatetime/NPTimedelta -> isnat, others never missing); (NJIT-optional) no compiled kernel returns a list that mixes element "
    "values with None: with the installed Numba such list(Optional(T)) results depend on which of these kernels was compiled first "
    "(known finding D25: four sites, failing histories in notes/numba_optional_lists.md). NOT decided: equality of values between "
    "NumPy and Numba's re-implementations (e.g. the hand-written mode loops), rounding, the on-disk JIT cache."
)
ASSUMPTIONS = ["Numba compiles the decorated functions faithfully; the on-disk cache returns the code it was given"]

INPLACE = {"sort", "fill", "put", "partition", "resize", "itemset", "reverse", "append", "extend", "insert", "pop", "remove", "clear"}


def check(ctx):
    repo = ctx.repo
    from . import generic as _gen
    _gen.language_traps(ctx, _gen.anchor_functions(repo, "C08"), "the property holds for every input, on every call")
    _gen.split_pieces_on_empty(ctx, repo, [f for f in _gen.module_functions(repo, "dataiter.aggregate") if f.name.startswith("yield_groups")],
                                 "one summary per group: a zero-row frame has no groups, with Numba or without")
    from . import generic
    generic.value_casts(ctx, [f for f in generic.module_functions(repo, "dataiter.aggregate") if "numba" in f.name],
                        "the compiled kernel returns the same values as the Python kernel for every element type it is admitted for")
    generic.inplace_options(ctx, generic.module_functions(repo, "dataiter.aggregate"),
                            "the same values whatever aggregations were run before it, in the same call")
    for r, t in (("SIB-8", "python/numba twin agreement and dispatch order"),
                 ("PURE-kernel", "kernels never write or reorder the group slices in place"),
                 ("SIB-9", "for every element kind use_numba() admits (scalar hierarchy / dtype.kind), the Numba NA test equals Vector.is_na's"),
                 ("NJIT-optional", "no compiled kernel returns a list mixing element values with None (list(Optional(T)): compile-order dependent)")):
        ctx.rule(r, t)
    agg = repo.modules[A.AGG]
    sel = repo.fn(f"{A.AGG}.select")
    rets = [n for n in body_nodes(sel.node) if isinstance(n, ast.Return)]
    ok = len(rets) == 1 and norm(rets[0].value) == f"{sel.params[0]}[use_numba({sel.params[1]}[{sel.params[2]}])]"
    ctx.ob("SIB-8", sel, norm(rets[0].value) if rets else "select", rets[0] if rets else sel.node, ok,
           "the pair is indexed by the boolean use_numba(column): element 0 is the Python, element 1 the Numba implementation" if ok else
           "select no longer indexes the pair with use_numba(data[name])", clause="USE_NUMBA switched on as with it switched off")
    un = repo.fn(f"{A.AGG}.use_numba")
    kinds = sorted(_admitted_kinds(repo, un))
    want = {"boolean", "integer", "float", "datetime"}
    rets_un = [r.value for r in body_nodes(un.node) if isinstance(r, ast.Return) and r.value is not None]
    switch = bool(rets_un) and all(isinstance(v, ast.BoolOp) and isinstance(v.op, ast.And)
                                   and any(norm(x) == "dataiter.USE_NUMBA" for x in v.values) for v in rets_un)
    ok = want <= set(kinds) <= want | {"timedelta"} and switch
    ctx.ob("SIB-8", un, f"element kinds sent to Numba {kinds}", un.node, ok,
           "Numba is used for boolean, integer, float, date/datetime (and, being integers to NumPy, timedelta) columns, and only when "
           "USE_NUMBA is on" if ok else
           f"the element kinds sent to Numba {kinds} differ from the statement's {sorted(want)} (or the switch is not consulted)",
           clause="every column type eligible for Numba acceleration")
    # result types: the compiled kernels hand back Python lists of unboxed scalars and aggregate() rebuilds the column from
    # them without a dtype, so only element types that survive the trip through int / float / bool keep their result type
    agg_df = repo.fn("dataiter.data_frame.DataFrame.aggregate")
    rebuilt = [c for _, c in calls_in(agg_df) if isinstance(c.func, ast.Attribute) and c.func.attr == "fast" and len(c.args) == 1 and not c.keywords]
    admitted_w = _admitted_kinds(repo, un)
    if rebuilt:
        for kind in ("integer", "float"):
            if kind not in admitted_w:
                continue
            open_ = _width_open(admitted_w[kind])
            ctx.ob("SIB-8", un, f"{kind} widths sent to Numba through {admitted_w[kind]}", un.node, not open_,
                   f"only the 64-bit {kind} dtype is accelerated: its results are rebuilt with the same dtype" if not open_ else
                   f"use_numba() admits every {kind} width ({admitted_w[kind]}), but the compiled kernels return plain Python scalars and "
                   f"{norm(rebuilt[0])} rebuilds the column without a dtype: for a uint8 / int32 / uint64 / float32 column max, min, first, "
                   f"mode come back as int64 / float64 (and the sum of a uint64 column as float64) with USE_NUMBA on, in the column's own "
                   f"width with it off; float16 is rejected by Numba altogether",
                   clause="the same result type with USE_NUMBA switched on as with it switched off")
    else:
        ctx.note("SIB-8: DataFrame.aggregate no longer rebuilds group-aware results with <Column>.fast(list); result-type rule not applied")
    # pairs
    n_pairs = 0
    seen = set()
    for h in A.HELPERS:
        fn = repo.fn(f"{A.AGG}.{h}")
        g = A.group_form(repo, fn)
        for py, nb, node in g["pairs"]:
            n_pairs += 1
            ok = nb == py + "_numba"
            ctx.ob("SIB-8", g["closure"], f"f = ({py}, {nb})", node, ok,
                   "python implementation first, its numba twin second" if ok else
                   f"pair ({py}, {nb}) is not (python, python_numba): with select() indexing by a bool the wrong implementation runs",
                   clause="both implementations of every helper")
            names = {repo.dotted(g["closure"], c.args[0]) for _, c in calls_in(g["closure"]) if norm(c.func) == "select" and c.args}
            if (py, nb) in seen or py == "generic" or not ok:
                continue
            seen.add((py, nb))
            pf, nf = repo.functions.get(f"{A.AGG}.{py}"), repo.functions.get(f"{A.AGG}.{nb}")
            if pf is None or nf is None:
                raise AnalysisError(f"kernel pair ({py}, {nb}) not found")
            pr, nr = A.python_kernel_record(repo, pf), A.numba_kernel_record(repo, nf)
            _twin(ctx, pf, nf, pr, nr)
    ctx.count("(python, numba) pairs handed to select", n_pairs, 12)
    # generic twins
    gp, gn = repo.fn(f"{A.AGG}.generic"), repo.fn(f"{A.AGG}.generic_numba")
    pa, na_ = gp.nested.get("aggregate"), gn.nested.get("aggregate")
    if pa is None or na_ is None:
        raise AnalysisError("anchor vanished: generic/generic_numba inner aggregate")
    pr, nr = A.python_kernel_record(repo, pa), A.numba_kernel_record(repo, na_)
    ok = pa.params == na_.params
    ctx.ob("SIB-8", na_, f"parameters {na_.params}", na_.node, ok, "generic twins take the same parameters" if ok else
           f"generic {pa.params} vs generic_numba {na_.params}", nontrivial=False)
    ys = [n for n in body_nodes(pa.node) if isinstance(n, ast.Yield)]
    aps = [n for n in body_nodes(na_.node) if isinstance(n, ast.Call) and isinstance(n.func, ast.Attribute) and n.func.attr == "append"]
    t1 = norm(ys[0].value) if ys else None
    t2 = norm(aps[0].args[0]) if aps and aps[0].args else None
    from ..pattern import pmatch
    from ..forms import value_cases, split_ifexp
    from ..facts import facts_at

    def gen_cases(fn_, leaves):
        out = set()
        for leaf, f in leaves:
            cond = sorted((k, t) for k, t in f if "nrequired" in t and k == "T")
            out.add((norm(leaf).replace(", **kwargs", ""), tuple(cond)))
        return out
    c1 = gen_cases(pa, [(leaf, f) for _, leaf, f in value_cases(pa, "yield")])
    c2 = set()
    for ap in aps:
        base = frozenset(facts_at(na_, ap))
        from ..facts import close_under_negation
        c2 |= gen_cases(na_, [(leaf, frozenset(close_under_negation(base | f))) for leaf, f in split_ifexp(ap.args[0])])
    gv1 = {norm(l.target) for l in ast.walk(pa.node) if isinstance(l, ast.For)}
    gv2 = {norm(l.target) for l in ast.walk(na_.node) if isinstance(l, ast.For)}
    def canon_g(cs, gvs):
        out = set()
        for leaf, cond in cs:
            for g in gvs:
                leaf = leaf.replace(g, "G")
                cond = tuple((k, t.replace(g, "G")) for k, t in cond)
            out.add((leaf, cond))
        return out
    c1, c2 = canon_g(c1, gv1), canon_g(c2, gv2)
    t1, t2 = sorted(c1), sorted(c2)
    ok = c1 == c2 and len(c1) == 2 and any(leaf == "function(G)" and ("T", "len(G) >= nrequired") in cond for leaf, cond in c1) \
        and any(leaf == "default" for leaf, cond in c1)
    ctx.ob("SIB-8", na_, f"{t1} vs {t2}", na_.node, ok,
           "both apply the function from nrequired elements on and yield the default otherwise" if ok else
           "generic and generic_numba apply different threshold/default logic", clause="same values, same missing-value positions")
    ok = pr["groups"] and nr["groups"] and pr["groups"][1] == nr["groups"][1] == ["x", "group", "drop_na"]
    ctx.ob("SIB-8", na_, f"groups {pr['groups']} / {nr['groups']}", na_.node, bool(ok), "both iterate the same group slices" if ok else
           "generic twins iterate different group slices", nontrivial=False)
    # yield_groups twins
    yp, yn = repo.fn(f"{A.AGG}.yield_groups"), repo.fn(f"{A.AGG}.yield_groups_numba")
    from ..pattern import alpha

    def skeleton(fn):
        node = alpha(fn.node)
        rets = [s for s in ast.walk(node) if isinstance(s, ast.Return) and isinstance(s.value, ast.Name)]
        acc = rets[-1].value.id if rets else None
        out = []
        stack = list(reversed(node.body))
        order = []
        def walk(stmts):
            for s in stmts:
                order.append(s)
                for f in ("body", "orelse"):
                    if isinstance(getattr(s, f, None), list) and not isinstance(s, (ast.FunctionDef,)):
                        walk(getattr(s, f))
        walk(node.body)
        for s in order:
            if isinstance(s, (ast.For, ast.While)):
                out.append("LOOP " + (norm(s.target) + " in " + norm(s.iter) if isinstance(s, ast.For) else norm(s.test)))
            elif isinstance(s, ast.If):
                out.append("IF " + norm(s.test))
            elif isinstance(s, ast.Expr) and isinstance(s.value, ast.Yield):
                out.append("EMIT " + norm(s.value.value))
            elif isinstance(s, ast.Expr) and isinstance(s.value, ast.Call) and isinstance(s.value.func, ast.Attribute) \
                    and s.value.func.attr == "append" and norm(s.value.func.value) == acc:
                out.append("EMIT " + norm(s.value.args[0]))
            elif isinstance(s, ast.Expr) and isinstance(s.value, ast.Constant):
                continue
            elif isinstance(s, ast.Return):
                if not (isinstance(s.value, ast.Name) and s.value.id == acc):
                    out.append(norm(s))
            elif isinstance(s, ast.Assign) and norm(s.targets[0]) == acc and norm(s.value) == "[]":
                continue
            else:
                t = norm(s)
                import re as _re
                t = _re.sub(r"is_na_numba\((\w+)\)", r"NA(\1)", t)
                t = _re.sub(r"(\w+)\.is_na\(\)", r"NA(\1)", t)
                out.append(t)
        # the accumulator shifts the canonical numbering of later locals: renumber by first use in the skeleton
        import re as _re
        names = {}
        def ren(m):
            k = m.group(0)
            if k == acc:
                return k
            names.setdefault(k, f"w{len(names)}")
            return names[k]
        return [_re.sub(r"\bv\d+\b", ren, t) for t in out]
    a, b = skeleton(yp), skeleton(yn)

    def _no_empty_guard(sk):
        # an explicit early exit for an input of length zero ("if n == 0: return") says what the loop over range(1, n + 1)
        # does anyway; one twin may spell it out
        import re as _re2
        for k_ in range(len(sk) - 1):
            if sk[k_].startswith("LOOP "):
                break
            if _re2.match(r"^IF (w\d+ == 0|not w\d+|len\(w\d+\) == 0)$", sk[k_]) and sk[k_ + 1] in ("return", "return out", "RETURN"):
                return sk[:k_] + sk[k_ + 2:]
        return sk
    a, b = _no_empty_guard(a), _no_empty_guard(b)
    if not any(x.startswith("LOOP ") and "range(1," in x for x in a) and any(x.startswith("LOOP ") and "range(1," in x for x in b):
        # the Python scanner computes the boundaries with whole-array operations while the compiled one keeps the index
        # loop: two different algorithms, which this twin comparison cannot relate
        raise AnalysisError(f"{yp.qualname} no longer scans with the index loop its compiled twin uses: SIB-8 compares the two loops only")
    ok = a == b and bool(a)
    ctx.ob("SIB-8", yn, "yield_groups == yield_groups_numba modulo yield/append and the NA test", yn.node, ok,
           "the two group scanners are the same loop" if ok else f"group scanners differ: {[x for x in a if x not in b]} vs {[x for x in b if x not in a]}",
           clause="each summary is computed from exactly the rows of that group")
    # njit decorations
    n_jit = 0
    for f in agg.functions.values():
        cands = [f] + list(f.nested.values())
        for g_ in cands:
            if g_.name.endswith("_numba") or (g_.parent is not None and g_.parent.name.endswith("_numba") and g_.name == "aggregate"):
                if g_.name in ("is_na_item_numba", "generic_numba", "use_numba"):
                    continue
                n_jit += 1
                decs = [d for d in g_.decorator_nodes if isinstance(d, ast.Call) and norm(d.func) == "njit"]
                ok = bool(decs) and kw(decs[0], "cache") is not None and norm(kw(decs[0], "cache")) == "dataiter.USE_NUMBA_CACHE"
                ctx.ob("SIB-8", g_, f"@njit(cache=dataiter.USE_NUMBA_CACHE) on {g_.name}", g_.node, ok,
                       "compiled, honouring the cache switch" if ok else
                       f"{g_.qualname} is not decorated njit(cache=dataiter.USE_NUMBA_CACHE)", nontrivial=False,
                       clause="with USE_NUMBA_CACHE on and off")
    ctx.count("njit kernels", n_jit, 7)
    nk = repo.fn(f"{A.AGG}.nth_apply_numba")
    from ..pattern import pmatch as _pm
    tests = [n.test for n in ast.walk(nk.node) if isinstance(n, ast.If)] + [n.test for n in ast.walk(nk.node) if isinstance(n, ast.IfExp)]
    idx = nk.params[2] if len(nk.params) > 2 else "index"
    from ..forms import expand as _expand08
    tests_x = [_expand08(nk, t, t) for t in tests]
    okb = any(_pm(f"0 <= {idx} < len(_G) or -len(_G) <= {idx} < 0", t) is not None or _pm(f"-len(_G) <= {idx} < len(_G)", t) is not None
              or _pm(f"-len(_G) <= {idx} < 0 or 0 <= {idx} < len(_G)", t) is not None for t in tests_x)
    if not okb:
        # any other spelling of the same test, decided exactly (sa/intpred.py): either polarity
        from ..intpred import equals_valid_index
        import re as _re08
        for t in tests_x:
            lens = sorted(set(_re08.findall(r"len\(\w+\)", norm(t))))
            if idx in norm(t) and len(lens) == 1:
                v1, _w = equals_valid_index(t, idx, lens)
                v2, _w = equals_valid_index(ast.UnaryOp(op=ast.Not(), operand=t), idx, lens)
                if v1 or v2:
                    okb = True
    ctx.ob("SIB-8", nk, f"index validity test {[norm(t) for t in tests]}", tests[0] if tests else nk.node, okb,
           "the Numba kernel accepts exactly the indices Python indexing accepts (-len <= index < len), like the try/except IndexError of the Python kernel" if okb else
           "the Numba kernel's bounds test is not -len(group) <= index < len(group): for some index (e.g. index == -len) it yields the "
           "default where the Python kernel yields an element", clause="the same values, the same missing-value positions")
    # mode kernel counts over the whole group
    mk = repo.fn(f"{A.AGG}.mode_apply_numba")
    inner = [n for n in ast.walk(mk.node) if isinstance(n, ast.For) and isinstance(n.iter, ast.Call) and norm(n.iter.func) == "range"]
    outer = [n for n in ast.walk(mk.node) if isinstance(n, ast.For) and isinstance(n.iter, ast.Call) and norm(n.iter.func).startswith("yield_groups")]
    gvar = norm(outer[0].target) if outer else "xg"
    ok = len(inner) >= 2 and all(norm(n.iter) == f"range(len({gvar}))" for n in inner)
    ctx.ob("SIB-8", mk, f"count loops {[norm(n.iter) for n in inner]}", inner[0] if inner else mk.node, ok,
           "each element's occurrences are counted over the whole group, so argmax picks the first most frequent value like statistics.mode" if ok else
           "the occurrence count does not range over the whole group: with ties the accelerated mode picks another element than statistics.mode",
           clause="mode breaks ties by first occurrence; same values with USE_NUMBA on and off")
    # every element counts itself: the Python kernel (statistics.mode / Counter) gives each element a count of at least 1 --
    # also a NaN / NaT, which is a key of its own there -- while `xg[j] == xg[i]` is False for a missing element even when
    # j == i.  The count test must therefore also hold for j == i (or the counts start at 1 and the diagonal is skipped).
    idxs = [norm(n.target) for n in inner if isinstance(n.target, ast.Name)]
    eqs = [n for n in ast.walk(mk.node) if isinstance(n, ast.If) and any(
        isinstance(c, ast.Compare) and len(c.ops) == 1 and isinstance(c.ops[0], ast.Eq) and gvar in norm(c.left) and gvar in norm(c.comparators[0])
        for c in ast.walk(n.test))]
    if eqs and len(idxs) >= 2:
        t_ = eqs[0].test
        diag = any(isinstance(c, ast.Compare) and len(c.ops) == 1 and isinstance(c.ops[0], ast.Eq)
                   and {norm(c.left), norm(c.comparators[0])} == set(idxs[:2]) for c in ast.walk(t_)) and \
            isinstance(t_, ast.BoolOp) and isinstance(t_.op, ast.Or)
        starts1 = any(isinstance(c, ast.Call) and norm(c.func) in ("np.full", "np.ones") and (norm(c.func) == "np.ones" or (len(c.args) > 1 and norm(c.args[1]) == "1"))
                      for c in ast.walk(mk.node)) and any(
            isinstance(c, ast.Compare) and len(c.ops) == 1 and isinstance(c.ops[0], ast.NotEq) and {norm(c.left), norm(c.comparators[0])} == set(idxs[:2])
            for c in ast.walk(t_))
        okd = diag or starts1
        ctx.ob("SIB-8", mk, f"occurrence test {norm(t_)[:60]}", eqs[0], okd,
               "an element is counted for itself even when it is not equal to itself (NaN, NaT)" if okd else
               f"`{norm(t_)[:50]}` is False for a missing element compared with itself: with drop_na=False a NaN / NaT gets count 0 in the "
               f"compiled kernel and count 1 in statistics.mode, so for a group like [nan, 1.0, nan] the mode is 1.0 with USE_NUMBA on and "
               f"missing (the first of the tied elements) with it off", clause="the same values, the same missing-value positions")
    # ---------------------------------------------------------- PURE-kernel
    n_k = 0
    for f in list(agg.functions.values()):
        for k in [f] + list(f.nested.values()):
            uses_groups = any(isinstance(c.func, ast.Name) and c.func.id.startswith("yield_groups") for _, c in calls_in(k, False))
            if not uses_groups and not k.name.startswith("yield_groups"):
                continue
            n_k += 1
            bad = []
            views = {"x", "xg", "xij", "group"}
            for n in body_nodes(k.node):
                if isinstance(n, ast.Call) and isinstance(n.func, ast.Attribute) and n.func.attr in INPLACE \
                        and isinstance(n.func.value, ast.Name) and n.func.value.id in views:
                    par = k.module.parent.get(n)
                    if isinstance(par, ast.Expr) or n.func.attr in ("sort", "fill", "partition", "put", "resize"):
                        bad.append(n)
                if isinstance(n, (ast.Subscript,)) and isinstance(n.ctx, ast.Store) and isinstance(n.value, ast.Name) and n.value.id in views:
                    bad.append(n)
                if isinstance(n, ast.AugAssign) and isinstance(n.target, ast.Name) and n.target.id in views:
                    bad.append(n)
            ctx.ob("PURE-kernel", k, f"in-place operations on group slices: {[norm(b) for b in bad] or 'none'}", bad[0] if bad else k.node, not bad,
                   "the kernel only reads its group slices" if not bad else
                   f"{norm(bad[0])} changes a group slice in place; slices are views of the frame's (sorted) column, so helpers "
                   f"evaluated later in the same aggregate() call -- and only with this implementation -- see reordered/changed data",
                   clause="the order in which accelerated helpers are first used never influences any result")
    ctx.count("kernels using group slices", n_k, 10)
    # ----------------------------------------------------------- NJIT-optional
    # A compiled kernel returns a reflected list.  When that list receives both element values and None its Numba
    # type is list(Optional(T)); with the Numba installed here the conversion of such lists back to Python depends on
    # which Optional-list kernel was compiled first in the process (observed: after the generic kernel has been
    # compiled with default=None, the nth and mode kernels return None for EVERY group -- notes/numba_optional_lists.md).
    ctx.trust("Numba fact (observed, notes/numba_optional_lists.md): results of kernels returning lists that mix values and None "
              "depend on the order in which such kernels were first compiled")
    n_lists = 0
    none_param = {}      # kernel qualname -> parameter names appended next to computed values
    for f in agg.functions.values():
        for k in [f] + list(f.nested.values()):
            if not any(isinstance(d, ast.Call) and norm(d.func) == "njit" or norm(d) == "njit" for d in k.decorator_nodes):
                continue
            rets = {n.value.id for n in body_nodes(k.node) if isinstance(n, ast.Return) and isinstance(n.value, ast.Name)}
            for L in sorted(rets):
                apps = [c for _, c in calls_in(k, False) if isinstance(c.func, ast.Attribute) and c.func.attr == "append"
                        and isinstance(c.func.value, ast.Name) and c.func.value.id == L and c.args]
                if not apps:
                    continue
                n_lists += 1
                leaves = []
                for c in apps:
                    from ..forms import split_ifexp
                    for leaf, _f in split_ifexp(c.args[0]):
                        leaves.append((leaf, c))
                nones = [(l, c) for l, c in leaves if isinstance(l, ast.Constant) and l.value is None]
                params = [(l, c) for l, c in leaves if isinstance(l, ast.Name) and l.id in k.params]
                values = [(l, c) for l, c in leaves if (l, c) not in nones and (l, c) not in params]
                for l, c in nones:
                    okn = not values
                    ctx.ob("NJIT-optional", k, f"{norm(c)} into the result list of a compiled kernel that also receives values", c, okn,
                           "the list holds None only" if okn else
                           f"{k.name} is compiled by Numba and returns a list that receives both element values and None, i.e. a "
                           f"list(Optional(T)): its conversion back to Python depends on which such kernel was compiled first in the "
                           f"process, so an aggregation run earlier (in the same call, process, or cache) changes this helper's result",
                           clause="the order in which accelerated helpers are first used never influences any result")
                if params and values:
                    none_param[k.qualname] = sorted({l.id for l, _ in params})
    ctx.count("result lists of compiled kernels", n_lists, 4)
    # call sites that bind such a parameter to None (through generic_numba(...)(..., default=None))
    for h in A.HELPERS:
        fn = repo.fn(f"{A.AGG}.{h}")
        g = A.group_form(repo, fn)
        if g["kernel"] != "generic":
            continue
        for kq, ps in none_param.items():
            if not kq.startswith(f"{A.AGG}.generic_numba"):
                continue
            for pname in ps:
                v = kw(g["call"], pname)
                if v is None:
                    continue
                okp = not (isinstance(v, ast.Constant) and v.value is None)
                ctx.ob("NJIT-optional", g["closure"], f"{pname}={norm(v)} handed to the compiled generic kernel", g["call"], okp,
                       f"the compiled kernel appends a {pname} of the elements' own type" if okp else
                       f"the compiled generic kernel appends `{pname}` next to computed values; bound to None here it returns a "
                       f"list(Optional(T)) -- compiling THIS kernel before nth/first/last/mode makes those return None for every "
                       f"group in the rest of the process",
                       clause="the order in which accelerated helpers are first used never influences any result")
    # ---------------------------------------------------------------- SIB-9
    ov = repo.fn(f"{A.AGG}.is_na_item_numba_overload")
    table = {}
    chain_ifs = []

    def _chain(stmts):
        for s_ in stmts:
            if isinstance(s_, ast.If):
                chain_ifs.append(s_)
                _chain(s_.orelse)
    _chain(ov.node.body)
    for s in chain_ifs:
        if isinstance(s.test, ast.Call) and norm(s.test.func) == "isinstance":
            tys = s.test.args[1].elts if isinstance(s.test.args[1], ast.Tuple) else [s.test.args[1]]
            r = [n for b_ in s.body for n in ast.walk(b_) if isinstance(n, ast.Lambda)]
            body = None
            if r:
                import re as _re2
                body = norm(r[0].body)
                if r[0].args.args:
                    body = _re2.sub(rf"\b{r[0].args.args[0].arg}\b", "x", body)
            for ty in tys:
                table.setdefault(norm(ty), body)
    ok = table.get("types.Float") == "np.isnan(x)" and table.get("types.NPDatetime") == "np.isnat(x)"
    ctx.ob("SIB-9", ov, f"NA test by Numba type {table}", ov.node, ok,
           "float -> isnan, datetime -> isnat, like Vector.is_na" if ok else
           "the Numba-side NA test lacks (or mis-wires) the Float/NPDatetime branch: drop_na behaves differently with Numba on",
           clause="the same missing-value positions")
    # the fallback: the lambda of the last return (direct form) or of the final else of the chain (assignment form)
    fall = [n for n in ov.node.body if isinstance(n, ast.Return)]
    fb_lambda = fall[-1].value if fall and isinstance(fall[-1].value, ast.Lambda) else None
    if fb_lambda is None and chain_ifs and chain_ifs[-1].orelse:
        lams = [n for b_ in chain_ifs[-1].orelse for n in ast.walk(b_) if isinstance(n, ast.Lambda)]
        fb_lambda = lams[0] if lams else None
    ok = fb_lambda is not None and norm(fb_lambda.body) == "False"
    ctx.ob("SIB-9", ov, "other types have no missing value", fb_lambda if fb_lambda is not None else ov.node, ok,
           "bool/int are never missing" if ok else "fallback NA test is not constant False", nontrivial=False)
    # every element type that use_numba() admits has, on the Numba side, the NA test Vector.is_na applies to it
    NUMBA_TYPE = {"float": "types.Float", "datetime": "types.NPDatetime", "timedelta": "types.NPTimedelta",
                  "string": "types.UnicodeType", "integer": "types.Integer", "boolean": "types.Boolean", "complex": "types.Complex"}
    EXPECT = {"float": "np.isnan(x)", "datetime": "np.isnat(x)", "timedelta": "np.isnat(x)"}
    un = repo.fn(f"{A.AGG}.use_numba")
    admitted_by = _admitted_kinds(repo, un)
    fallback = norm(fb_lambda.body) if fb_lambda is not None else None
    ctx.trust("NumPy scalar hierarchy table in sa/props/C08.py (np.timedelta64 is a sub-dtype of np.integer)")
    for kind in sorted(admitted_by):
        got = table.get(NUMBA_TYPE.get(kind, "?"), fallback)
        want = EXPECT.get(kind, "False")
        ok = got == want
        ctx.ob("SIB-9", ov, f"{kind} (admitted to Numba through {admitted_by[kind]}): NA test {got}", ov.node, ok,
               f"the Numba-side NA test for {kind} is {want}, as in Vector.is_na" if ok else
               f"use_numba() sends {kind} columns to the Numba kernels (np.issubdtype(dtype, {admitted_by[kind][0]}) is true for them) "
               f"but the Numba-side NA test for {NUMBA_TYPE.get(kind)} is {got}, not {want}: with drop_na the missing values of such a "
               f"column are dropped by the Python kernels and kept by the Numba kernels, so results depend on USE_NUMBA",
               clause="the same values, the same missing-value positions ... whether Numba is used or not")
    ctx.count("element kinds admitted by use_numba", len(admitted_by), 3)
    # UNIFY: a generic_numba kernel appends `function(xg) if len(xg) >= nrequired else default` -- Numba types both arms and
    # must unify them.  A numeric default (0, nan, True) unifies with numeric results; for a timedelta column np.sum / np.mean /
    # np.median return a timedelta, which no number unifies with: compilation fails (TypingError) where the Python kernel
    # returns the timedelta.  (std/var of timedeltas and every such reduction of datetimes raise on both sides.)
    ctx.rule("UNIFY", "for every element kind use_numba() admits, the result type of a generic_numba statistic unifies with the kernel's default")
    SAME_KIND_RESULT = {"numpy.sum": {"timedelta"}, "numpy.nansum": {"timedelta"}, "numpy.mean": {"timedelta"}, "numpy.nanmean": {"timedelta"},
                        "numpy.median": {"timedelta"}, "numpy.nanmedian": {"timedelta"}}
    n_un = 0
    for h in A.HELPERS:
        g = A.group_form(repo, repo.fn(f"{A.AGG}.{h}"))
        if not any(nb == "generic_numba" for _, nb, _ in g["pairs"]):
            continue
        kd = g.get("kernel_default")
        for stat, _kw in g["stat"]:
            n_un += 1
            clash = sorted(k for k in admitted_by if k in SAME_KIND_RESULT.get(stat, ()) and kd not in (None, "None", "NA"))
            ctx.ob("UNIFY", g["closure"], f"{h}: {stat} with default {kd} over {sorted(admitted_by)}", g["call"], not clash,
                   "result and default unify for every admitted element kind" if not clash else
                   f"use_numba() admits {clash[0]} columns, for which {stat} returns a {clash[0]}; the compiled kernel's other arm is the "
                   f"default {kd}: Numba cannot unify the two (TypingError at first use), while the Python kernel returns the {clash[0]} -- "
                   f"the aggregation raises with USE_NUMBA on and succeeds with it off",
                   clause="the same values ... with USE_NUMBA switched on as with it switched off")
    ctx.count("generic_numba statistics judged for arm unification", n_un, 8)
    # NA-prop: Numba's own implementation of np.median (a selection algorithm on the raw values) does not propagate NaN, NumPy's
    # does: for a group that keeps its missing values the compiled kernel returns a number, the Python kernel NaN.  (Numba's
    # sum / mean / std / var / min / max propagate NaN arithmetically or by comparison, as NumPy's do.)  A helper whose
    # statistic is NaN-blind under Numba must therefore leave the compiled path whenever missing values are kept and present:
    # an assignment of the Python implementation to the kernel variable under `not drop_na` and `<column>.is_na().any()`.
    ctx.rule("NA-prop", "a statistic that is NaN-blind under Numba reaches the compiled kernel only when no missing value is kept")
    ctx.trust("Numba's np.median / np.nanmedian / np.percentile / np.quantile do not propagate NaN the way NumPy's do (numba docs: supported NumPy features)")
    NAN_BLIND = {"numpy.median", "numpy.percentile", "numpy.quantile"}
    n_np = 0
    for h in A.HELPERS:
        g = A.group_form(repo, repo.fn(f"{A.AGG}.{h}"))
        if not any(nb == "generic_numba" for _, nb, _ in g["pairs"]) or not any(st in NAN_BLIND for st, _ in g["stat"]):
            continue
        n_np += 1
        clo = g["closure"]
        pyname = next(py for py, nb, _ in g["pairs"] if nb == "generic_numba")
        fvar = norm(g["call"].func) if isinstance(g["call"].func, ast.Name) else None
        escapes = []
        for a_ in [n for n in body_nodes(clo.node) if isinstance(n, ast.Assign) and len(n.targets) == 1 and isinstance(n.targets[0], ast.Name)
                   and n.targets[0].id == fvar]:
            v = a_.value
            is_py = (isinstance(v, ast.Call) and isinstance(v.func, ast.Name) and v.func.id == pyname) or (isinstance(v, ast.Name) and v.id == pyname) \
                or (isinstance(v, ast.Subscript) and isinstance(v.slice, ast.Constant) and v.slice.value == 0)
            if not is_py:
                continue
            ft = facts_at(clo, a_)
            keeps = any((k == "F" and t == "drop_na") or (k == "T" and t == "not drop_na") for k, t in ft)
            if keeps:
                escapes.append(a_)
        ctx.ob("NA-prop", clo, f"{h}: {[st for st, _ in g['stat']][0]} leaves the compiled path when missing values are kept", escapes[0] if escapes else g["call"], bool(escapes),
               "with drop_na false (and missing values present) the Python kernel is used" if escapes else
               f"{[st for st, _ in g['stat']][0]} compiled by Numba does not propagate NaN: with drop_na=False a group [nan, 2, 3] gives 3.0 from the compiled "
               f"kernel and NaN from the Python kernel, and nothing takes the helper off the compiled path in that case",
               clause="the same values, the same missing-value positions ... with USE_NUMBA switched on as with it switched off")
    ctx.count("helpers whose statistic is NaN-blind under Numba", n_np, 1)
    isn = repo.fn(f"{A.AGG}.is_na_numba")
    ok = any(norm(c.func) == "is_na_item_numba" for _, c in calls_in(isn))
    ctx.ob("SIB-9", isn, "is_na_numba applies is_na_item_numba element-wise", isn.node, ok, "wired" if ok else "is_na_numba does not use the overload", nontrivial=False)


def _twin(ctx, pf, nf, pr, nr):
    if pr.get("positional") is not None:
        verdict, wit, txt = pr["positional"]
        ctx.ob("SIB-8", pf, f"python kernel selects {txt[:60]}", pf.node, bool(verdict),
               "the element at `index` for every valid index, the default otherwise (decided for all lengths and indices)" if verdict else
               f"for index = {wit[0]} and a group of {wit[1]} element(s) the Python kernel gives "
               f"{'element ' + str(wit[2] - 100) if isinstance(wit[2], int) else wit[2]} where x[index] gives "
               f"{'element ' + str(wit[3] - 100) if isinstance(wit[3], int) else 'the default (out of range)'}: it disagrees with Python "
               f"indexing, with the vector form and with the compiled kernel", clause="the same values, the same missing-value positions")
    ok = pf.params == nf.params
    ctx.ob("SIB-8", nf, f"parameters {pf.params} / {nf.params}", nf.node, ok,
           "twins take the same parameters in the same order (they are called with the same argument list)" if ok else
           "twin kernels have different parameter lists although one call site serves both", clause="both implementations of every helper")
    ok = pr["groups"] is not None and nr["groups"] is not None and pr["groups"][1] == nr["groups"][1] \
        and pr["groups"][0] == "yield_groups" and nr["groups"][0] == "yield_groups_numba"
    ctx.ob("SIB-8", nf, f"group slices {pr['groups']} / {nr['groups']}", nf.node, bool(ok),
           "both iterate the same contiguous group slices with the same drop_na" if ok else "twins iterate different group slices",
           clause="from exactly the rows of that group")
    ok = pr["k"] == nr["k"] and pr["d"] == nr["d"]
    ctx.ob("SIB-8", nf, f"threshold/default python ({pr['k']}, {pr['d']}) / numba ({nr['k']}, {nr['d']})", nf.node, ok,
           "same minimum group size and same under-threshold default" if ok else
           "the Numba kernel uses another minimum size or default than the Python kernel",
           clause="the same values, the same missing-value positions")
    ps, ns = pr["stat"], nr["stat"]
    same = ps == ns or (ps[0] == "mode1" and ns[0] == "index" and "argmax" in ns[1].get("_idx", ""))
    ctx.ob("SIB-8", nf, f"statistic python {ps} / numba {ns}", nf.node, same,
           "both compute the same statistic with the same extra arguments" if same else
           "the Numba kernel computes another statistic / passes other arguments than the Python kernel",
           clause="the same values")


HIER = {   # NumPy scalar hierarchy (library fact): abstract classes each concrete kind is a sub-dtype of
    "boolean": {"np.bool_"}, "integer": {"np.integer", "np.signedinteger", "np.unsignedinteger", "np.number"},
    "float": {"np.floating", "np.inexact", "np.number"}, "complex": {"np.complexfloating", "np.inexact", "np.number"},
    "datetime": {"np.datetime64"},
    "timedelta": {"np.timedelta64", "np.signedinteger", "np.integer", "np.number"},   # timedelta64 IS a signedinteger
    "string": {"np.str_", "np.character", "np.flexible"}, "bytes": {"np.bytes_", "np.character", "np.flexible"},
    "object": {"np.object_"}}
KIND_CODES = {"b": "boolean", "i": "integer", "u": "integer", "f": "float", "c": "complex", "M": "datetime", "m": "timedelta",
              "U": "string", "T": "string", "S": "bytes", "O": "object"}


def _admitted_kinds(repo, un):
    """element kind -> how use_numba() admits it: np.issubdtype(x.dtype, T) disjuncts evaluated through the scalar
    hierarchy, or x.dtype.kind in (...) codes."""
    out = {}
    for c in [c for _, c in calls_in(un) if repo.dotted(un, c.func) == "numpy.issubdtype" and len(c.args) == 2]:
        t = norm(c.args[1])
        for kind, supers in HIER.items():
            if t in supers:
                out.setdefault(kind, []).append(t)
    for n in body_nodes(un.node):
        if isinstance(n, ast.Compare) and len(n.ops) == 1 and isinstance(n.ops[0], ast.In) and norm(n.left).endswith(".dtype.kind") \
                and isinstance(n.comparators[0], (ast.Tuple, ast.List, ast.Set, ast.Constant)):
            cmpv = n.comparators[0]
            codes = [e.value for e in cmpv.elts if isinstance(e, ast.Constant)] if not isinstance(cmpv, ast.Constant) else list(str(cmpv.value))
            for cd in codes:
                if cd in KIND_CODES:
                    out.setdefault(KIND_CODES[cd], []).append(f"dtype.kind == {cd!r}")
    # x.dtype == np.int64 / x.dtype in (np.int64, np.float64): one concrete width of a kind
    for n in body_nodes(un.node):
        if isinstance(n, ast.Compare) and len(n.ops) == 1 and isinstance(n.ops[0], (ast.Eq, ast.In)) and norm(n.left).endswith(".dtype") \
                and not norm(n.left).endswith(".dtype.kind"):
            cmpv = n.comparators[0]
            elts = cmpv.elts if isinstance(cmpv, (ast.Tuple, ast.List, ast.Set)) else [cmpv]
            for e in elts:
                t = norm(e)
                if t in EXACT_DTYPES:
                    out.setdefault(EXACT_DTYPES[t], []).append(f"dtype == {t}")
    return out


EXACT_DTYPES = {"np.int64": "integer", "np.float64": "float", "np.bool_": "boolean", "bool": "boolean", "int": "integer", "float": "float",
                "np.int32": "integer", "np.int16": "integer", "np.int8": "integer", "np.uint8": "integer", "np.uint16": "integer",
                "np.uint32": "integer", "np.uint64": "integer", "np.float32": "float", "np.float16": "float"}
# dtypes whose values come back from a compiled kernel as Python scalars (int, float, bool) and are rebuilt by NumPy
# with the SAME dtype: int -> int64, float -> float64, bool -> bool.  datetime64 / timedelta64 come back as NumPy scalars.
ROUNDTRIP_EXACT = {"np.int64", "np.float64", "np.bool_", "bool", "int", "float"}


def _width_open(how):
    """Does the admission ``how`` (list of texts from _admitted_kinds) admit widths other than the 64-bit one?"""
    return any(not (h.startswith("dtype == ") and h[len("dtype == "):] in ROUNDTRIP_EXACT) for h in how)
