"""C06 -- operations neither mutate nor alias their inputs (ownership analysis).

OWN-1  every array / frame handed back by a public, non-exempt DataFrame or
       Vector method has an empty may-alias set w.r.t. the receiver and every
       argument (decided per return / yield site by the E3 interpreter);
OWN-2  no write effect (element store, in-place ndarray call, structural store,
       attribute store) reaches an object that may alias the receiver or an
       argument, in the method itself or in anything it calls;
OWN-3  only group_by and the constructor assign the grouping of an existing
       frame.
"""
from ..common import interp, ours, DF, VEC, DFC, norm
from ..absint import all_alias
from ..model import AnalysisError, outermost

EXPLANATION = (
    "Static ownership/effect analysis (abstract interpretation over origins SELF / ARG / fresh with "
    "computed summaries for every package callee) of every public method defined in DataFrame, "
    "DataFrameColumn and Vector. Decides: (OWN-1) each returned or yielded array/frame is fresh -- "
    "shares no memory with receiver or arguments; (OWN-2) no store, in-place ndarray call or structural "
    "store reaches an object aliasing receiver or arguments, including through private helpers and nested "
    "functions; (OWN-3) grouping is only assigned by group_by/__init__. Exemptions are exactly the "
    "documented in-place operations. Not decided: effects of user callbacks, NumPy internals (trusted "
    "operation table), value equality."
)
ASSUMPTIONS = [
    "NumPy functions behave as listed in the operation table (sa/tables.py): which return copies, which views",
    "user callbacks have no effect on library objects and their results are the caller's responsibility",
    "no reflection (setattr/globals) on the analysed classes beyond what the interpreter models",
]

# documented in-place operations (statement of C06) and constructors
INPLACE_EXEMPT = {
    DF: {"group_by", "__setitem__", "__setattr__", "__delitem__", "__delattr__", "pop", "popitem",
         "colnames@setter", "__init__"},
    VEC: {"__init__", "__new__"},
    DFC: {"__init__", "__new__"},
}
# shallow by documentation / accessors that hand out the stored columns
ALIAS_EXEMPT = {
    DF: {"copy": "documented shallow copy", "__copy__": "documented shallow copy",
         "group_by": "documented: marks and returns the receiver",
         "columns": "accessor: 'Return columns as a list' hands out the stored columns",
         "pop": "dict-style removal returns the stored column", "popitem": "dict-style removal"},
    VEC: {}, DFC: {},
}
# memoised proxy objects, not data (DESIGN 5/C06)
CACHE_ATTRS = {"._dt", "._re", "._str"}


def entry_methods(repo, cq):
    cls = repo.cls(cq)
    out = []
    for key, m in cls.methods.items():
        if m.name.startswith("_") and m.name not in ("__deepcopy__", "__copy__", "__eq__", "__str__", "__repr__"):
            continue
        out.append(m)
    return out


def judge_value(av, path="", strict=False):
    """Yield (path, alias) for each array/frame component aliasing caller data."""
    if av is None:
        return
    k = av.kind
    if k == "col":
        a = ours(av.alias)
        if a:
            yield path or "array", a, av
    elif k == "frame":
        a = ours(av.alias)
        if a:
            yield (path + " frame object"), a, av
        if av.elem is not None:
            b = ours(all_alias(av.elem))
            if b:
                yield (path + " column of returned frame"), b, av.elem
    elif k in ("list", "tuple"):
        if av.items:
            for i, it in enumerate(av.items):
                yield from judge_value(it, f"{path}[{i}]")
        if av.elem is not None:
            yield from judge_value(av.elem, f"{path}[*]")
    elif k == "unknown":
        if "elemof" in av.flags and not strict:
            return
        a = ours(av.alias)
        if a and strict:
            # a value yielded as a column: whatever it is, it may be the caller's own array
            yield (path or "value") + " (may be the very object taken from receiver/arguments)", a, av
        elif a and ("uncertain" in av.flags):
            yield (path or "value") + " (through an operation outside the operation table)", a, av


def keep(table, key, val):
    """Remember the entry point with the shortest call chain to the site."""
    old = table.get(key)
    if old is None or len(val[1].chain) < len(old[1].chain):
        table[key] = val


def check(ctx):
    repo = ctx.repo
    from . import generic as _gen
    _gen.language_traps(ctx, _gen.anchor_functions(repo, "C06"), "the property holds for every input, on every call")
    I = interp(repo)
    ctx.rule("OWN-1", "value returned/yielded by a public non-exempt method has an empty may-alias set "
                      "w.r.t. receiver and arguments")
    ctx.rule("OWN-2", "no write effect on an object that may alias receiver or arguments")
    ctx.rule("OWN-3", "grouping of an existing frame assigned only by group_by/__init__")
    ctx.trust("operation table sa/tables.py (EXT_FUNCS, ARRAY_METHODS, ARRAY_INPLACE, EXT_WRITES)")
    ctx.trust("CPython ast")
    n_methods = {DF: 0, VEC: 0}
    n_yield = 0
    bad_sites = {}
    own_sites = {}
    unclassified = []
    for cq in (DF, VEC, DFC):
        for m in entry_methods(repo, cq):
            summ = I.summary(m)
            n_methods[DF if cq == DF else VEC] += 1
            unclassified += summ.unclassified
            # ------------------------------------------------ OWN-1
            if m.key not in INPLACE_EXEMPT[cq] and m.key not in ALIAS_EXEMPT[cq]:
                if m.has_decorator("new_from_generator"):
                    for node, y in summ.yields:
                        n_yield += 1
                        v = y.items[1] if (y.kind == "tuple" and y.items and len(y.items) == 2) else y
                        probs = list(judge_value(v, strict=True))
                        ctx.ob("OWN-1", m, f"yield {norm(node.value) if getattr(node, 'value', None) is not None else ''}",
                               node, not probs,
                               "yielded column is fresh" if not probs else
                               f"yielded column may share memory with {sorted(probs[0][1])}: {probs[0][2]!r}",
                               chain=[f"abstract value: {v!r}"], clause="results share no memory with inputs")
                else:
                    probs = list(judge_value(summ.returns))
                    if summ.returns is not None and summ.returns.kind in ("col", "frame", "list", "tuple", "unknown"):
                        ctx.ob("OWN-1", m, f"return value of {m.name}", m.node, not probs,
                               "returned arrays/frames are fresh" if not probs else
                               f"{probs[0][0]} may share memory with {sorted(probs[0][1])}",
                               chain=[f"abstract value: {summ.returns!r}"],
                               nontrivial=summ.returns.kind in ("col", "frame"),
                               clause="results share no memory with inputs")
            # ------------------------------------------------ OWN-2 / OWN-3
            for ev in summ.events:
                site_fn = ev.chain[-1][0] if ev.chain else ev.fn.qualname
                site_detail = ev.chain[-1][2] if ev.chain else ev.detail
                site_line = ev.chain[-1][1] if ev.chain else getattr(ev.node, "lineno", 0)
                a = ours(ev.target.alias)
                if not a:
                    continue
                if ev.kind in ("list-write",) and ev.target.kind in ("list", "tuple"):
                    continue
                if ev.kind == "obsoletes-call":
                    continue
                if ev.kind == "attr-store":
                    if ev.detail in CACHE_ATTRS:
                        continue
                    if ev.detail == "._group_colnames":
                        if m.key in ("group_by", "__init__"):
                            continue
                        keep(bad_sites, ("OWN-3", site_fn, site_detail), (m, ev, site_line))
                        continue
                    if m.key in INPLACE_EXEMPT[cq] and "SELF" in a:
                        continue
                if ev.kind in ("struct-store", "del-item", "item-write") and m.key in INPLACE_EXEMPT[cq] and a == {"SELF"}:
                    continue
                if ev.kind == "elem-store" and ev.target.kind == "unknown" and m.key in INPLACE_EXEMPT[cq]:
                    continue
                keep(bad_sites, ("OWN-2", site_fn, site_detail), (m, ev, site_line))
    # every own write site of every function of the three anchor modules
    n_sites = 0
    for f in repo.functions.values():
        if f.module.name not in ("dataiter.data_frame", "dataiter.vector", "dataiter.deco"):
            continue
        if f.parent is not None:
            continue
        summ = I.summary(f)
        for ev in summ.events:
            if ev.chain:
                continue
            if ev.kind in ("obsoletes-call",):
                continue
            key = (ev.fn.qualname, ev.detail)
            if key in own_sites:
                continue
            own_sites[key] = ev
    for (fq, detail), ev in sorted(own_sites.items(), key=lambda kv: (kv[0][0], getattr(kv[1].node, "lineno", 0))):
        hit = None
        for rule in ("OWN-2", "OWN-3"):
            if (rule, fq, detail) in bad_sites:
                hit = (rule, bad_sites[(rule, fq, detail)])
        n_sites += 1
        if hit:
            rule, (m, bev, line) = hit
            path = [f"entry point {m.qualname}"] + [f"{c[0]}:{c[1]} {c[2]}" for c in bev.chain]
            ctx.ob(rule, ev.fn, detail, ev.node, False,
                   f"{ev.kind} on an object that may alias {sorted(ours(bev.target.alias))} of public method "
                   f"{m.qualname} ({bev.target!r})", chain=path,
                   clause="receiver and arguments unchanged")
        else:
            fresh = not ours(ev.target.alias)
            ctx.ob("OWN-2", ev.fn, detail, ev.node, True,
                   "target object is fresh (created inside the call)" if fresh else
                   "written object is the receiver of a documented in-place operation, a private cache, "
                   "or never aliases a public method's receiver/arguments at any call site",
                   chain=[f"target: {ev.target!r}"], clause="receiver and arguments unchanged")
    # violations whose site is outside the three anchor modules (e.g. util helper writing its argument)
    for (rule, fq, detail), (m, bev, line) in bad_sites.items():
        if (fq, detail) in own_sites:
            continue
        f = repo.functions.get(fq)
        ctx.ob(rule, f or fq, detail, bev.node if f is None else f.node, False,
               f"{bev.kind} on an object that may alias {sorted(ours(bev.target.alias))} of public method {m.qualname}",
               chain=[f"entry point {m.qualname}"] + [f"{c[0]}:{c[1]} {c[2]}" for c in bev.chain])
    un = [(f, n, t) for f, n, t in unclassified
          if f.module.name in ("dataiter.data_frame", "dataiter.vector")]
    if un:
        f, n, t = un[0]
        raise AnalysisError(f"unclassified operation at {f.module.path}:{getattr(n, 'lineno', 0)} in {f.qualname}: {t} "
                            f"(extend the operation table after reading the documentation)")
    # the per-group frames handed to user callbacks (aggregate, grouped modify) are cut with copying (advanced) indexing
    vr = repo.functions.get(f"{DF}._view_rows")
    if vr is not None:
        sv = I.summary(vr)
        # the row index is a parameter (an index array at every call site: C04 IDX-3); only an index that may be a
        # slice OBJECT makes the selection a view
        el = sv.returns.elem if sv.returns is not None else None
        probs = []
        if sv.returns is None:
            probs = [("nothing returned", set(), None)]
        elif el is not None and "via-slice" in el.flags and ours(el.alias):
            probs = [("column", ours(el.alias), el)]
        ctx.ob("OWN-1", vr, "per-group frame returned by _view_rows", vr.node, not probs,
               "its columns are fresh copies of the selected rows" if not probs else
               f"the per-group frames may share memory with {sorted(probs[0][1]) if probs[0][1] else '?'}: the row index can be a basic "
               f"slice, which yields views -- a callback in group_by().modify() that edits its argument in place then rewrites the "
               f"receiver's columns", chain=[f"abstract value: {sv.returns!r}"], clause="returns data that shares no memory with them")
    ctx.count("DataFrame entry methods", n_methods[DF], 60)
    ctx.count("Vector entry methods", n_methods[VEC], 40)
    ctx.count("yield sites of generator methods", n_yield, 20)
    ctx.count("write sites in data_frame/vector/deco", n_sites, 25)
    geo = repo.functions.get("dataiter.geojson.GeoJSON.to_data_frame")
    if geo is not None:
        r = I.summary(geo).returns
        ctx.note(f"GeoJSON.to_data_frame returns {r!r}: shares columns with its receiver; outside the "
                 f"property's quantifier (methods of DataFrame and Vector), not judged")
