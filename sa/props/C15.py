"""C15 -- ListOfDicts transformations match plain list-of-dict semantics."""
import ast
from ..common import calls_in, norm, LOD, kw
from ..model import AnalysisError, body_nodes
from ..cfg import cfg_of
from ..facts import facts_at, cfg_node_of
from ..dataflow import defs_reaching
from ..guards import lower_bound
from .shared import clamp_check, yields_of
from ..pattern import pmatch, pstmt, text

EXPLANATION = (
    "Structural necessary conditions of the ListOfDicts list operations decided from source: (SIB-12) filter / filter_out test "
    "the same extraction with complementary operators and yield each item from the single pass over the receiver; (SIB-3, "
    "GRD-negslice) head/tail/sample clamp n and no slice bound is a negated count that can be 0 (x[-0:] is the whole list); "
    "(MPT-4) insert delivers the new item on every path, as list.insert does for any index; (EFF-asis) dicts supplied by the "
    "caller are converted to AttributeDict before they reach the as-is constructor (append, insert, extend, __setitem__); "
    "(ORD-sort) sort uses the stable sorted(), one pass per key in reversed key order, reverse=dir<0 and a key tuple whose "
    "leading None-flag places None last for that direction, directions validated; (ORD-unique) unique yields an item only when "
    "its key was not seen and records it. Not decided: that item sequences equal the list operation for all arguments."
)
ASSUMPTIONS = ["sorted() is stable; list slicing semantics of CPython"]


def coerced_before(fn, name, use, typ):
    """The idiom `if not isinstance(name, typ): name = typ(name)` dominates ``use`` with no rebinding in between,
    or the facts at the use say isinstance(name, typ)."""
    facts = facts_at(fn, use)
    if any(k == "T" and t.startswith(f"isinstance({name},") and typ in t for k, t in facts):
        return True
    defs = defs_reaching(fn, name, use)
    kinds = set()
    for d in defs:
        if d.kind == "param":
            kinds.add("raw")
        elif d.kind == "assign" and isinstance(d.value, ast.Call) and typ in norm(d.value.func) and d.value.args \
                and norm(d.value.args[0]) == name:
            # the assignment sits under `if not isinstance(name, typ)`
            kinds.add("coerced")
        else:
            kinds.add("other")
    if kinds == {"coerced"}:
        return True
    if kinds == {"raw", "coerced"}:
        # raw may only arrive along the branch where it already is of the type
        for d in defs:
            if d.kind == "assign":
                f2 = facts_at(fn, d.node.ast)
                if any(k == "F" and t.startswith(f"isinstance({name},") and typ in t for k, t in f2):
                    par = fn.module.parent.get(d.node.ast)
                    if isinstance(par, ast.If) and not par.orelse and len(par.body) == 1:
                        return True
    return False


def check(ctx):
    repo = ctx.repo
    from . import generic as _gen
    _gen.language_traps(ctx, _gen.anchor_functions(repo, "C15"), "the property holds for every input, on every call")
    _gen.raises_inside_domain(ctx, repo.fn(f"{LOD}.insert"), "index", [lambda n: -n - 2, lambda n: -n - 1, lambda n: -n, -1, 0, 1, lambda n: n - 1, lambda n: n, lambda n: n + 1, lambda n: n + 5],
                              "an index list.insert accepts (every integer)", "insert produces the same item sequence as list.insert",
                              lengths=("len(self)", "len(items)"))
    from . import generic
    generic.memo_projection(ctx, ("dataiter.list_of_dicts",), "select / rename / modify change only the named keys of each item, in the item's own key order")
    generic.wrapper_must_call(ctx, [f for f in generic.module_functions(repo, "dataiter.deco")],
                              "append / extend / insert / + return the receiver's items followed by the argument's")
    ctx.rule("CMP-asis", "filter / filter_out compare the item's value as stored, not a transformed copy")
    for r, t in (("SIB-12", "filter/filter_out: same extraction, complementary tests, single pass"),
                 ("SIB-3", "head/tail/sample clamp n"), ("GRD-negslice", "no negated slice bound that can be 0"),
                 ("MPT-4", "insert delivers the item on every path"),
                 ("EFF-asis", "caller-supplied dicts are converted before reaching the as-is constructor"),
                 ("ORD-sort", "stable multi-pass sort, None last"), ("ORD-unique", "first item per key")):
        ctx.rule(r, t)
    # -------------------------------------------------------------- SIB-12
    f1, f2 = repo.fn(f"{LOD}.filter"), repo.fn(f"{LOD}.filter_out")
    recs = {}
    for fn in (f1, f2):
        ys = yields_of(fn)
        rec = {"n_yields": len(ys), "callable": None, "kv": None, "extract": None, "values": []}
        for y in ys:
            facts = {(k, t) for k, t in facts_at(fn, y)}
            loops = [t for k, t in facts if t.startswith("iter:")]
            val = norm(y.value) if y.value is not None else None
            fn_t = [(k, t) for k, t in facts if t.startswith(f"{fn.params[1]}(")]
            cmp_t = [(k, t) for k, t in facts if ("==" in t or "!=" in t) and "(" in t and not t.startswith(f"{fn.params[1]}(")
                     and not t.startswith("len(") and not t.startswith("callable(")]
            if fn_t:
                rec["callable"] = (fn_t[0][0], val, loops)
            if cmp_t:
                k, t = cmp_t[0]
                op = "==" if (("==" in t) == (k == "T")) else "!="
                rec["kv"] = (op, val, loops)
        # name-agnostic: the extractor is the itemgetter over the keys of the key=value pairs, the compared values their values
        asg = sorted((n for n in body_nodes(fn.node) if isinstance(n, ast.Assign) and isinstance(n.targets[0], ast.Name)), key=lambda n: n.lineno)
        exn = None
        for n in asg:
            if isinstance(n.value, ast.Call) and repo.dotted(fn, n.value.func) == "operator.itemgetter":
                exn = n.targets[0].id
                rec["extract"] = norm(n.value)
        valn = None
        for n in asg:
            if pmatch(f"tuple({fn.kwarg}.values())", n.value) is not None:
                valn = n.targets[0].id
        if valn:
            for n in asg:
                if n.targets[0].id == valn:
                    rec["values"].append(norm(n.value).replace(valn, "VALUES"))
        if rec["kv"] is not None and exn and valn:
            op, val, loops = rec["kv"]
            rec["kv"] = (op, val, loops)
        # CMP-asis: the item side of the key=value comparison is the extractor's result itself.  itemgetter already returns
        # the bare value for one key and a tuple for several; wrapping the *item's* value (`as_tuple(extract(item))`) makes an
        # item value that is itself a tuple indistinguishable from a tuple of several keys' values.
        if exn:
            for cmpn in [n for n in ast.walk(fn.node) if isinstance(n, ast.Compare)]:
                for side in [cmpn.left] + list(cmpn.comparators):
                    inner = [c for c in ast.walk(side) if isinstance(c, ast.Call) and isinstance(c.func, ast.Name) and c.func.id == exn]
                    if inner:
                        okc = side is inner[0]
                        ctx.ob("CMP-asis", fn, f"item side of {norm(cmpn)[:50]}", cmpn, okc,
                               "the extracted value is compared as it is stored in the item" if okc else
                               f"`{norm(side)[:50]}` transforms the item's value before the comparison: an item value of the wrapped shape "
                               f"(a tuple) no longer equals the value the caller asked for", clause="partition by key=value condition")
        if rec["callable"] is None or rec["kv"] is None or rec["extract"] is None:
            raise AnalysisError(f"{fn.qualname}: cannot extract the filter feature record ({rec}); idiom changed")
        recs[fn.name] = rec
    a, b = recs["filter"], recs["filter_out"]
    for fn, rec, want_truth, want_op in ((f1, a, "T", "=="), (f2, b, "F", "!=")):
        ok = rec["callable"][0] == want_truth
        ctx.ob("SIB-12", fn, f"callable branch yields when {fn.params[1]}(item) is {'true' if rec['callable'][0] == 'T' else 'false'}", fn.node, ok,
               "predicate sense matches the method" if ok else f"{fn.name} yields items for which the predicate is "
               f"{'true' if rec['callable'][0] == 'T' else 'false'}", clause="filter and filter_out partition the items by the predicate")
        ok = rec["kv"][0] == want_op
        ctx.ob("SIB-12", fn, f"key=value branch yields when extract(item) {rec['kv'][0]} values", fn.node, ok,
               "comparison sense matches the method" if ok else f"{fn.name} uses {rec['kv'][0]} for key=value conditions",
               clause="partition by key=value condition")
        for which in ("callable", "kv"):
            loops = rec[which][2]
            lp = [n for n in ast.walk(fn.node) if isinstance(n, ast.For) and norm(n.iter) == fn.params[0]]
            tnames = {norm(l.target) for l in lp}
            ok = rec[which][1] in tnames and loops == [f"iter:{fn.params[0]}"]
            ctx.ob("SIB-12", fn, f"{which} branch: yield {rec[which][1]} inside {loops}", fn.node, ok,
                   "the receiver's own items are yielded from a single pass in order" if ok else
                   "items are not yielded from one pass over the receiver", nontrivial=False, clause="preserving order")
    same = a["extract"] == b["extract"] and a["values"] == b["values"]
    ctx.ob("SIB-12", f2, "extraction and value normalisation equal filter's", f2.node, same,
           "siblings extract and normalise the compared values identically" if same else
           f"filter and filter_out compare different things: {a['extract']}, {a['values']} vs {b['extract']}, {b['values']}",
           clause="filter and filter_out partition the items")
    from ..pattern import pmatch as _pm3
    ctx.rule("SEQ", "list operations produce the list operation's item sequence")
    seqs = {
        "__add__": ("itertools.chain({S}, {P1})", "receiver's items, then the other list's"),
        "extend": ("itertools.chain({S}, {P1})", "receiver's items, then the other list's"),
        "append": ("itertools.chain({S}, [{P1}])", "receiver's items, then the new item"),
        "reverse": ("reversed({S})", "items in reverse order"),
    }
    for name, (pat, what) in seqs.items():
        fn = repo.fn(f"{LOD}.{name}")
        P = {"S": fn.params[0], "P1": fn.params[1] if len(fn.params) > 1 else ""}
        yf = [n for n in body_nodes(fn.node) if isinstance(n, ast.YieldFrom)]
        ok = len(yf) == 1 and _pm3(pat.format(**P), yf[0].value) is not None and not yields_of(fn)
        ctx.ob("SEQ", fn, norm(yf[0].value) if yf else f"yield from {pat.format(**P)}", yf[0] if yf else fn.node, ok,
               f"{name} yields the {what}" if ok else f"{name} does not yield exactly the {what}",
               clause="produce the same item sequence as the same operation on a Python list")
    mul = repo.fn(f"{LOD}.__mul__")
    loops_m = [n for n in ast.walk(mul.node) if isinstance(n, ast.For)]
    ok = len(loops_m) == 1 and _pm3(f"range({mul.params[1]})", loops_m[0].iter) is not None and \
        any(isinstance(x, ast.YieldFrom) and norm(x.value) == mul.params[0] for x in ast.walk(loops_m[0]))
    ctx.ob("SEQ", mul, "for i in range(other): yield from self", loops_m[0] if loops_m else mul.node, ok,
           "the items are repeated `other` times in order" if ok else "__mul__ does not repeat the whole list `other` times",
           clause="produce the same item sequence as the same operation on a Python list")
    # ------------------------------------------------- SIB-3 / GRD-negslice
    for name in ("head", "tail", "sample"):
        clamp_check(ctx, repo.fn(f"{LOD}.{name}"), {"len(self)"}, "head/tail take min(n, len) items")
    n_neg = 0
    for cq in (LOD, "dataiter.data_frame.DataFrame", "dataiter.vector.Vector"):
        for name in ("head", "tail", "sample"):
            fn = repo.fn(f"{cq}.{name}")
            for n in body_nodes(fn.node):
                if isinstance(n, ast.Slice):
                    for bound, which in ((n.lower, "lower"), (n.upper, "upper")):
                        if isinstance(bound, ast.UnaryOp) and isinstance(bound.op, ast.USub) and not isinstance(bound.operand, ast.Constant):
                            n_neg += 1
                            lb = lower_bound(repo, fn, bound.operand, n)
                            ok = lb is not None and lb >= 1
                            ctx.ob("GRD-negslice", fn, f"[{norm(n)}]", n, ok,
                                   f"{norm(bound.operand)} >= {lb}" if ok else
                                   f"slice bound -{norm(bound.operand)} where {norm(bound.operand)} can be 0 (lower bound {lb}): "
                                   f"x[-0:] is the WHOLE sequence, so {name}(0) returns everything instead of nothing",
                                   clause="head/tail taking min(n, len) items")
    ctx.note(f"{n_neg} negated slice bound(s) in head/tail/sample of the three classes")
    # ---------------------------------------------------------------- MPT-4
    ins = repo.fn(f"{LOD}.insert")
    item = ins.params[2]
    cfg = cfg_of(ins)

    def delivers(n):
        a = n.ast
        if a is None or n.kind not in ("stmt",):
            return False
        for x in ast.walk(a):
            if isinstance(x, ast.Yield) and isinstance(x.value, ast.Name) and x.value.id == item:
                return True
            if isinstance(x, ast.YieldFrom):
                names = {y.id for y in ast.walk(x.value) if isinstance(y, ast.Name)}
                if item in names:
                    return True
                for nm in names:
                    for d in defs_reaching(ins, nm, a):
                        pass
                    # the list was given the item by insert/append before
                    for m in cfg.nodes:
                        if m.kind == "stmt" and isinstance(m.ast, ast.Expr) and isinstance(m.ast.value, ast.Call) \
                                and isinstance(m.ast.value.func, ast.Attribute) and m.ast.value.func.attr in ("insert", "append") \
                                and norm(m.ast.value.func.value) == nm \
                                and any(isinstance(z, ast.Name) and z.id == item for z in m.ast.value.args) \
                                and cfg.dominates(m, n):
                            return True
        return False
    p = cfg.path_avoiding(delivers)
    ctx.ob("MPT-4", ins, f"{item} is yielded on every path", ins.node, p is None,
           "every path through insert delivers the new item (as list.insert does for any index)" if p is None else
           "there is a path through insert on which the item is never yielded (e.g. the loop never meets i == index: "
           "index >= len, negative index, or an empty list): the item is silently dropped -- " + " -> ".join(map(repr, p)),
           clause="insert produces the same item sequence as list.insert")
    # where the item goes is list.insert's decision: the index is handed to it as given (Python clamps any integer itself;
    # re-deriving that -- `index += len(self)` -- is wrong for index < -len)
    ipar = ins.params[1]
    rebinds = [n for n in body_nodes(ins.node) if (isinstance(n, ast.AugAssign) and isinstance(n.target, ast.Name) and n.target.id == ipar)
               or (isinstance(n, ast.Assign) and any(isinstance(t, ast.Name) and t.id == ipar for t in n.targets))]
    ctx.ob("MPT-4", ins, f"{ipar} reaches list.insert as given", rebinds[0] if rebinds else ins.node, not rebinds,
           "the index is not adjusted before list.insert interprets it" if not rebinds else
           f"{norm(rebinds[0])} adjusts the index before it is used: list.insert already accepts every integer (indices below -len "
           f"insert at the front); after the adjustment an index in (-2*len, -len) lands near the end instead",
           clause="insert produces the same item sequence as list.insert")
    # ------------------------------------------------------------- EFF-asis
    for name, pname in (("append", None), ("insert", None), ("__setitem__", None)):
        fn = repo.fn(f"{LOD}.{name}")
        pname = fn.params[-1]
        sinks = []
        for n in body_nodes(fn.node):
            if isinstance(n, ast.Name) and n.id == pname and isinstance(n.ctx, ast.Load):
                par = fn.module.parent.get(n)
                if isinstance(par, ast.Call) and (norm(par.func) == "isinstance" or "AttributeDict" in norm(par.func)):
                    continue      # the type test / the conversion itself
                sinks.append(n)
        if not sinks:
            raise AnalysisError(f"{fn.qualname}: cannot find where {pname} is handed on")
        for u in sinks:
            ok = coerced_before(fn, pname, u, "AttributeDict")
            ctx.ob("EFF-asis", fn, f"{pname} -> {norm(fn.module.parent.get(u))[:50]}", u, ok,
                   "a caller-supplied dict is converted to AttributeDict before it is stored" if ok else
                   f"{pname} can reach the list as a plain dict (the constructor is called with as_is=True): "
                   f"the result's items no longer all support attribute access",
                   clause="always as a ListOfDicts whose items support attribute access")
    ext = repo.fn(f"{LOD}.extend")
    uses = [n for n in body_nodes(ext.node) if isinstance(n, ast.Name) and n.id == "other" and isinstance(n.ctx, ast.Load)
            and isinstance(ext.module.parent.get(n), ast.Call) and "chain" in norm(ext.module.parent.get(n).func)]
    for u in uses:
        ok = coerced_before(ext, "other", u, "self.__class__") or coerced_before(ext, "other", u, "ListOfDicts")
        ctx.ob("EFF-asis", ext, "other -> itertools.chain(self, other)", u, ok,
               "a plain sequence of dicts is converted to a ListOfDicts first" if ok else
               "extend hands on the caller's dicts unconverted", clause="items support attribute access")
    fm = repo.fn(f"{LOD}.fill_missing_keys")
    lp_fm = [n for n in ast.walk(fm.node) if isinstance(n, ast.For) and norm(n.iter) == fm.params[0]]
    itn = norm(lp_fm[0].target) if lp_fm else "item"
    stores = [n for n in body_nodes(fm.node) if isinstance(n, ast.Assign) and isinstance(n.targets[0], ast.Subscript)
              and norm(n.targets[0].value) == itn]
    ok = bool(stores) and all(("T", f"{norm(s_.targets[0].slice)} not in {itn}") in facts_at(fm, s_) for s_ in stores)
    ctx.rule("KEY-guard", "fill_missing_keys writes a key only when the item lacks it")
    ctx.ob("KEY-guard", fm, norm(stores[0]) if stores else "item[key] = value", stores[0] if stores else fm.node, ok,
           "a key is filled in only when it is absent from the item" if ok else
           "fill_missing_keys writes keys that are present (e.g. present with value None): it changes entries it must leave alone",
           clause="fill_missing_keys change only the named keys of the items concerned")
    # every item handed on has been through the fill loop (or is known to lack none of the keys)
    ctx.rule("KEY-all", "fill_missing_keys yields an item only after the loop that fills its missing keys, or under a test that "
                        "none of the keys is missing from it")
    from ..cfg import cfg_of as _cfg_of
    from ..forms import expand as _expand
    if lp_fm and stores:
        cfg_fm = _cfg_of(fm)
        inner = None
        cur = fm.module.parent.get(stores[0])
        while cur is not None and cur is not lp_fm[0]:
            if isinstance(cur, ast.For):
                inner = cur
            cur = fm.module.parent.get(cur)
        ys_fm = [n for n in ast.walk(lp_fm[0]) if isinstance(n, ast.Yield)]
        if inner is None or not ys_fm:
            raise AnalysisError(f"{fm.qualname}: no per-key fill loop inside the loop over the items, or no yield of the item")
        head, fill = cfg_fm.of_stmt.get(lp_fm[0]), cfg_fm.of_stmt.get(inner)
        for y in ys_fm:
            tgt = cfg_fm.node_of(y, fm.module.parent)
            prev = {head.id: None}
            stack = [head]
            found = None
            while stack and found is None:
                nd = stack.pop()
                for s_, lab in nd.succ:
                    if s_.id in prev or s_ is fill or s_ is cfg_fm.exit:
                        continue
                    prev[s_.id] = (nd, lab)
                    if s_ is tgt:
                        found = s_
                        break
                    stack.append(s_)
            tests = []
            cur_ = found
            while cur_ is not None and prev.get(cur_.id) is not None:
                p_, lab = prev[cur_.id]
                if p_.kind == "test" and p_.ast is not None and lab in ("T", "F"):
                    tests.append((lab, p_.ast))
                cur_ = p_
            def _nothing_missing(lab, t):
                txt = norm(_expand(fm, t, t))
                return (f" in {itn}" in txt or f"<= {itn}.keys()" in txt or f"issubset({itn}" in txt) and \
                    ((lab == "T" and ("all(" in txt or "<=" in txt or "issubset" in txt or txt.startswith("not "))) or
                     (lab == "F" and ("any(" in txt or (f"not in {itn}" in txt and not txt.startswith("not ")))))
            def _full_count(lab, t):
                """len(item) == N where N is the number of keys of ALL items (len of dict.fromkeys(self.keys()) / self.keys()),
                or None: the item's keys are a subset of that union, so an equal count means no key is missing."""
                if lab != "T" or not (isinstance(t, ast.Compare) and len(t.ops) == 1 and isinstance(t.ops[0], ast.Eq)):
                    return False
                sides = [t.left, t.comparators[0]]
                cnt = [x for x in sides if norm(x) == f"len({itn})"]
                oth = [x for x in sides if norm(x) != f"len({itn})"]
                if len(cnt) != 1 or len(oth) != 1 or not isinstance(oth[0], ast.Name):
                    return False
                S_ = fm.params[0]
                okd = []
                for d in defs_reaching(fm, oth[0].id, t):
                    if d.value is None or d.node is None:
                        return False
                    if isinstance(d.value, ast.Constant) and d.value.value is None:
                        okd.append(True)
                        continue
                    txt = norm(_expand(fm, d.value, d.node.ast))
                    okd.append(txt.startswith((f"len(dict.fromkeys({S_}.keys()", f"len({S_}.keys())", f"len(set({S_}.keys()))")))
                return bool(okd) and all(okd)
            ok = found is None or any(_nothing_missing(lab, t) or _full_count(lab, t) for lab, t in tests)
            ctx.ob("KEY-all", fm, f"yield {norm(y.value) if y.value is not None else ''} after the fill loop", y, ok,
                   "the item is handed on only after every named key was looked at" if ok else
                   f"an item can be handed on without passing the fill loop (under {[(l, norm(t)) for l, t in tests][:2]}): that test does "
                   f"not establish that none of the named keys is missing, so an item keeps lacking a key it was to receive",
                   clause="fill_missing_keys: every named key is present in every item afterwards")
    check_sort(ctx, repo)
    # the constructor converts EVERY item to an AttributeDict unless the caller vouches for them with as_is
    init = repo.fn(f"{LOD}.__init__")
    convs = [c for _, c in calls_in(init) if repo.dotted(init, c.func) == "builtins.map" and c.args and norm(c.args[0]) == "AttributeDict"]
    convs += [n for n in body_nodes(init.node) if isinstance(n, (ast.ListComp, ast.GeneratorExp)) and isinstance(n.elt, ast.Call)
              and norm(n.elt.func) == "AttributeDict"]
    from ..forms import split_ifexp as _sx
    okc = bool(convs)
    cond_txt = []
    for cv in convs:
        # conditions under which the conversion is taken / skipped: statement facts plus enclosing conditional expressions
        fx = set(facts_at(init, cv))
        p_ = init.module.parent.get(cv)
        node_ = cv
        while p_ is not None and not isinstance(p_, ast.stmt):
            if isinstance(p_, ast.IfExp):
                fx |= {("T" if node_ is p_.body else "F", norm(p_.test))} if node_ is not p_.test else set()
            node_, p_ = p_, init.module.parent.get(p_)
        other = [(k, t) for k, t in fx if t != "as_is" and t != "not as_is" and not t.startswith("iter:")]
        # ... and as_is is the caller's word, not something the constructor infers from a sample of the items
        from ..dataflow import defs_reaching as _dr0
        rebound = [d for d in _dr0(init, "as_is", cv) if d.kind != "param"]
        if rebound:
            other.append(("as_is rebound", norm(rebound[0].value) if rebound[0].value is not None else rebound[0].kind))
        cond_txt += other
        if other:
            okc = False
    ctx.ob("EFF-asis", init, f"items converted with AttributeDict unless as_is (other conditions: {cond_txt or 'none'})", convs[0] if convs else init.node, okc,
           "every item becomes an AttributeDict unless the caller passes as_is=True" if okc else
           f"the conversion to AttributeDict also depends on {cond_txt or 'nothing recognisable'}: lists for which that condition fails on some "
           f"items (e.g. a mix of AttributeDicts and plain dicts) keep plain dicts, which do not support attribute access",
           clause="always as a ListOfDicts whose items support attribute access")
    # ----------------------------------------------------------- ORD-unique
    uq = repo.fn(f"{LOD}.unique")
    ys = yields_of(uq)
    ok = bool(ys)
    for y in ys:
        # the enclosing `if key not in seen:` (facts are killed by seen.add() before the yield, so use the structure)
        p = uq.module.parent.get(y)
        guard = None
        while p is not None and p is not uq.node:
            if isinstance(p, ast.If) and isinstance(p.test, ast.Compare) and len(p.test.ops) == 1 \
                    and isinstance(p.test.ops[0], ast.NotIn):
                guard = p
                break
            p = uq.module.parent.get(p)
        form_a = guard is not None and any(
            isinstance(c, ast.Call) and isinstance(c.func, ast.Attribute) and c.func.attr == "add"
            and norm(c.func.value) == norm(guard.test.comparators[0]) and c.args and norm(c.args[0]) == norm(guard.test.left)
            for c in ast.walk(guard))
        # guard-clause form: `if key in seen: continue` / add / yield as siblings, in that order
        form_b = False
        blk_owner = uq.module.parent.get(uq.module.parent.get(y))      # Expr(yield) -> its block owner
        for field in ("body", "orelse"):
            blk = getattr(blk_owner, field, None)
            if not isinstance(blk, list):
                continue
            ystmt = uq.module.parent.get(y)
            if ystmt not in blk:
                continue
            before = blk[:blk.index(ystmt)]
            skips = [s_ for s_ in before if isinstance(s_, ast.If) and isinstance(s_.test, ast.Compare) and len(s_.test.ops) == 1
                     and isinstance(s_.test.ops[0], ast.In) and any(isinstance(z, ast.Continue) for z in s_.body) and not s_.orelse]
            for sk in skips:
                form_b = form_b or any(
                    isinstance(s_, ast.Expr) and isinstance(s_.value, ast.Call) and isinstance(s_.value.func, ast.Attribute)
                    and s_.value.func.attr == "add" and norm(s_.value.func.value) == norm(sk.test.comparators[0])
                    and s_.value.args and norm(s_.value.args[0]) == norm(sk.test.left) for s_ in before[before.index(sk) + 1:])
        ok = ok and (form_a or form_b)
    adds = [c for f, c in calls_in(uq) if isinstance(c.func, ast.Attribute) and c.func.attr == "add"]
    ok = ok and bool(adds)
    ctx.ob("ORD-unique", uq, "yield item only if its key is new; record the key", ys[0] if ys else uq.node, ok,
           "first item per key combination is kept" if ok else "unique does not test/record seen keys around its yield",
           clause="unique keeps the first item per key combination")
    # the set of seen keys holds the key values themselves, not a many-to-one reduction of them
    LOSSY = {"builtins.hash", "builtins.id", "builtins.str", "builtins.repr", "builtins.len", "builtins.sum", "builtins.bool"}
    from ..dataflow import defs_reaching as _dr
    for c in adds:
        exprs = [c.args[0]] if c.args else []
        if exprs and isinstance(exprs[0], ast.Name):
            exprs = [d.value for d in _dr(uq, exprs[0].id, c) if d.value is not None] or exprs
        lossy = [x for e in exprs for x in ast.walk(e) if isinstance(x, ast.Call) and repo.dotted(uq, x.func) in LOSSY]
        ctx.ob("ORD-unique", uq, f"keys recorded as {[norm(e) for e in exprs]}", c, not lossy,
               "the key tuples themselves are compared" if not lossy else
               f"keys are reduced with {norm(lossy[0])} before they are recorded: distinct keys can collide (hash(-1) == hash(-2)), so "
               f"items with different keys are dropped -- and aggregate(), which takes its groups from unique(), loses whole groups",
               clause="unique keeps the first item per key combination")


def check_sort(ctx, repo):
    """ORD-sort: ListOfDicts.sort (shared by C15 and C16, whose aggregate orders its groups with it)."""
    ctx.rule("ORD-sort", "stable multi-pass sort, None last")
    srt = repo.fn(f"{LOD}.sort")
    calls = [c for f, c in calls_in(srt) if repo.dotted(f, c.func) == "builtins.sorted"]
    other = [c for f, c in calls_in(srt) if isinstance(c.func, ast.Attribute) and c.func.attr == "sort" and "list" in norm(c.func.value)]
    ctx.count("sorted() calls in ListOfDicts.sort", len(calls), 1)
    sloops = [n for n in ast.walk(srt.node) if isinstance(n, ast.For) and isinstance(n.target, ast.Tuple) and len(n.target.elts) == 2]
    KEYV, DIRV = (norm(e) for e in sloops[0].target.elts) if sloops else ("key", "dir")
    for c in calls:
        from ..forms import resolved_text
        rv = kw(c, "reverse")
        rvt = resolved_text(srt, rv, c) if rv is not None else None
        ok = rv is not None and rvt in (f"{DIRV} < 0", f"{DIRV} == -1", f"0 > {DIRV}")
        ctx.ob("ORD-sort", srt, norm(c), c, ok, "descending keys are sorted with reverse=True" if ok else
               f"reverse={norm(rv) if rv is not None else None}: the direction is not (correctly) honoured",
               clause="stable ordering by the given keys and directions")
    loops = [n for n in ast.walk(srt.node) if isinstance(n, ast.For)]
    from ..forms import expand as _expand_it
    it_txt = norm(_expand_it(srt, loops[0].iter, loops[0])) if loops else ""
    ok = bool(loops) and (it_txt.endswith("[::-1]") or it_txt.startswith("reversed("))
    ctx.ob("ORD-sort", srt, f"for key, dir in {norm(loops[0].iter) if loops else '?'}", loops[0] if loops else srt.node, ok,
           "one stable pass per key, least significant key first" if ok else
           "keys are processed in the given order: with multi-pass stable sorting the LAST pass is the primary key, so the key "
           "priority is inverted", clause="stable ordering by the given keys")
    sk = srt.nested.get("sort_key")
    if sk is None:
        raise AnalysisError("anchor vanished: ListOfDicts.sort.sort_key")
    from ..forms import value_cases
    cases = value_cases(sk, "return")
    rets = [n for n in body_nodes(sk.node) if isinstance(n, ast.Return)]
    asc = [leaf for _, leaf, f in cases if ("T", f"{DIRV} > 0") in f or ("T", f"{DIRV} == 1") in f or ("F", f"{DIRV} < 0") in f]
    desc = [leaf for _, leaf, f in cases if ("F", f"{DIRV} > 0") in f or ("T", f"{DIRV} < 0") in f or ("T", f"{DIRV} == -1") in f]
    ok = False
    why = "cannot recognise the (None-flag, value) key for the two directions"
    if len(asc) == 1 and len(desc) == 1 and isinstance(asc[0], ast.Tuple) and isinstance(desc[0], ast.Tuple) and asc[0].elts and desc[0].elts:
        a0, d0 = norm(asc[0].elts[0]), norm(desc[0].elts[0])
        ok = a0.endswith("is None") and d0.endswith("is not None")
        why = ("ascending: None flag True sorts last; descending (reverse=True): 'is not None' flag keeps None last" if ok else
               f"flags {a0!r}/{d0!r}: None is not placed last in both directions")
        # the component right after the flag is the value itself: anything computed from the value and compared BEFORE it
        # (its type name, its text, its length) orders values by that first -- 2.5 before 1 because 'float' < 'int'
        if ok:
            want = f"{sk.params[0]}[{KEYV}]"
            seconds = [norm(_expand_it(sk, t_.elts[1], rets[0])) if len(t_.elts) >= 2 else None for t_ in (asc[0], desc[0])]
            if any(x != want for x in seconds):
                ok = False
                why = (f"the key tuple compares {[x for x in seconds if x != want][0]} before the value {want}: values the flag does not "
                       f"separate are ordered by that component first (with type(value).__name__, every float sorts before every int), "
                       f"not by the values themselves")
    ctx.ob("ORD-sort", sk, "; ".join(norm(leaf) for _, leaf, _ in cases)[:150] or "sort_key", rets[0] if rets else sk.node, ok, why, clause="with None last")
    raises = [n for n in body_nodes(srt.node) if isinstance(n, ast.Raise)]
    ok = any(any(("in" in t.split()) and DIRV in t and "1" in t for k, t in facts_at(srt, r)) for r in raises)
    ctx.ob("ORD-sort", srt, "dir validated", raises[0] if raises else srt.node, ok, "directions other than 1/-1 are rejected" if ok else
           "direction is not validated", nontrivial=False)
    ctx.ob("ORD-sort", srt, "no in-place list.sort", srt.node, not other, "receiver is not sorted in place" if not other else "in-place sort")
