"""C09 -- combining and reshaping columns preserves every untouched value."""
import ast
from ..common import precedes, interp, ours, calls_in, norm, DF, kw
from ..model import AnalysisError, body_nodes
from ..facts import facts_at
from ..dataflow import defs_reaching
from .shared import yields_of, row_index_of, enclosing_loop
from ..pattern import pmatch, pstmt, text, find

EXPLANATION = (
    "Structural necessary conditions of rbind, select, unselect, rename, cbind, update, modify and colnames assignment decided "
    "from source: (STO-6) colnames assignment is two-phase (no loop both pops and stores); (ORD-2) rbind iterates "
    "[self] + list(others) -- every input, in argument order, unfiltered -- takes the union of names with an order-preserving "
    "de-duplication (util.unique_keys / dict.fromkeys, never set), builds each column by concatenating one part per input in that "
    "order, and synthesises a missing part from na_value/na_dtype of the same reference column repeated to that input's nrow; "
    "(NAME) select loops over the requested names and yields (name, self[name]); rename loops over self.colnames, maps each through "
    "the inverted to->from map with .get(fm, fm) and yields (image, self[fm]); unselect yields (name, self[name]) for names not "
    "listed; (DUP) cbind yields a name only the first time it is seen; update skips own columns present in other and then yields "
    "all of other's; modify yields own columns first, then the new ones; (WHOLE) untouched columns are yielded un-indexed copies "
    "(no row subsetting or reordering). Not decided: NumPy promotion results."
)
ASSUMPTIONS = ["np.concatenate keeps the order of its parts; dict.fromkeys keeps first-seen order"]


def check(ctx):
    repo = ctx.repo
    from . import generic as _gen
    _gen.language_traps(ctx, _gen.anchor_functions(repo, "C09"), "the property holds for every input, on every call")
    for m_ in ("select", "unselect"):
        _gen.argument_as_given(ctx, repo.fn(f"dataiter.data_frame.DataFrame.{m_}"), repo.fn(f"dataiter.data_frame.DataFrame.{m_}").vararg, [()],
                               "select / unselect honour the requested names -- an empty request included")
        _gen.names_as_given(ctx, repo.fn(f"dataiter.data_frame.DataFrame.{m_}"), repo.fn(f"dataiter.data_frame.DataFrame.{m_}").vararg,
                            "select / unselect change only which columns exist, by the names given")
    for r, t in (("STO-6", "colnames assignment is two-phase"), ("ORD-2", "rbind: all inputs in order, ordered union of names, NA parts"),
                 ("NAME", "select / rename / unselect: name-value provenance"), ("DUP", "cbind / update / modify duplicate handling"),
                 ("WHOLE", "untouched columns are yielded whole")):
        ctx.rule(r, t)
    # ---------------------------------------------------------------- STO-6
    cs = repo.fn(f"{DF}.colnames@setter")
    s0 = cs.params[0]
    hazard = None
    for loop in [n for n in ast.walk(cs.node) if isinstance(n, (ast.For, ast.While))]:
        removes = any(isinstance(n, ast.Call) and isinstance(n.func, ast.Attribute) and n.func.attr in ("pop", "popitem", "__delitem__")
                      and norm(n.func.value) == s0 for n in ast.walk(loop)) or \
            any(isinstance(n, ast.Delete) for n in ast.walk(loop))
        stores = any(isinstance(n, ast.Subscript) and isinstance(n.ctx, ast.Store) and norm(n.value) == s0 for n in ast.walk(loop))
        if removes and stores:
            hazard = loop
    ctx.ob("STO-6", cs, "rename loop", hazard or cs.node, hazard is None,
           "no loop both removes from and stores into the frame" if hazard is None else
           "one loop pops an old name and stores a new one in the same pass: a new name equal to a pending old name loses a column",
           clause="colnames assignment renaming positionally")
    pops = [c for _, c in calls_in(cs) if isinstance(c.func, ast.Attribute) and c.func.attr == "pop" and norm(c.func.value) == s0]
    stores = [n for n in body_nodes(cs.node) if isinstance(n, ast.Subscript) and isinstance(n.ctx, ast.Store) and norm(n.value) == s0]
    ok = bool(pops) and bool(stores)
    ctx.ob("STO-6", cs, "every old column is popped and re-stored", cs.node, ok, "columns are moved, not copied or dropped" if ok else
           "colnames setter no longer pops and re-stores the columns", nontrivial=False)
    # all columns are popped and re-stored: popping only some of them (those whose name changes) re-inserts these AFTER the
    # ones left in place, so a partial rename reorders the frame
    for c in pops:
        comp = cs.module.parent.get(c)
        while comp is not None and not isinstance(comp, (ast.ListComp, ast.GeneratorExp, ast.For)):
            comp = cs.module.parent.get(comp)
        it = comp.generators[0].iter if isinstance(comp, (ast.ListComp, ast.GeneratorExp)) else (comp.iter if comp is not None else None)
        if it is None:
            continue
        srcs = [it]
        if isinstance(it, ast.Name):
            srcs = [d.value for d in defs_reaching(cs, it.id, c) if d.value is not None] or [it]
        full = {f"list({s0}.keys())", f"list({s0})", f"{s0}.colnames", f"list({s0}.colnames)", f"tuple({s0}.keys())", f"tuple({s0})"}
        okall = all(norm(v) in full for v in srcs)
        ctx.ob("STO-6", cs, f"columns popped: all of {[norm(v)[:40] for v in srcs]}", c, okall,
               "every column is taken out and put back, in order" if okall else
               f"the columns that are popped and re-stored are {[norm(v)[:60] for v in srcs]}, not all of the frame's columns: the re-stored "
               f"ones move behind those left in place, so renaming part of the columns changes the column order",
               clause="colnames assignment renaming positionally")
    # ---------------------------------------------------------------- ORD-2
    rb = repo.fn(f"{DF}.rbind")
    R, OTH = rb.params[0], rb.vararg
    stm = sorted((n for n in body_nodes(rb.node) if isinstance(n, ast.stmt)), key=lambda n: n.lineno)

    def first(fn_stmts, pattern, env=None):
        for n in fn_stmts:
            bb = pstmt(pattern, n, dict(env or {}))
            if bb is not None:
                return n, bb
        return None, None
    sdf, bdf = first(stm, f"_FS = [{R}] + list({OTH})")
    FS = bdf["_FS"] if bdf else None
    rebound = [n for n in stm if isinstance(n, ast.Assign) and FS is not None and any(text(t) == text(FS) for t in n.targets)]
    ok = bdf is not None and len(rebound) == 1
    ctx.ob("ORD-2", rb, "; ".join(text(d) for d in rebound) or "data_frames = [self] + list(others)", sdf or rb.node, ok,
           "every input takes part, receiver first, then the arguments in order" if ok else
           "the list of inputs is filtered, reordered or rebuilt: an input (e.g. one with zero rows) no longer contributes its "
           "columns, or rows come in another order", clause="rbind stacks frames in argument order; union of the columns")
    if FS is None:
        # fall back to whatever list the parts are taken from, so the remaining rules can still speak
        cands = [n for n in stm if isinstance(n, ast.Assign) and isinstance(n.targets[0], ast.Name) and R in text(n.value) and OTH in text(n.value)]
        if not cands:
            raise AnalysisError("DataFrame.rbind: cannot identify the list of input frames")
        FS = cands[-1].targets[0]
    env = {"_FS": FS}
    scn, bcn = first(stm, "_CN = util.unique_keys(itertools.chain(*_FS))", env)
    for alt in ("_CN = list(dict.fromkeys(itertools.chain(*_FS)))", "_CN = util.unique_keys(itertools.chain.from_iterable(_FS))",
                "_CN = list(dict.fromkeys(itertools.chain.from_iterable(_FS)))", "_CN = util.unique_keys([_X for _D in _FS for _X in _D])",
                "_CN = list(dict.fromkeys((_X for _D in _FS for _X in _D)))"):
        if bcn is None:
            scn, bcn = first(stm, alt, env)
    uk = repo.fn("dataiter.util.unique_keys")
    uk_ok = any(pmatch(f"list(dict.fromkeys({uk.params[0]}))", r.value) is not None for r in body_nodes(uk.node) if isinstance(r, ast.Return))
    ok = bcn is not None and uk_ok
    ctx.ob("ORD-2", rb, text(scn) if scn else "colnames = util.unique_keys(itertools.chain(*data_frames))", scn or rb.node, ok,
           "union of the column names in first-seen order" if ok else
           "the union of names is not an order-preserving de-duplication over all inputs (a set loses the order)",
           clause="the union of the columns in first-seen order")
    # The parts of one output column, in either form:
    #   A  parts = [helper(x, colname) for x in data_frames]   (helper = nested function deciding per input)
    #   B  parts = []; for data in data_frames: parts.append(...)  under complementary conditions
    from ..forms import value_cases, contributions, resolve
    ys = yields_of(rb)
    cases = None          # [(value expr, facts, owner function, node)]
    D = C = None
    order_ok = False
    node = rb.node
    if ys and bcn is not None:
        y = ys[0]
        node = y
        loop = enclosing_loop(rb, y)
        if loop is not None and text(loop.iter) == text(bcn["_CN"]) and isinstance(y.value, ast.Tuple) and len(y.value.elts) == 2 \
                and text(y.value.elts[0]) == text(loop.target):
            cn = text(loop.target)
            val = y.value.elts[1]
            exprs = [val]
            if isinstance(val, ast.Name):
                exprs = [d.value for d in defs_reaching(rb, val.id, y) if d.value is not None]
            cc = [c for e in exprs for c in ast.walk(e) if isinstance(c, ast.Call) and repo.dotted(rb, c.func) == "numpy.concatenate"]
            if len(cc) == len(exprs) == 1:
                parts = cc[0].args[0]
                if isinstance(parts, ast.Name):
                    pdefs = [d.value for d in defs_reaching(rb, parts.id, y) if d.value is not None]
                    comp = [pe for pe in pdefs if isinstance(pe, ast.ListComp)]
                    if len(pdefs) == 1 and comp:
                        parts = comp[0]
                if isinstance(parts, ast.ListComp):
                    for hname, h in rb.nested.items():
                        if pmatch(f"[{hname}(_X, {cn}) for _X in _FS]", parts, env) is not None and len(h.params) == 2:
                            D, C = h.params
                            cases = [(leaf, f_, h, n_) for n_, leaf, f_ in value_cases(h, "return")]
                            order_ok = True
                elif isinstance(parts, ast.Name):
                    cs = [x for x in contributions(rb, parts.id, y) if not x.get("whole")]
                    if cs and all(x["iter"] is not None and text(x["iter"]) == text(FS) and isinstance(x["target"], ast.Name) for x in cs) \
                            and len({x["target"].id for x in cs}) == 1 and all(_within_loop(rb, x["node"], loop) for x in cs):
                        D, C = cs[0]["target"].id, cn
                        from ..facts import close_under_negation
                        cases = [(x["value"], frozenset(close_under_negation(facts_at(rb, x["node"]))), rb, x["node"]) for x in cs]
                        # the list is started afresh for every column
                        fresh = [n for n in loop.body if isinstance(n, ast.Assign) and text(n.targets[0]) == parts.id
                                 and isinstance(n.value, ast.List) and not n.value.elts]
                        order_ok = bool(fresh)
    ok = cases is not None and order_ok
    ctx.ob("ORD-2", rb, "column = concatenate(one part per input, in input order) for every name of the union", node, ok,
           "one part per input, in input order, stacked in that order, for every name of the union" if ok else
           "a column of the result is not the concatenation of one part per input in input order",
           clause="each input's rows are recoverable by position")
    if cases is None:
        cases = []
    has = [c for c in cases if ("T", f"{C} in {D}") in c[1]]
    lack = [c for c in cases if ("F", f"{C} in {D}") in c[1] or ("T", f"{C} not in {D}") in c[1]]
    rest = [c for c in cases if c not in has and c not in lack and not (isinstance(c[0], ast.Constant) and c[0].value is None)]
    ok = bool(has) and bool(lack) and not rest
    ctx.ob("ORD-2", rb, f"parts decided by `{C} in {D}`: {len(has)} when present, {len(lack)} when absent, {len(rest)} otherwise",
           (has or lack or [(None, None, None, node)])[0][3], ok,
           "every input contributes exactly one part: its own column when it has one, a synthesised part when it lacks it" if ok else
           "the parts of a column are not decided by whether the input has the column (an input contributes no part, or two)",
           clause="the sum of the row counts")
    ok = bool(has) and all(pmatch(f"{D}[{C}]", v) is not None for v, _, _, _ in has)
    ctx.ob("ORD-2", rb, "existing column is used as is", has[0][3] if has else node, ok,
           "an input that has the column contributes it unchanged" if ok else "an existing column is not used as is", nontrivial=False)
    n_lack = 0
    lack2 = []
    for v, f_, owner, at in lack:
        # a part held in a temporary (possibly after an inlined helper) stands for its definitions; a defensive None
        # ("no reference frame has the column") is not a part
        if isinstance(v, ast.Name):
            dvs = [d.value for d in defs_reaching(owner, v.id, at) if d.value is not None]
            dvs = [x for x in dvs if not (isinstance(x, ast.Constant) and x.value is None)]
            if dvs:
                lack2 += [(x, f_, owner, at) for x in dvs]
                continue
        lack2.append((v, f_, owner, at))
    lack = lack2
    for v, f_, owner, at in lack:
        n_lack += 1
        b = pmatch(f"__.fast([_V], _T).repeat({D}.nrow)", v)
        if b is None:
            b2 = pmatch("__.fast([_V], _T).repeat(_N)", v)
            ctx.ob("ORD-2", owner, text(v), at, False,
                   "the synthesised part does not have the lacking input's row count" if b2 is not None else
                   "the part for an input lacking the column is not a repetition of the missing value", clause="the sum of the row counts")
            continue
        ctx.ob("ORD-2", owner, text(v), at, True, "an input lacking the column contributes exactly its own number of rows",
               clause="the sum of the row counts")
        srcs = {}
        for key, attr in (("_V", "na_value"), ("_T", "na_dtype")):
            e = b[key]
            vs = [e]
            if isinstance(e, ast.Name):
                vs = [d.value for d in defs_reaching(owner, e.id, at) if d.value is not None]
            srcs[attr] = {norm(x.value) if isinstance(x, ast.Attribute) and x.attr == attr else f"?{norm(x)}" for x in vs}
        ok = srcs["na_value"] == srcs["na_dtype"] and len(srcs["na_value"]) == 1 and not next(iter(srcs["na_value"])).startswith("?") \
            and next(iter(srcs["na_value"])).endswith(f"[{C}]")
        ctx.ob("ORD-2", owner, f"na_value of {sorted(srcs['na_value'])} / na_dtype of {sorted(srcs['na_dtype'])}", at, ok,
               "missing part uses the reference column's own NA value and NA-capable dtype" if ok else
               "NA value and NA dtype of the synthesised part come from different columns", clause="missing values in a type able to hold them")
    ctx.count("synthesised-part cases of rbind", n_lack, 1 if cases else 0)
    # ----------------------------------------------------------------- NAME
    sel = repo.fn(f"{DF}.select")
    ys = yields_of(sel)
    loop = enclosing_loop(sel, ys[0]) if ys else None
    ok = len(ys) == 1 and loop is not None and norm(loop.iter) == sel.vararg and \
        norm(ys[0].value) == f"({norm(loop.target)}, {sel.params[0]}[{norm(loop.target)}].copy())"
    ctx.ob("NAME", sel, norm(ys[0].value) if ys else "select", ys[0] if ys else sel.node, ok,
           "requested names in requested order, each with its own column" if ok else
           "select does not yield (name, self[name]) over the requested names in order",
           clause="select honouring the requested order and names")
    ren = repo.fn(f"{DF}.rename")
    ys = yields_of(ren)
    loop = enclosing_loop(ren, ys[0]) if ys else None
    ok = False
    if len(ys) == 1 and loop is not None and norm(loop.iter) == f"{ren.params[0]}.colnames":
        fm = text(loop.target)
        by = pmatch(f"(_TO, {ren.params[0]}[{fm}].copy())", ys[0].value)
        if by is not None and isinstance(by["_TO"], ast.Name):
            tds = [d.value for d in defs_reaching(ren, by["_TO"].id, ys[0]) if d.value is not None]
            good = bool(tds)
            for tv in tds:
                bg = pmatch(f"_M.get({fm}, {fm})", tv)
                if bg is None or not isinstance(bg["_M"], ast.Name):
                    good = False
                    continue
                mds = [d.value for d in defs_reaching(ren, bg["_M"].id, ys[0]) if d.value is not None]
                if not (mds and all(pmatch(f"{{_V: _K for _K, _V in {ren.kwarg}.items()}}", mv) is not None for mv in mds)):
                    good = False
            ok = good
    ctx.ob("NAME", ren, norm(ys[0].value) if ys else "rename", ys[0] if ys else ren.node, ok,
           "every column keeps its position and values; only names with an entry in the to=from map change" if ok else
           "rename does not yield (new-or-same name, self[old name]) for every column in order",
           clause="rename honouring the requested names; never the values of any other column")
    uns = repo.fn(f"{DF}.unselect")
    ys = yields_of(uns)
    loop = enclosing_loop(uns, ys[0]) if ys else None
    facts = facts_at(uns, ys[0]) if ys else set()
    ok = len(ys) == 1 and loop is not None and norm(loop.iter) == f"{uns.params[0]}.colnames" and \
        ("T", f"{norm(loop.target)} not in {uns.vararg}") in facts and \
        norm(ys[0].value) == f"({norm(loop.target)}, {uns.params[0]}[{norm(loop.target)}].copy())"
    ctx.ob("NAME", uns, norm(ys[0].value) if ys else "unselect", ys[0] if ys else uns.node, ok,
           "exactly the columns not listed are kept, in order" if ok else "unselect does not keep exactly the unlisted columns",
           clause="change only which columns exist")
    # rename is simultaneous: whether a requested name is already a column of the receiver says nothing about the result
    # (swaps, cycles, shifts), so no request is rejected on that ground
    ren_ = repo.fn(f"{DF}.rename")
    rs0 = ren_.params[0]
    for rz in [n for n in body_nodes(ren_.node) if isinstance(n, ast.Raise)]:
        fz = [t for k, t in facts_at(ren_, rz) if k == "T" and (t.endswith(f" in {rs0}") or t.endswith(f" in {rs0}.colnames")
                                                                or t.endswith(f" in {rs0}.keys()")) and " not in " not in t]
        ctx.ob("NAME", ren_, f"raise under {fz or 'other conditions'}", rz, not fz,
               "not a rejection of existing names" if not fz else
               f"rename raises when a requested name is already a column ({fz[0]}): a permutation of existing names (a swap, a shift) is a "
               f"request the statement says is honoured, and it is rejected", clause="select and rename honouring the requested order and names")
    # ------------------------------------------------------------------ DUP
    cb = repo.fn(f"{DF}.cbind")
    ys = yields_of(cb)
    facts = facts_at(cb, ys[0]) if ys else set()
    seen_guard = [n for n in body_nodes(cb.node) if isinstance(n, ast.If) and pmatch("_C in _SEEN", n.test) is not None
                  and any(isinstance(x, ast.Continue) for x in n.body)]
    adds = []
    if seen_guard:
        bsg = pmatch("_C in _SEEN", seen_guard[0].test)
        adds = [c for _, c in calls_in(cb) if pmatch("_SEEN.add(_C)", c, bsg) is not None]
    ok = bool(seen_guard) and bool(adds) and bool(ys) and precedes(cb, seen_guard[0], adds[0]) and precedes(cb, adds[0], ys[0]) \
        and isinstance(ys[0].value, ast.Tuple) and text(ys[0].value.elts[0]) == text(pmatch("_C in _SEEN", seen_guard[0].test)["_C"])
    ctx.ob("DUP", cb, "skip names already seen; record; yield", seen_guard[0] if seen_guard else cb.node, ok,
           "the first column of a name wins" if ok else "cbind does not keep the first of duplicate names",
           clause="cbind keeping the first of duplicate names")
    dfs = [n for n in body_nodes(cb.node) if isinstance(n, ast.Assign) and pmatch(f"[{cb.params[0]}] + list({cb.vararg})", n.value) is not None]
    ok = len(dfs) == 1
    if not ok:
        # the same sequence written as a display: for data in (self, *others) / [self, *others]
        seqs = [n for n in body_nodes(cb.node) if isinstance(n, (ast.Tuple, ast.List)) and len(n.elts) == 2
                and norm(n.elts[0]) == cb.params[0] and isinstance(n.elts[1], ast.Starred) and norm(n.elts[1].value) == cb.vararg]
        if len(seqs) == 1:
            ok = True
            dfs = [seqs[0]]
    ctx.ob("DUP", cb, norm(dfs[0]) if dfs else "data_frames", dfs[0] if dfs else cb.node, ok, "receiver first, then the arguments in order" if ok else
           "cbind does not iterate [self] + list(others)", nontrivial=False)
    up = repo.fn(f"{DF}.update")
    ys = sorted(yields_of(up), key=lambda y: y.lineno)
    ok = len(ys) == 2
    if ok:
        l1, l2 = enclosing_loop(up, ys[0]), enclosing_loop(up, ys[1])
        skip = [n for n in ast.walk(l1) if isinstance(n, ast.If) and any(isinstance(x, ast.Continue) for x in n.body)]
        ok = norm(l1.iter) == f"{up.params[0]}.items()" and norm(l2.iter) == f"{up.params[1]}.items()" and bool(skip) and \
            norm(skip[0].test) == f"{norm(l1.target.elts[0])} in {up.params[1]}"
    ctx.ob("DUP", up, "own columns not in other, then all of other's", up.node, ok,
           "same-named columns are replaced by other's" if ok else "update does not (only) replace same-named columns",
           clause="update replacing same-named columns")
    md = repo.fn(f"{DF}.modify")
    ys = sorted(yields_of(md), key=lambda y: y.lineno)
    ok = bool(ys) and enclosing_loop(md, ys[0]) is not None and norm(enclosing_loop(md, ys[0]).iter) == f"{md.params[0]}.items()" \
        and pmatch("(_N, _C.copy())", ys[0].value) is not None and [text(e) for e in enclosing_loop(md, ys[0]).target.elts] == \
        [text(pmatch("(_N, _C.copy())", ys[0].value)["_N"]), text(pmatch("(_N, _C.copy())", ys[0].value)["_C"])] and md.node.body.index(_top_stmt(md, ys[0])) == min(
            md.node.body.index(_top_stmt(md, y)) for y in ys)
    cond0 = [(k, t) for k, t in (facts_at(md, ys[0]) if ys else []) if not t.startswith("iter:")]
    if ok and cond0:
        ctx.ob("DUP", md, f"existing columns yielded under {cond0}", ys[0], False,
               f"an existing column is handed on only when {cond0}: a column that is replaced is skipped in the first pass, so it "
               f"leaves its position and reappears after all other columns -- column order (and every positional access) changes",
               clause="column names keep their order; modify replaces same-named columns in place")
    ctx.ob("DUP", md, "own columns first, then the new ones", ys[0] if ys else md.node, ok,
           "existing columns keep their position; a same-named new column replaces the value" if ok else
           "modify does not yield the receiver's columns first", clause="modify replacing same-named columns")
    # ---------------------------------------------------------------- WHOLE
    for name in ("select", "unselect", "rename", "cbind", "update", "modify", "left_join"):
        fn = repo.fn(f"{DF}.{name}")
        for y in yields_of(fn):
            if not (isinstance(y.value, ast.Tuple) and len(y.value.elts) == 2):
                continue
            v = y.value.elts[1]
            colexpr, idx, op = row_index_of(v)
            src = norm(colexpr)
            lp = enclosing_loop(fn, y)
            loopval = None
            if lp is not None and isinstance(lp, ast.For) and isinstance(lp.target, ast.Tuple) and len(lp.target.elts) == 2 \
                    and norm(lp.iter) == f"{fn.params[0]}.items()":
                loopval = norm(lp.target.elts[1])
            own = (loopval is not None and src == loopval) or src.startswith(f"{fn.params[0]}[")
            if not own or "restore_indices" in norm(v) or "reconcile" in norm(v):
                continue
            if name == "left_join" and "new" in norm(v):
                continue
            ok = idx is None
            ctx.ob("WHOLE", fn, f"yield {norm(y.value)}", y, ok,
                   "column is handed on whole" if ok else
                   f"an untouched column is row-indexed with {norm(idx)}: its values or row order change",
                   clause="never the values or row order of any other column")


def _top_stmt(fn, node):
    p = node
    while fn.module.parent.get(p) is not fn.node:
        p = fn.module.parent.get(p)
    return p


def _within_loop(fn, node, loop):
    p = node
    while p is not None:
        if p is loop:
            return True
        p = fn.module.parent.get(p)
    return False
