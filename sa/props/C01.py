"""C01 -- every data frame is a well-formed rectangular table.

Induction over operation histories: the invariant is established by the checked
constructor and preserved by every operation that can touch storage.  Each rule
below is one step of that induction, decided from the code's shape.
"""
import ast
from ..common import interp, ours, calls_in, norm, DF, DFC, VEC, GEO, kw
from ..model import AnalysisError, FunctionInfo, body_nodes, outermost
from ..cfg import cfg_of
from ..facts import facts_at, cfg_node_of
from ..dataflow import defs_reaching

EXPLANATION = (
    "Inductive argument over all operation histories, each step decided statically: (MPT-1/STO-1) the constructor converts "
    "every value that is not already a conforming DataFrameColumn with DataFrameColumn(value, nrow=nrow), nrow being the "
    "maximum length, and every normal exit passes _check_dimensions, which raises unless all lengths agree; (GRD-len) "
    "DataFrameColumn.__new__ repeats only length-1 input and raises on any other mismatch; (STO-2) __setitem__ stores only "
    "the result of _reconcile_column, which hands a column back unchanged only when it is a DataFrameColumn of the frame's "
    "nrow; (STO-3) base-class storage primitives (super().__setitem__/pop/..., dict.update(x, ...)) occur only in the six "
    "writer methods, and frames built by the unchecked _view_rows never reach a public return value; (STO-4) every generator "
    "method returns through self._new == cls(...); (STO-5) key/attribute coherence: both adders set the placeholder under "
    "the same guard, every remover deletes the placeholder under a satisfiable guard (a comparison of an item-store value "
    "with the placeholder class is constant-false by store separation); (STO-6) colnames assignment does not interleave "
    "removal and insertion in one pass; (MPT-2) vectors check ndim == 1 on construction and on .length. Not decided: that "
    "the stored values are the right values."
)
ASSUMPTIONS = ["dict.__init__/__setitem__/pop/popitem store and remove exactly the given keys",
               "inherited dict mutators that DataFrame does not override (setdefault, |=) are outside the property's enumerated operations"]

PRIMS = {"__setitem__", "__delitem__", "pop", "popitem", "update", "setdefault", "clear", "__ior__"}
WRITERS = {"__init__", "__setitem__", "__delitem__", "pop", "popitem", "_view_rows"}


def _self_name(fn):
    top = outermost(fn)
    return top.params[0] if top.params else "self"


def check(ctx):
    repo = ctx.repo
    from . import generic as _gen
    # util.sequencify / util.length / util.is_scalar decide what is broadcast: the helpers module belongs to the anchor
    _gen.language_traps(ctx, _gen.anchor_functions(repo, "C01") + [f for f in _gen.module_functions(repo, "dataiter.util")
                                                                      if f not in _gen.anchor_functions(repo, "C01")],
                        "the property holds for every input, on every call")
    I = interp(repo)
    for r, t in (("MPT-1", "constructor: every normal exit passes the uniformity check"),
                 ("STO-1", "constructor stores only DataFrameColumn(value, nrow=nrow); skip only for conforming columns"),
                 ("GRD-len", "broadcast contract of DataFrameColumn.__new__"),
                 ("STO-2", "assignment stores only reconciled columns"),
                 ("STO-3", "storage primitives only in the writer methods; unchecked views stay private"),
                 ("STO-4", "transforming methods rebuild through the constructor"),
                 ("STO-5", "attribute/key coherence on add and remove"),
                 ("STO-6", "colnames assignment is not a read-after-write hazard"),
                 ("MPT-2", "one-dimensionality checks")):
        ctx.rule(r, t)
    df = repo.cls(DF)
    init = repo.fn(f"{DF}.__init__")
    s0 = init.params[0]
    cfg = cfg_of(init)
    # ---------------------------------------------------------------- MPT-1
    def is_check(n):
        return n.ast is not None and any(isinstance(x, ast.Call) and isinstance(x.func, ast.Attribute)
                                         and x.func.attr == "_check_dimensions" and norm(x.func.value) == s0
                                         for x in ast.walk(n.ast) if n.kind in ("stmt", "test"))
    p = cfg.path_avoiding(is_check)
    ctx.ob("MPT-1", init, "self._check_dimensions() on every path", init.node, p is None,
           "every normal exit of the constructor passes the uniformity check" if p is None else
           "a path through the constructor never checks that all columns have one length: " + " -> ".join(map(repr, p)),
           clause="all columns have the same length")
    chk = repo.fn(f"{DF}._check_dimensions")
    ccfg = cfg_of(chk)
    exits = [p for p, _ in ccfg.exit.pred]
    ok = bool(exits)
    why = "returns normally only for an empty frame or when the set of column lengths has one element"
    for e in exits:
        facts = cfg_facts_after(chk, e)
        good = any((k == "F" and t == _self_name(chk)) or (k == "T" and t.startswith("len(set(") and t.endswith("== 1"))
                   or (k == "F" and t.startswith("len(set(") and ("!= 1" in t or "> 1" in t)) for k, t in facts)
        if not good:
            ok = False
            why = f"_check_dimensions can return normally without having established equal lengths (exit via {e!r})"
    ctx.ob("MPT-1", chk, "raise unless len(set(nrows)) == 1", chk.node, ok, why, clause="any other length mismatch is rejected")
    nrows_def = [n for n in body_nodes(chk.node) if isinstance(n, ast.Assign) and isinstance(n.targets[0], ast.Name)]
    ok = any("nrow" in norm(n.value) or "length" in norm(n.value) or "len(" in norm(n.value) for n in nrows_def) and \
        any(".columns" in norm(n.value) or ".values()" in norm(n.value) for n in nrows_def)
    ctx.ob("MPT-1", chk, "lengths of all columns are compared", chk.node, ok,
           "the compared lengths are those of every stored column" if ok else "the compared quantity is not the length of every column",
           nontrivial=False)
    # nrow / ncol / the scalar predicate shared by the broadcast machinery
    from ..forms import value_cases as _vcn
    from ..pattern import pmatch as _pmn
    nrowp = repo.fn(f"{DF}.nrow")
    cs = _vcn(nrowp, "return")
    sN = nrowp.params[0]
    zero = [1 for _, leaf, f_ in cs if norm(leaf) == "0" and any((k == "F" and t == sN) or (k == "T" and t == f"not {sN}") for k, t in f_)]
    col = [leaf for _, leaf, f_ in cs if norm(leaf) != "0"]
    okn = bool(zero) and len(col) == 1 and (_pmn(f"{sN}[next(iter({sN}))].nrow", col[0]) is not None or
                                           _pmn(f"{sN}[__].nrow", col[0]) is not None or _pmn("__.nrow", col[0]) is not None)
    pc = cfg_of(nrowp).path_avoiding(lambda n: (n.ast is not None and n.kind in ("stmt", "test") and "_check_dimensions()" in norm(n.ast))
                                     or (n.kind == "stmt" and isinstance(n.ast, ast.Return) and norm(n.ast.value) == "0"))
    ctx.ob("MPT-1", nrowp, "nrow = 0 without columns, else a stored column's length after the uniformity check", nrowp.node, okn and pc is None,
           "the row count is that of the stored columns, which are checked to agree first" if (okn and pc is None) else
           "DataFrame.nrow does not return 0 for no columns / a stored column's nrow after _check_dimensions()",
           clause="all columns have the same length (the frame's nrow)")
    ul = repo.fn("dataiter.util.length")
    cs = _vcn(ul, "return")
    okl = {(norm(leaf), tuple(sorted((k, t) for k, t in f_ if t.startswith("is_scalar(") and k in ("T", "F")))) for _, leaf, f_ in cs} == \
        {("1", (("T", f"is_scalar({ul.params[0]})"),)), (f"len({ul.params[0]})", (("F", f"is_scalar({ul.params[0]})"),))}
    ctx.ob("STO-1", ul, "util.length: 1 for scalars, len(value) otherwise", ul.node, okl,
           "a scalar counts as one row" if okl else "util.length is no longer `1 if is_scalar(value) else len(value)`: the constructor's "
           "row count (max of the lengths) is wrong for scalars", clause="scalars and length-one values are broadcast to the row count")
    sq = repo.fn("dataiter.util.sequencify")
    cs = _vcn(sq, "return")
    oks = any(norm(leaf) == f"[{sq.params[0]}]" and any(k == "T" and t == f"is_scalar({sq.params[0]})" for k, t in f_) for _, leaf, f_ in cs) and \
        any(isinstance(n, ast.Raise) for n in body_nodes(sq.node))
    ctx.ob("STO-1", sq, "util.sequencify: scalar -> [scalar]; unknown types rejected", sq.node, oks,
           "a scalar becomes a one-element sequence (which DataFrameColumn then broadcasts)" if oks else
           "util.sequencify no longer wraps exactly the is_scalar values / rejects other types",
           clause="scalars and length-one values are broadcast to the row count")
    # ---------------------------------------------------------------- STO-1
    stores = [(f, c) for f, c in calls_in(init) if isinstance(c.func, ast.Attribute) and c.func.attr == "__setitem__"
              and isinstance(c.func.value, ast.Call) and norm(c.func.value.func) == "super"]
    ctx.count("storage writes in the constructor", len(stores), 1)
    from ..pattern import pmatch, pstmt, text
    nd = []
    NR = None
    for n in body_nodes(init.node):
        b = pstmt(f"_N = max(map(util.length, {s0}.values()), default=0)", n) if isinstance(n, ast.Assign) else None
        if b is not None:
            nd.append(n)
            NR = b["_N"]
    ok_n = len(nd) == 1
    ctx.ob("STO-1", init, text(nd[0]) if nd else "nrow = max(map(util.length, self.values()), default=0)", nd[0] if nd else init.node, ok_n,
           "row count is the maximum input length (0 for no columns)" if ok_n else
           "row count is not max(lengths of all values, default=0): shorter columns are no longer the ones broadcast / empty input fails",
           clause="broadcast to the row count")
    env_n = {"_N": NR} if NR is not None else {}
    for f, c in stores:
        v = c.args[1] if len(c.args) > 1 else None
        vals = [v]
        if isinstance(v, ast.Name):
            vals = [d.value for d in defs_reaching(init, v.id, c)]
        ok = bool(vals)
        why = ""
        for val in vals:
            good = (isinstance(val, ast.Call) and repo.dotted(init, val.func) == DFC
                    and pmatch("__(__, nrow=_N)", val, env_n) is not None and NR is not None)
            if not good:
                ok = False
                why = f"constructor stores {norm(val) if val is not None else '?'} which is not DataFrameColumn(value, nrow=<the common row count>)"
        ctx.ob("STO-1", init, norm(c), c, ok, why or "only DataFrameColumn(value, nrow=nrow) is stored: broadcast or reject",
               clause="scalars and length-one values are broadcast; mismatches rejected")
    # the skip (continue) only for conforming columns
    for n in body_nodes(init.node):
        if isinstance(n, ast.Continue):
            facts = facts_at(init, n)
            ft = {t for k, t in facts if k == "T"}
            nr = text(NR) if NR is not None else "nrow"
            inst = [t for t in ft if t.startswith("isinstance(") and "DataFrameColumn" in t]
            ok = False
            if inst:
                var = inst[0][len("isinstance("):].split(",")[0]
                ok = any(t in (f"{var}.nrow == {nr}", f"{nr} == {var}.nrow", f"{var}.length == {nr}") for t in ft)
            ctx.ob("STO-1", init, "continue (value kept as is)", n, ok,
                   "a value is kept as is only when it is a DataFrameColumn of exactly nrow elements" if ok else
                   f"a value can be kept unconverted without being a DataFrameColumn of the common length (facts: {sorted(ft)})",
                   clause="each column is a one-dimensional column vector of the common length")
    # the loop visits every item
    loops = [n for n in init.node.body if isinstance(n, ast.For)]
    ok = any(norm(l.iter) in (f"{s0}.items()",) for l in loops)
    ctx.ob("STO-1", init, "for key, value in self.items()", loops[0] if loops else init.node, ok,
           "every stored value is visited" if ok else "constructor does not visit every stored value", nontrivial=False)
    # -------------------------------------------------------------- GRD-len
    new = repo.fn(f"{DFC}.__new__")
    ncfg = cfg_of(new)
    reps = [c for f, c in calls_in(new) if isinstance(c.func, ast.Attribute) and c.func.attr in ("repeat",)]
    ctx.count("broadcast sites in DataFrameColumn.__new__", len(reps), 1)
    for c in reps:
        facts = facts_at(new, c)
        # exact: on the grid (length, nrow) in 0..4 x 0..4, every point consistent with all facts that hold at the call
        # (tests the evaluator cannot read are taken as possibly true) has length 1
        from ..intpred import _ev, Unsupported
        recv = norm(c.func.value)
        witness = None
        for L_ in range(5):
            for N_ in range(5):
                env = {f"{recv}.length": L_, f"len({recv})": L_, "nrow": N_, "nrow is not None": True, "nrow is None": False}
                consistent = True
                for k, t in facts:
                    try:
                        v = _ev(ast.parse(t, mode="eval").body, env)
                    except (Unsupported, SyntaxError, TypeError):
                        continue
                    if bool(v) != (k == "T"):
                        consistent = False
                        break
                if consistent and L_ != 1 and witness is None:
                    witness = (L_, N_)
        ok1 = witness is None
        ctx.ob("GRD-len", new, norm(c), c, ok1,
               "only length-1 input is repeated" if ok1 else
               f"input whose length is not 1 reaches the repeat (e.g. length {witness[0]} with nrow = {witness[1]} passes every test on the "
               f"way): a length mismatch is stored -- repeated or emptied -- instead of being rejected",
               chain=[f"facts: {sorted(facts)}"], clause="any other length mismatch is rejected with an error")
        ok2 = norm(c.args[0]) == "nrow" if c.args else False
        ctx.ob("GRD-len", new, "repeat count is nrow", c, ok2, "repeated to exactly nrow" if ok2 else "repeat count is not nrow",
               nontrivial=False)
    # on every path where nrow is given and differs, the function raises or repeats
    tests = [n for n in ncfg.nodes if n.kind == "test" and "nrow" in norm(n.ast) and "!=" in norm(n.ast)]
    ok = False
    why = "no test nrow != length found"
    if tests and reps:
        t = tests[0]
        rn = cfg_node_of(new, reps[0])
        starts = [s for s, lab in t.succ if lab == "T"]
        ok = all(ncfg.path_avoiding(lambda n: n is rn, start=s) is None or s is rn for s in starts)
        why = ("whenever nrow is given and differs from the length the column is either rejected or repeated" if ok else
               "a path returns a column whose length differs from the requested nrow")
    ctx.ob("GRD-len", new, "nrow != length -> raise or repeat", tests[0].ast if tests else new.node, ok, why,
           clause="all columns have the same length")
    rets = [n for n in body_nodes(new.node) if isinstance(n, ast.Return)]
    ok = all(r.value is not None and ".view(" in norm(r.value) for r in rets)
    ctx.ob("GRD-len", new, "return column.view(cls)", rets[0] if rets else new.node, ok,
           "result is a DataFrameColumn view of the (broadcast) vector" if ok else "result is not converted to the column class",
           nontrivial=False)
    # ---------------------------------------------------------------- STO-2
    seti = repo.fn(f"{DF}.__setitem__")
    stores = [(f, c) for f, c in calls_in(seti) if isinstance(c.func, ast.Attribute) and c.func.attr == "__setitem__"
              and isinstance(c.func.value, ast.Call) and norm(c.func.value.func) == "super"]
    ctx.count("storage writes in __setitem__", len(stores), 1)
    for f, c in stores:
        v = c.args[1] if len(c.args) > 1 else None
        vals = [v]
        if isinstance(v, ast.Name):
            vals = [d.value if d.kind == "assign" else None for d in defs_reaching(seti, v.id, c)]
        ok = all(isinstance(val, ast.Call) and isinstance(val.func, ast.Attribute) and val.func.attr == "_reconcile_column"
                 for val in vals) and bool(vals)
        ctx.ob("STO-2", seti, norm(c), c, ok,
               "the stored value is always the result of self._reconcile_column(value)" if ok else
               "a value reaches storage without passing _reconcile_column: columns of any length / type can be stored",
               clause="any other length mismatch is rejected instead of being stored")
    # nothing of the new column is recorded before the value has passed reconciliation (which rejects bad lengths by raising):
    # an attribute registered first would survive the rejection
    recs_ = [c for _, c in calls_in(seti) if isinstance(c.func, ast.Attribute) and c.func.attr == "_reconcile_column"]
    sets_ = [c for _, c in calls_in(seti) if isinstance(c.func, ast.Attribute) and c.func.attr == "__setattr__"] + \
            [c for _, c in calls_in(seti) if isinstance(c.func, ast.Name) and c.func.id == "setattr"]
    from ..common import precedes as _prec01
    for c in sets_:
        okp = bool(recs_) and all(_prec01(seti, r_, c) for r_ in recs_)
        ctx.ob("STO-2", seti, f"{norm(c)[:60]} after _reconcile_column", c, okp,
               "the attribute is registered only once the value has been accepted" if okp else
               f"{norm(c)[:50]} runs before the value is reconciled: when reconciliation raises (wrong length) the column is not stored but "
               f"the attribute stays -- the name is reachable by attribute and not by key",
               clause="any other length mismatch is rejected ...; a column is reachable identically by key and by attribute")
    # the column is stored under the very name that was asked for
    kp = seti.params[1] if len(seti.params) > 1 else "key"
    for f, c in stores:
        k = c.args[0] if c.args else None
        kdefs = defs_reaching(seti, k.id, c) if isinstance(k, ast.Name) else None
        ok = isinstance(k, ast.Name) and k.id == kp and all(d.kind == "param" for d in kdefs)
        how = norm(k) if k is not None else "?"
        if kdefs and not ok:
            how = "; ".join(sorted({norm(d.node.ast) if d.node is not None and d.node.ast is not None else d.kind for d in kdefs}))[:120]
        ctx.ob("STO-2", seti, f"stored under {norm(k) if k is not None else '?'}", c, ok,
               f"the name is the {kp!r} argument itself" if ok else
               f"the name reaching storage is not the {kp!r} argument as given ({how}): the column lands under a rewritten name, and two "
               f"requested names that are rewritten to the same one collapse into one column",
               clause="column names are exactly the names assigned, in a stable order")
    rec = repo.fn(f"{DF}._reconcile_column")
    p0 = rec.params[1]
    for r in [n for n in body_nodes(rec.node) if isinstance(n, ast.Return)]:
        v = r.value
        if isinstance(v, ast.Name) and v.id == p0:
            facts = facts_at(rec, r)
            ft = {t for k, t in facts if k == "T"}
            ok = any(t.startswith("isinstance(") and "DataFrameColumn" in t for t in ft) and \
                any(t in (f"{p0}.nrow == {_self_name(rec)}.nrow", f"{_self_name(rec)}.nrow == {p0}.nrow",
                          f"{p0}.length == {_self_name(rec)}.nrow") for t in ft)
            ctx.ob("STO-2", rec, f"return {p0} (unchanged)", r, ok,
                   "a column is handed back unchanged only if it is a DataFrameColumn with the frame's nrow" if ok else
                   f"_reconcile_column can hand back its argument unconverted without the type+length test (facts: {sorted(ft)})",
                   clause="all columns have the same length")
        else:
            ok = isinstance(v, ast.Call) and repo.dotted(rec, v.func) == DFC and kw(v, "nrow") is not None
            if not ok:
                # an EMPTY slice of a DataFrameColumn (X[:0], X[:0].copy()) where the frame is known to have zero rows:
                # a column of exactly nrow = 0 elements, of X's own type
                core = v.func.value if isinstance(v, ast.Call) and isinstance(v.func, ast.Attribute) and v.func.attr == "copy" and not v.args else v
                if isinstance(core, ast.Subscript) and isinstance(core.slice, ast.Slice) and core.slice.lower is None and core.slice.step is None \
                        and isinstance(core.slice.upper, ast.Constant) and core.slice.upper.value == 0 and isinstance(core.value, ast.Name):
                    ft_ = {t for k, t in facts_at(rec, r) if k == "T"}
                    zero = any(t in ("nrow == 0", f"{_self_name(rec)}.nrow == 0", "not nrow") for t in ft_)
                    ds_ = [d.value for d in defs_reaching(rec, core.value.id, r)]
                    isdfc = bool(ds_) and all(d is not None and isinstance(d, ast.Call) and repo.dotted(rec, d.func) == DFC for d in ds_)
                    if zero and isdfc:
                        nd_ = defs_reaching(rec, "nrow", r)
                        ok = all(d.value is not None and norm(d.value) in (f"{_self_name(rec)}.nrow if {_self_name(rec)} else None", f"{_self_name(rec)}.nrow")
                                 for d in nd_) if "nrow == 0" in ft_ or "not nrow" in ft_ else True
            ctx.ob("STO-2", rec, norm(v) if v is not None else "return", r, ok,
                   "otherwise the value is converted and broadcast/rejected by DataFrameColumn(column, nrow=...)" if ok else
                   "fallback does not build DataFrameColumn(column, nrow=...)", clause="broadcast to the row count")
            if ok and isinstance(v, ast.Call) and kw(v, "nrow") is not None:
                nv = kw(v, "nrow")
                vals = [nv]
                if isinstance(nv, ast.Name):
                    vals = [d.value for d in defs_reaching(rec, nv.id, r)]
                sn = _self_name(rec)
                good = True
                why = "the target length is the frame's own nrow; None (no length check) only when the frame has no columns"
                for x in vals:
                    t = norm(x) if x is not None else ""
                    if t == f"{sn}.nrow":
                        continue
                    if isinstance(x, ast.IfExp) and norm(x.body) == f"{sn}.nrow" and norm(x.orelse) == "None" \
                            and norm(x.test) in (sn, f"len({sn})", f"{sn}.ncol", f"{sn}.colnames", f"len({sn}) > 0", f"{sn}.ncol > 0"):
                        continue
                    good = False
                    why = (f"the target length is {t}: it must be the frame's nrow whenever the frame has columns -- "
                           f"a form like `nrow or None` also disables the length check for a frame with columns but ZERO rows, "
                           f"so a column of any length can be stored next to empty ones")
                ctx.ob("STO-2", rec, f"nrow = {', '.join(norm(x) for x in vals if x is not None)}", r, good, why,
                       clause="any other length mismatch is rejected; including 0-row shapes")
    # ---------------------------------------------------------------- STO-3
    n_prim = 0
    for fn in repo.functions.values():
        top = outermost(fn)
        in_df = top.cls is not None and df in repo.mro(top.cls)
        for f, c in calls_in(fn, False):
            func = c.func
            prim = None
            if isinstance(func, ast.Attribute) and func.attr in PRIMS:
                if isinstance(func.value, ast.Call) and norm(func.value.func) == "super" and in_df:
                    hit = repo.lookup_method(top.cls, func.attr, after=top.cls)
                    if not isinstance(hit, FunctionInfo):
                        prim = f"super().{func.attr}"
                elif repo.dotted(fn, func) in {f"builtins.dict.{p}" for p in PRIMS}:
                    prim = f"dict.{func.attr}"
            if prim is None:
                continue
            n_prim += 1
            if prim.startswith("dict."):
                # explicit base-class call on some object: what is it?
                tgt = c.args[0] if c.args else None
                summ = I.summary(top)
                is_frame = any(ev.kind == "struct-store" and ev.node is c for ev in summ.events) or in_df
                if not is_frame:
                    ctx.ob("STO-3", fn, norm(c)[:80], c, True, "explicit dict call on a plain dict, not on a data frame", nontrivial=True)
                    continue
            ok = in_df and top.name in WRITERS and top.cls.qualname in (DF,)
            ctx.ob("STO-3", fn, norm(c)[:80], c, ok,
                   f"storage primitive {prim} used inside writer method {top.name}" if ok else
                   f"storage primitive {prim} used in {fn.qualname}, which is not one of the writer methods {sorted(WRITERS)}: "
                   f"values reach (or leave) the column dict without broadcast, length check and attribute bookkeeping",
                   clause="any sequence of public operations keeps the frame rectangular")
    ctx.count("storage-primitive call sites", n_prim, 5)
    vr = repo.fn(f"{DF}._view_rows")
    comp = [n for n in ast.walk(vr.node) if isinstance(n, ast.DictComp)]
    ok = False
    if comp:
        d = comp[0]
        ok = isinstance(d.value, ast.Subscript) and norm(d.value.slice) == vr.params[1] \
            and norm(d.generators[0].iter) == vr.params[0] and not d.generators[0].ifs
    else:
        # the same dict filled by an explicit loop over the receiver's columns
        from ..forms import contributions as _contrib01
        for nm in sorted({n.targets[0].id for n in body_nodes(vr.node) if isinstance(n, ast.Assign) and isinstance(n.targets[0], ast.Name)
                          and isinstance(n.value, ast.Dict)}):
            cs = [x for x in _contrib01(vr, nm) if x["key"] is not None]
            if cs and all(x["iter"] is not None and norm(x["iter"]) in (vr.params[0], f"{vr.params[0]}.items()") and not x["conds"]
                          and isinstance(x["value"], ast.Subscript) and norm(x["value"].slice) == vr.params[1] for x in cs):
                ok = True
                comp = [cs[0]["node"]]
    ctx.ob("STO-3", vr, norm(comp[0]) if comp else "_view_rows body", comp[0] if comp else vr.node, ok,
           "every column is indexed with the same rows" if ok else "_view_rows does not index every column with the same rows",
           clause="all columns have the same length")
    for cq in (DF, GEO):
        for m in repo.cls(cq).methods.values():
            if m.name.startswith("_") and not m.name.startswith("__"):
                continue
            summ = I.summary(m)
            vals = [summ.returns] + [y for _, y in summ.yields]
            leaked = any(v is not None and _has_flag(v, "unchecked-view") for v in vals)
            if leaked or m.name in ("aggregate", "modify"):
                ctx.ob("STO-3", m, f"return value of {m.name} vs _view_rows", m.node, not leaked,
                       "frames built by the unchecked _view_rows do not escape" if not leaked else
                       "a frame built by _view_rows (constructor bypassed: no placeholders, no checks) is returned to the caller",
                       clause="every DataFrame obtained from any sequence of public operations")
    # ---------------------------------------------------------------- STO-4
    nfg = repo.fn("dataiter.deco.new_from_generator.wrapper")
    rets = [n for n in ast.walk(nfg.node) if isinstance(n, ast.Return)]
    ok = bool(rets) and all(isinstance(r.value, ast.Call) and isinstance(r.value.func, ast.Attribute)
                            and r.value.func.attr == "_new" and norm(r.value.func.value) == nfg.params[0] for r in rets)
    ctx.ob("STO-4", nfg, "return self._new(value)", rets[0] if rets else nfg.node, ok,
           "generator methods return through the receiver's _new" if ok else "wrapper does not return self._new(...)",
           clause="all transforming methods rebuild through the constructor")
    newm = repo.fn(f"{DF}._new")
    rets = [n for n in ast.walk(newm.node) if isinstance(n, ast.Return)]
    ok = bool(rets) and all(isinstance(r.value, ast.Call) and norm(r.value.func) == newm.params[0] for r in rets)
    ctx.ob("STO-4", newm, "return cls(*args, **kwargs)", rets[0] if rets else newm.node, ok,
           "_new is the checked constructor" if ok else "_new does not call the class constructor", nontrivial=False)
    gens = [m for m in df.methods.values() if m.has_decorator("new_from_generator")]
    ctx.count("generator methods of DataFrame", len(gens), 16)
    for m in gens:
        ys = [n for n in body_nodes(m.node) if isinstance(n, ast.Yield)]
        ok = all(isinstance(y.value, ast.Tuple) and len(y.value.elts) == 2 for y in ys) and bool(ys)
        ctx.ob("STO-4", m, f"{len(ys)} yield(s) of (name, column) pairs", m.node, ok,
               "all yields are (name, column) pairs consumed by the constructor" if ok else "a yield is not a (name, column) pair",
               nontrivial=False)
    for m in df.methods.values():
        if not any(d == "builtins.classmethod" for d in m.decorators) or m.name.startswith("_"):
            continue
        if m.has_decorator("new_from_generator"):
            continue
        from ..forms import value_cases as _vc
        cases = _vc(m, "return")
        bad = []
        for _, leaf, f_ in cases:
            okc = isinstance(leaf, ast.Call) and (norm(leaf.func) == m.params[0] or
                                                 (isinstance(leaf.func, ast.Attribute) and norm(leaf.func.value) == m.params[0]))
            if not okc:
                bad.append(leaf)
        ctx.ob("STO-4", m, f"{m.name} returns {[norm(l)[:40] for _, l, _ in cases]}", m.node, bool(cases) and not bad,
               "the alternate constructor returns cls(...) or another constructor of cls: the frame goes through the checked constructor" if (cases and not bad) else
               f"{m.name} returns {norm(bad[0])[:60] if bad else 'nothing'}: a frame that did not pass the checked constructor",
               nontrivial=False, clause="every DataFrame obtained from a reader or converter")
    ga = repo.fn(f"{DF}.__getattribute__")
    gt = repo.fn(f"{DF}.__getattr__")
    from ..forms import value_cases as _vc2
    c_ga = _vc2(ga, "return")
    ok = any(norm(leaf) == f"{ga.params[0]}[{ga.params[1]}]" and any(k == "T" and "COLUMN_PLACEHOLDER" in t and " is " in t for k, t in f_)
             and any(k == "T" and t == f"{ga.params[1]} in {ga.params[0]}" for k, t in f_) for _, leaf, f_ in c_ga)
    ctx.ob("STO-5", ga, "placeholder attribute -> self[name]", ga.node, ok,
           "an attribute holding the placeholder resolves to the column stored under that key" if ok else
           "__getattribute__ does not resolve a placeholder attribute to self[name] (under `name in self`)",
           clause="reachable identically by key and by attribute")
    c_gt = _vc2(gt, "return")
    ok = any(norm(leaf) in (f"{gt.params[0]}.__getitem__({gt.params[1]})", f"{gt.params[0]}[{gt.params[1]}]")
             and any(k == "T" and t == f"{gt.params[1]} in {gt.params[0]}" for k, t in f_) for _, leaf, f_ in c_gt) and \
        any(isinstance(n, ast.Raise) and "AttributeError" in norm(n) for n in body_nodes(gt.node))
    ctx.ob("STO-5", gt, "__getattr__: column if present, else AttributeError", gt.node, ok,
           "a missing attribute is looked up as a column, otherwise AttributeError" if ok else
           "__getattr__ does not fall back to the column of that name / raise AttributeError",
           clause="once removed it is reachable by neither", nontrivial=False)
    # ---------------------------------------------------------------- STO-5
    adders = [init, seti]
    guards = []
    for a in adders:
        sets = [c for f, c in calls_in(a) if isinstance(c.func, ast.Attribute) and c.func.attr == "__setattr__"
                and isinstance(c.func.value, ast.Call) and norm(c.func.value.func) == "super"]
        ok = bool(sets)
        g = None
        if ok:
            facts = facts_at(a, sets[0])
            keyv = norm(sets[0].args[0]) if sets[0].args else "key"
            g = sorted((k, t.replace("__hasattr", "_DataFrame__hasattr").replace(keyv, "KEY")) for k, t in facts if "hasattr" in t or "isidentifier" in t)
            ok = any(k == "F" and "hasattr" in t for k, t in g) and any(k == "T" and "isidentifier" in t for k, t in g)
            ok = ok and len(sets[0].args) == 2 and "COLUMN_PLACEHOLDER" in norm(sets[0].args[1])
        guards.append(g)
        ctx.ob("STO-5", a, "placeholder set under (not hasattr and isidentifier)", sets[0] if sets else a.node, ok,
               "an identifier-named key that does not clash with an existing attribute gets its placeholder" if ok else
               "adding a key does not (correctly) set the attribute placeholder", clause="reachable identically by key and by attribute")
    ctx.ob("STO-5", seti, "adders agree on the placeholder guard", seti.node, guards[0] == guards[1],
           "constructor and __setitem__ use the same guard" if guards[0] == guards[1] else
           f"constructor guard {guards[0]} differs from __setitem__ guard {guards[1]}", nontrivial=False)
    for name in ("__delitem__", "pop", "popitem"):
        m = repo.fn(f"{DF}.{name}")
        dels = [c for f, c in calls_in(m) if isinstance(c.func, ast.Attribute) and c.func.attr == "__delattr__"
                and isinstance(c.func.value, ast.Call) and norm(c.func.value.func) == "super"]
        rem = [c for f, c in calls_in(m) if isinstance(c.func, ast.Attribute) and c.func.attr in ("__delitem__", "pop", "popitem")
               and isinstance(c.func.value, ast.Call) and norm(c.func.value.func) == "super"]
        ok = bool(dels) and bool(rem)
        why = "key is removed from storage and its placeholder attribute is deleted under a satisfiable guard"
        chain = []
        if not rem:
            why = f"{name} does not remove the key from storage"
        elif not dels:
            why = f"{name} never deletes the placeholder attribute: the removed column stays reachable by attribute"
        else:
            facts = facts_at(m, dels[0])
            chain = [f"guard facts: {sorted(facts)}"]
            for k, t in facts:
                if k == "T" and "COLUMN_PLACEHOLDER" in t and (" is " in t or "==" in t):
                    e = ast.parse(t, mode="eval").body
                    sides = [e.left] + list(e.comparators)
                    for sd in sides:
                        if isinstance(sd, ast.Subscript) or ("__getitem__" in norm(sd)):
                            ok = False
                            why = (f"the attribute is deleted only if {t}: {norm(sd)} reads the ITEM store, which only ever holds "
                                   f"columns (the placeholder lives in the attribute store), so the test is constant-false and "
                                   f"the attribute is never deleted: after removal the column name is still an attribute")
            for k, t in facts:
                if "hasattr(" in t and t.startswith("hasattr(") and k == "F":
                    ok = False
                    why = (f"the placeholder attribute is deleted only when hasattr(...) is FALSE: for a column that has one nothing is "
                           f"deleted (the name stays an attribute), for one that has none __delattr__ raises AttributeError")
                if "is_builtin_attr" in t and k == "T" and not t.startswith("not "):
                    ok = False
                    why = (f"the attribute is deleted only for names that ARE built-in attributes: a column's placeholder is never "
                           f"deleted, and removing a column named like a method would delete nothing it should")
        ctx.ob("STO-5", m, f"{name}: remove key and placeholder", dels[0] if dels else m.node, ok, why, chain=chain,
               clause="once removed it is reachable by neither")
    dela = repo.fn(f"{DF}.__delattr__")
    ok = any(isinstance(c.func, ast.Attribute) and c.func.attr == "__delitem__" and norm(c.func.value) == dela.params[0]
             for f, c in calls_in(dela))
    ctx.ob("STO-5", dela, "del data.x -> self.__delitem__(x) for columns", dela.node, ok,
           "attribute deletion of a column goes through __delitem__" if ok else "attribute deletion does not remove the column", nontrivial=False)
    # ---------------------------------------------------------------- STO-6
    cs = repo.fn(f"{DF}.colnames@setter")
    hazard = None
    for loop in [n for n in ast.walk(cs.node) if isinstance(n, (ast.For, ast.While))]:
        removes = stores = False
        for n in ast.walk(loop):
            if isinstance(n, ast.Call) and isinstance(n.func, ast.Attribute) and n.func.attr in ("pop", "popitem", "__delitem__") \
                    and norm(n.func.value) == cs.params[0]:
                removes = True
            if isinstance(n, ast.Delete) and any(norm(getattr(t, "value", t)) == cs.params[0] for t in n.targets):
                removes = True
            if isinstance(n, ast.Subscript) and isinstance(n.ctx, ast.Store) and norm(n.value) == cs.params[0]:
                stores = True
            if isinstance(n, ast.Call) and isinstance(n.func, ast.Attribute) and n.func.attr == "__setitem__" and norm(n.func.value) == cs.params[0]:
                stores = True
        if removes and stores:
            hazard = loop
    ctx.ob("STO-6", cs, "rename loop", hazard or cs.node, hazard is None,
           "no loop both removes from and stores into the frame (two-phase rename or new mapping)" if hazard is None else
           "one loop pops an old name and stores under a new name in the same pass: when a new name equals a not-yet-processed "
           "old name (e.g. a permutation of the existing names) the stored column is popped again / overwrites a pending one, "
           "so columns are lost", clause="column names are unique and keep a stable order; colnames assignment renames positionally")
    # ---------------------------------------------------------------- MPT-2
    vi = repo.fn(f"{VEC}.__init__")
    vl = repo.fn(f"{VEC}.length")
    for m in (vi, vl):
        c = cfg_of(m)
        p = c.path_avoiding(lambda n: n.ast is not None and n.kind in ("stmt", "test") and "_check_dimensions()" in norm(n.ast))
        ctx.ob("MPT-2", m, "self._check_dimensions()", m.node, p is None,
               "one-dimensionality is checked on every path" if p is None else f"{m.name} can complete without the ndim check",
               clause="each column is a one-dimensional column vector")
    vc = repo.fn(f"{VEC}._check_dimensions")
    vcfg = cfg_of(vc)
    ok = True
    for e, _ in vcfg.exit.pred:
        facts = cfg_facts_after(vc, e)
        if not any((k == "T" and t.endswith(".ndim == 1")) or (k == "F" and t.endswith(".ndim != 1")) for k, t in facts):
            ok = False
    ctx.ob("MPT-2", vc, "raise unless ndim == 1", vc.node, ok,
           "returns normally only when ndim == 1" if ok else "Vector._check_dimensions can return for ndim != 1",
           clause="each column is a one-dimensional column vector")
    nr = repo.fn(f"{DFC}.nrow")
    rets = [n for n in body_nodes(nr.node) if isinstance(n, ast.Return)]
    ok = bool(rets) and all(r.value is not None and any(
        (isinstance(x, ast.Attribute) and x.attr == "length" and norm(x.value) == nr.params[0]) or
        (isinstance(x, ast.Call) and isinstance(x.func, ast.Attribute) and x.func.attr == "_check_dimensions")
        for x in ast.walk(r.value)) for r in rets) or \
        cfg_of(nr).path_avoiding(lambda n: n.ast is not None and n.kind in ("stmt", "test") and "_check_dimensions()" in norm(n.ast)) is None
    ctx.ob("MPT-2", nr, "DataFrameColumn.nrow is the dimension-checked length", rets[0] if rets else nr.node, ok,
           "the length compared by the constructor, _reconcile_column and _check_dimensions is Vector.length, which rejects ndim != 1" if ok else
           "DataFrameColumn.nrow no longer goes through the dimension-checked .length: a 2-D column whose first axis equals nrow "
           "passes every length comparison and is stored", clause="each column is a one-dimensional column vector")
    ok = any(repo.dotted(new, c.func) == VEC for f, c in calls_in(new))
    ctx.ob("MPT-2", new, "column = Vector(object, dtype)", new.node, ok,
           "columns are built by the Vector constructor" if ok else "DataFrameColumn.__new__ no longer builds a Vector", nontrivial=False)
    ctx.note("inherited dict mutators not overridden by DataFrame (setdefault, |=, update is overridden) are outside the "
             "property's enumerated operations and are not reported")


def _has_flag(av, flag, depth=0):
    if av is None or depth > 5:
        return False
    if flag in av.flags:
        return True
    if av.elem is not None and _has_flag(av.elem, flag, depth + 1):
        return True
    return any(_has_flag(i, flag, depth + 1) for i in (av.items or ()))


def cfg_facts_after(fn, node):
    """Facts holding when control leaves ``node`` towards the normal exit."""
    from ..facts import cfg_facts, test_facts
    cfg = cfg_of(fn)
    IN = cfg_facts(fn)
    out = set(IN[node.id])
    if node.kind == "test":
        for s, lab in node.succ:
            if s is cfg.exit and lab in ("T", "F"):
                out |= test_facts(node.ast, lab == "T")
    return out
