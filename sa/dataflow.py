"""Def-use helpers on top of the CFG's reaching definitions."""
import ast
from .cfg import cfg_of
from .facts import cfg_node_of
from .model import assigned_names

_rd_cache = {}


def reaching(fn):
    key = id(fn.node)
    hit = _rd_cache.get(key)
    if hit is None or hit[0] is not fn.node:
        hit = (fn.node, cfg_of(fn).reaching_defs())
        _rd_cache[key] = hit
    return hit[1]


class Def:
    """One definition of a local name."""
    def __init__(self, kind, node, value=None, target=None):
        self.kind = kind      # param assign aug for with import def walrus handler delete unknown
        self.node = node      # CFG node (None for params)
        self.value = value    # ast expression assigned (assign/walrus/aug), iterable (for)
        self.target = target  # the target ast (for tuple unpacking)


def defs_reaching(fn, name, at):
    """Definitions of ``name`` that may reach AST node ``at`` in ``fn``."""
    cfg = cfg_of(fn)
    n = cfg_node_of(fn, at)
    if n is None:
        return [Def("unknown", None)]
    rd = reaching(fn)[n.id]
    ids = rd.get(name)
    out = []
    if ids is None:
        ids = frozenset([-1])
    for i in sorted(ids):
        if i == -1:
            if name in fn.all_params:
                out.append(Def("param", None))
            else:
                out.append(Def("free", None))
            continue
        d = cfg.nodes[i]
        a = d.ast
        if d.kind == "for":
            out.append(Def("for", d, a.iter, a.target))
        elif d.kind == "with":
            for item in a.items:
                if item.optional_vars is not None and name in assigned_names(item.optional_vars):
                    out.append(Def("with", d, item.context_expr, item.optional_vars))
        elif d.kind == "handler":
            out.append(Def("handler", d))
        elif isinstance(a, ast.Assign):
            hit = False
            for t in a.targets:
                if name in assigned_names(t):
                    out.append(Def("assign", d, a.value, t))
                    hit = True
            if not hit:
                out.append(Def("walrus", d, _walrus_value(a.value, name)))
        elif isinstance(a, ast.AugAssign):
            out.append(Def("aug", d, a.value, a.target))
        elif isinstance(a, ast.AnnAssign):
            out.append(Def("assign", d, a.value, a.target))
        elif isinstance(a, (ast.FunctionDef, ast.ClassDef)):
            out.append(Def("def", d))
        elif isinstance(a, (ast.Import, ast.ImportFrom)):
            out.append(Def("import", d))
        elif isinstance(a, ast.Delete):
            out.append(Def("delete", d))
        else:
            w = _walrus_value(a, name) if a is not None else None
            out.append(Def("walrus", d, w) if w is not None else Def("unknown", d))
    return out


def _walrus_value(expr, name):
    if expr is None:
        return None
    for n in ast.walk(expr):
        if isinstance(n, ast.NamedExpr) and n.target.id == name:
            return n.value
    return None


def comprehension_binding(fn, name, at):
    """If ``name`` at node ``at`` is bound by an enclosing comprehension or
    lambda, return ('comp', iter_expr, target) / ('lambda', node); else None."""
    parent = fn.module.parent
    cur = at
    p = parent.get(cur)
    while p is not None and p is not fn.node:
        if isinstance(p, (ast.ListComp, ast.SetComp, ast.GeneratorExp, ast.DictComp)):
            for g in p.generators:
                if name in assigned_names(g.target):
                    return ("comp", g.iter, g.target)
        if isinstance(p, ast.Lambda):
            a = p.args
            if name in [x.arg for x in a.posonlyargs + a.args + a.kwonlyargs] or \
                    (a.vararg and a.vararg.arg == name) or (a.kwarg and a.kwarg.arg == name):
                return ("lambda", p, None)
        cur = p
        p = parent.get(cur)
    return None


def expand(fn, expr, depth=4, seen=None):
    """Value expressions a Name may stand for, following unique/multiple
    reaching assignments transitively (bounded).  Returns a list of ast
    expressions (the name itself when it is a parameter / loop variable)."""
    seen = seen or set()
    if not isinstance(expr, ast.Name) or depth == 0:
        return [expr]
    if comprehension_binding(fn, expr.id, expr):
        return [expr]
    out = []
    for d in defs_reaching(fn, expr.id, expr):
        if d.kind in ("assign", "walrus") and d.value is not None and isinstance(d.target, (ast.Name, type(None))):
            k = (id(d.value))
            if k in seen:
                continue
            seen.add(k)
            if isinstance(d.value, ast.Name):
                out += expand(fn, d.value, depth - 1, seen)
            else:
                out.append(d.value)
        else:
            out.append(expr)
    return out or [expr]


def depends_on(fn, expr, at, name, depth=6):
    """Does the value of ``expr`` at ``at`` depend on local/parameter ``name`` -- through data flow (reaching
    definitions, transitively) or through the branch conditions under which a contributing definition is made?"""
    from .facts import facts_at
    seen = set()

    def facts_mention(node):
        for k, t in facts_at(fn, node):
            try:
                e = ast.parse(t, mode="eval").body if not t.startswith("iter:") else None
            except SyntaxError:
                e = None
            if e is not None and any(isinstance(n, ast.Name) and n.id == name for n in ast.walk(e)):
                return True
        return False

    def walk(e, where, d):
        if d == 0:
            return False
        for n in ast.walk(e):
            if isinstance(n, ast.Name) and isinstance(n.ctx, ast.Load):
                if n.id == name:
                    return True
                if comprehension_binding(fn, n.id, n):
                    continue
                for df in defs_reaching(fn, n.id, where):
                    if df.node is None or df.value is None:
                        continue
                    key = (n.id, id(df.node))
                    if key in seen:
                        continue
                    seen.add(key)
                    if facts_mention(df.node.ast):
                        return True
                    if walk(df.value, df.node.ast, d - 1):
                        return True
        return False
    return facts_mention(at) or walk(expr, at, depth)
