"""Structural pattern matching on expressions/statements, robust to alpha-renaming.

A pattern is Python source.  Names of the form _A, _X1, _FRAME (underscore +
capital letters/digits) are metavariables: each binds an arbitrary expression and
must bind the same expression (by structure) at every occurrence.  The name __
(two underscores) matches anything without binding.  Everything else must match
structurally (contexts and positions ignored; keyword arguments compared by name).
"""
import ast
import re

_META = re.compile(r"^_[A-Z][A-Z0-9_]*$")
_cache = {}


def _parse(pattern, mode):
    key = (pattern, mode)
    if key not in _cache:
        tree = ast.parse(pattern, mode="eval" if mode == "expr" else "exec")
        _cache[key] = tree.body if mode == "expr" else tree.body[0]
    return _cache[key]


def dump(node):
    return ast.dump(node, annotate_fields=True, include_attributes=False).replace("ctx=Load()", "").replace("ctx=Store()", "").replace("ctx=Del()", "")


def _m(p, n, env):
    if isinstance(p, ast.Name):
        if p.id == "__":
            return True
        if _META.match(p.id):
            if p.id in env:
                return dump(env[p.id]) == dump(n)
            env[p.id] = n
            return True
    if type(p) is not type(n):
        return False
    if isinstance(p, ast.Name):
        return p.id == n.id
    if isinstance(p, ast.Constant):
        return p.value == n.value and type(p.value) is type(n.value)
    if isinstance(p, ast.Attribute):
        return p.attr == n.attr and _m(p.value, n.value, env)
    if isinstance(p, ast.Call):
        if not _m(p.func, n.func, env) or len(p.args) != len(n.args) or len(p.keywords) != len(n.keywords):
            return False
        if not all(_m(a, b, env) for a, b in zip(p.args, n.args)):
            return False
        nk = {k.arg: k.value for k in n.keywords}
        for k in p.keywords:
            if k.arg not in nk or not _m(k.value, nk[k.arg], env):
                return False
        return True
    for field, pv in ast.iter_fields(p):
        if field in ("ctx", "lineno", "col_offset", "end_lineno", "end_col_offset", "type_comment"):
            continue
        nv = getattr(n, field, None)
        if isinstance(pv, list):
            if not isinstance(nv, list) or len(pv) != len(nv):
                return False
            for a, b in zip(pv, nv):
                if isinstance(a, ast.AST):
                    if not _m(a, b, env):
                        return False
                elif a != b:
                    return False
        elif isinstance(pv, ast.AST):
            if not isinstance(nv, ast.AST) or not _m(pv, nv, env):
                return False
        else:
            if pv != nv:
                return False
    return True


def pmatch(pattern, node, env=None, mode="expr"):
    """Match ``node`` against ``pattern``; returns the binding dict or None.
    ``env`` may pre-bind metavariables (to ast nodes or source strings)."""
    if node is None:
        return None
    e = {}
    for k, v in (env or {}).items():
        e[k] = ast.parse(v, mode="eval").body if isinstance(v, str) else v
    try:
        p = _parse(pattern, mode)
    except SyntaxError:
        raise
    if isinstance(p, ast.Expr) and not isinstance(node, ast.Expr):
        p = p.value
    return e if _m(p, node, e) else None


def pstmt(pattern, node, env=None):
    return pmatch(pattern, node, env, mode="stmt")


def text(node):
    return " ".join(ast.unparse(node).split())


def find(pattern, root, env=None, mode="expr"):
    """All (node, bindings) inside ``root`` matching the pattern."""
    out = []
    for n in ast.walk(root):
        if mode == "expr" and not isinstance(n, ast.expr):
            continue
        if mode == "stmt" and not isinstance(n, ast.stmt):
            continue
        b = pmatch(pattern, n, dict(env or {}), mode)
        if b is not None:
            out.append((n, b))
    return out


def alpha(fnode):
    """Copy of a function definition whose locals (parameters included) are renamed to canonical
    names v0, v1, ... in order of first occurrence, so two functions equal up to renaming compare equal."""
    import copy
    node = copy.deepcopy(fnode)
    params = [a.arg for a in node.args.posonlyargs + node.args.args + node.args.kwonlyargs]
    if node.args.vararg:
        params.append(node.args.vararg.arg)
    if node.args.kwarg:
        params.append(node.args.kwarg.arg)
    local = set(params)
    for n in ast.walk(node):
        if isinstance(n, ast.Name) and isinstance(n.ctx, (ast.Store, ast.Del)):
            local.add(n.id)
        elif isinstance(n, ast.NamedExpr):
            local.add(n.target.id)
    _sort_prologue(node)
    mapping = {}

    def canon(name):
        if name in local:
            if name not in mapping:
                mapping[name] = f"v{len(mapping)}"
            return mapping[name]
        return name
    for a in node.args.posonlyargs + node.args.args + node.args.kwonlyargs:
        a.arg = canon(a.arg)
    if node.args.vararg:
        node.args.vararg.arg = canon(node.args.vararg.arg)
    if node.args.kwarg:
        node.args.kwarg.arg = canon(node.args.kwarg.arg)

    class T(ast.NodeTransformer):
        def visit_Name(self, n):
            n.id = canon(n.id)
            return n
    # visit in source order so that numbering is deterministic
    for stmt in node.body:
        T().visit(stmt)
    return node


def _sort_prologue(fnode):
    """Order-independent initialisations at the start of a function (i = 0; n = len(x)) are sorted by the text of
    their right-hand sides, so the canonical numbering does not depend on which of them is written first."""
    body = fnode.body
    k0 = 1 if body and isinstance(body[0], ast.Expr) and isinstance(body[0].value, ast.Constant) else 0
    k = k0
    group = []
    while k < len(body):
        st = body[k]
        if not (isinstance(st, ast.Assign) and len(st.targets) == 1 and isinstance(st.targets[0], ast.Name)):
            break
        pure = all(isinstance(n, (ast.Name, ast.Constant, ast.Attribute, ast.Load, ast.List, ast.Tuple, ast.BinOp, ast.operator, ast.UnaryOp, ast.unaryop))
                   or (isinstance(n, ast.Call) and isinstance(n.func, ast.Name) and n.func.id in ("len",))
                   for n in ast.walk(st.value))
        if not pure:
            break
        group.append(st)
        k += 1
    if len(group) < 2:
        return
    targets = [g.targets[0].id for g in group]
    used = {n.id for g in group for n in ast.walk(g.value) if isinstance(n, ast.Name)}
    if len(set(targets)) != len(targets) or used & set(targets):
        return
    group.sort(key=lambda g: ast.unparse(g.value))
    body[k0:k] = group
