"""Semantics-preserving normalisation of the parsed package, applied before any rule runs.

The structural rules were written against the shapes the code has today.  Two kinds
of behaviour-preserving maintenance edits change shapes without changing behaviour,
and are undone here so that they cannot cause a false report:

 * **extraction of a helper**: a call to a function that did not exist when the rules
   were confirmed (not listed in sa/known_functions.txt) is inlined at statement level
   -- `x = h(a)`, `x, y = h(a)`, `return h(a)`, `h(a)`, `yield from h(a)` -- when the
   helper is simple enough (no nested defs, no *args/**kwargs use, returns in tail
   position unless the call site is itself a `return`).  Parameters bound to simple
   expressions are substituted, parameters bound to lambdas are beta-reduced at their
   call sites, other locals of the helper are renamed.  Known functions are never
   inlined (rules refer to them by name).
 * **loops over a literal table**: `for a, b in ((x1, y1), (x2, y2)): body` without
   break/continue/else is unrolled (at most 8 entries).

Everything else is left as it is; rules cope with alternative expression forms
themselves (sa/forms.py).  If a helper cannot be inlined the tree is left unchanged
and the rules decide on the un-inlined code (possibly an ANALYSIS-ERROR, never a
silent pass).
"""
import ast
import copy
import os

HERE = os.path.dirname(os.path.abspath(__file__))
_known = None


def known_functions():
    global _known
    if _known is None:
        with open(os.path.join(HERE, "known_functions.txt")) as f:
            _known = {l.strip() for l in f if l.strip()}
    return _known


class _Subst(ast.NodeTransformer):
    def __init__(self, mapping, lambdas):
        self.mapping = mapping      # name -> ast expr
        self.lambdas = lambdas      # name -> ast.Lambda

    def visit_Call(self, node):
        node = self.generic_visit(node)
        if isinstance(node.func, ast.Lambda) and not node.keywords:
            lam = node.func
            names = [a.arg for a in lam.args.posonlyargs + lam.args.args]
            if len(names) == len(node.args) and not lam.args.vararg and not lam.args.kwarg \
                    and not any(isinstance(a, ast.Starred) for a in node.args):
                body = copy.deepcopy(lam.body)
                m = {n: a for n, a in zip(names, node.args)}
                return _Subst(m, {}).visit(body)
        return node

    def visit_Name(self, node):
        if isinstance(node.ctx, ast.Load):
            if node.id in self.lambdas:
                return copy.deepcopy(self.lambdas[node.id])
            if node.id in self.mapping:
                return copy.deepcopy(self.mapping[node.id])
        elif node.id in self.mapping and isinstance(self.mapping[node.id], ast.Name):
            return ast.copy_location(ast.Name(id=self.mapping[node.id].id, ctx=node.ctx), node)
        return node

    def visit_Lambda(self, node):
        shadow = {a.arg for a in node.args.posonlyargs + node.args.args + node.args.kwonlyargs}
        inner = _Subst({k: v for k, v in self.mapping.items() if k not in shadow},
                       {k: v for k, v in self.lambdas.items() if k not in shadow})
        node.body = inner.visit(node.body)
        return node


def _simple(e):
    if isinstance(e, (ast.Name, ast.Constant)):
        return True
    if isinstance(e, ast.Attribute):
        return _simple(e.value)
    return False


def _contains_return(stmts):
    for s in stmts:
        for n in ast.walk(s):
            if isinstance(n, ast.Return):
                return True
    return False


def _always_returns(stmts):
    if not stmts:
        return False
    last = stmts[-1]
    if isinstance(last, (ast.Return, ast.Raise)):
        return True
    if isinstance(last, ast.If):
        return _always_returns(last.body) and _always_returns(last.orelse)
    return False


def _tail(stmts, k):
    """Rewrite a statement list whose returns are in tail position; k(value_expr) gives the
    statements replacing `return value`.  Returns None when not in tail form."""
    out = []
    for i, s in enumerate(stmts):
        rest = stmts[i + 1:]
        if isinstance(s, ast.Return):
            out += k(s.value if s.value is not None else ast.Constant(None))
            return out
        if isinstance(s, ast.If) and (_contains_return(s.body) or _contains_return(s.orelse)):
            if _always_returns(s.body) and not _contains_return(s.orelse):
                b = _tail(s.body, k)
                o = _tail(list(s.orelse) + rest, k)
            elif _always_returns(s.orelse) and s.orelse and not _contains_return(s.body):
                b = _tail(list(s.body) + rest, k)
                o = _tail(s.orelse, k)
            elif _always_returns(s.body) and _always_returns(s.orelse):
                b, o = _tail(s.body, k), _tail(s.orelse, k)
            else:
                return None
            if b is None or o is None:
                return None
            n = ast.If(test=s.test, body=b or [ast.Pass()], orelse=o)
            out.append(ast.copy_location(n, s))
            return out
        if _contains_return([s]):
            return None           # return inside a loop / try / with
        out.append(s)
    out += k(ast.Constant(None))      # falls off the end: returns None
    return out


class _Inliner:
    def __init__(self, modules, known):
        self.modules = modules          # name -> Module (with .tree, .imports, .name)
        self.known = known
        self.count = 0
        self.log = []

    # ---- lookup of an unknown helper
    def helper_for(self, mod, cls_node, call):
        f = call.func
        cand = None
        recv = None
        if isinstance(f, ast.Name):
            cand = self._module_func(mod, f.id)
            q = f"{mod.name}.{f.id}"
        elif isinstance(f, ast.Attribute) and isinstance(f.value, ast.Name):
            base = f.value.id
            if base in ("self", "cls") and cls_node is not None:
                cand = self._method(mod, cls_node, f.attr)
                q = f"{mod.name}.{cls_node.name}.{f.attr}"
                recv = f.value
            elif base in mod.imports and mod.imports[base] in self.modules:
                m2 = self.modules[mod.imports[base]]
                cand = self._module_func(m2, f.attr)
                q = f"{m2.name}.{f.attr}"
            elif base in mod.imports and self._canon_mod(mod.imports[base]) in self.modules:
                m2 = self.modules[self._canon_mod(mod.imports[base])]
                cand = self._module_func(m2, f.attr)
                q = f"{m2.name}.{f.attr}"
            else:
                for c in [n for n in mod.tree.body if isinstance(n, ast.ClassDef) and n.name == base]:
                    cand = self._method(mod, c, f.attr)
                    q = f"{mod.name}.{c.name}.{f.attr}"
                    recv = None
        if cand is None:
            return None
        if q in self.known:
            return None
        return cand, recv, q

    def _canon_mod(self, dotted):
        # from dataiter import util -> dataiter.util
        return dotted

    @staticmethod
    def _module_func(mod, name):
        for n in mod.tree.body:
            if isinstance(n, ast.FunctionDef) and n.name == name:
                return n
        return None

    @staticmethod
    def _method(mod, cls_node, name):
        for n in cls_node.body:
            if isinstance(n, ast.FunctionDef) and n.name == name:
                return n
        return None

    # ---- one call site
    def expand(self, mod, cls_node, stmt, fn_locals):
        """Return replacement statements for ``stmt`` or None."""
        call, mode, target = None, None, None
        if isinstance(stmt, ast.Assign) and len(stmt.targets) == 1 and isinstance(stmt.value, ast.Call):
            call, mode, target = stmt.value, "assign", stmt.targets[0]
        elif isinstance(stmt, ast.Return) and isinstance(stmt.value, ast.Call):
            call, mode = stmt.value, "return"
        elif isinstance(stmt, ast.Expr) and isinstance(stmt.value, ast.Call):
            call, mode = stmt.value, "expr"
        elif isinstance(stmt, ast.Expr) and isinstance(stmt.value, ast.YieldFrom) and isinstance(stmt.value.value, ast.Call):
            call, mode = stmt.value.value, "yieldfrom"
        if call is None and isinstance(stmt, ast.For) and isinstance(stmt.iter, ast.Call) and not stmt.orelse:
            return self.expand_for(mod, cls_node, stmt, fn_locals)
        if call is None:
            return None
        hit = self.helper_for(mod, cls_node, call)
        if hit is None:
            return None
        h, recv, q = hit
        decos = [ast.unparse(d) for d in h.decorator_list]
        is_static = any(d.endswith("staticmethod") for d in decos)
        is_class = any(d.endswith("classmethod") for d in decos)
        if any(not (d.endswith("staticmethod") or d.endswith("classmethod")) for d in decos):
            return None
        if any(isinstance(n, (ast.FunctionDef, ast.ClassDef, ast.Global, ast.Nonlocal, ast.AsyncFunctionDef)) for s in h.body for n in ast.walk(s)):
            return None
        is_gen = any(isinstance(n, (ast.Yield, ast.YieldFrom)) for s in h.body for n in ast.walk(s))
        if is_gen != (mode == "yieldfrom"):
            return None
        # `a, b = self._helper()` where the helper ends in `return a, b`: the helper's locals may keep the names of the
        # targets they are returned into, provided the caller does not use those names before this statement
        keep = set()
        if mode == "assign":
            tnames = [t.id for t in (target.elts if isinstance(target, ast.Tuple) else [target]) if isinstance(t, ast.Name)]
            fn_ = getattr(self, "cur_fn", None)
            if fn_ is not None and tnames:
                params_ = {a.arg for a in fn_.args.posonlyargs + fn_.args.args + fn_.args.kwonlyargs}
                line_ = getattr(stmt, "lineno", 0)
                for t_ in tnames:
                    earlier = any(isinstance(n, ast.Name) and n.id == t_ and getattr(n, "lineno", 0) < line_ for n in ast.walk(fn_))
                    in_args = any(isinstance(n, ast.Name) and n.id == t_ for n in ast.walk(call))
                    if t_ not in params_ and not earlier and not in_args:
                        keep.add(t_)
        inst = self._instantiate(h, call, recv, is_static, fn_locals, keep=frozenset(keep))
        if inst is None:
            return None
        pre, body = inst
        if mode == "return":
            new = body
        elif mode == "yieldfrom":
            new = body
        else:
            if mode == "assign":
                def k(value, target=target):
                    return [ast.Assign(targets=[copy.deepcopy(target)], value=value)]
            else:
                def k(value):
                    return [] if isinstance(value, ast.Constant) else [ast.Expr(value=value)]
            new = _tail(body, k)
            if new is None:
                return None
            # drop identity assignments produced by returning locals into targets of the same names
            def _ident(s_):
                if not (isinstance(s_, ast.Assign) and len(s_.targets) == 1):
                    return False
                a_, b_ = s_.targets[0], s_.value
                return ast.dump(a_).replace("Store()", "Load()") == ast.dump(b_)
            new = [s_ for s_ in new if not _ident(s_)]
        out = pre + new
        for s in out:
            for n in ast.walk(s):
                if not hasattr(n, "lineno") or True:
                    n.lineno = getattr(stmt, "lineno", 1)
                    n.col_offset = getattr(stmt, "col_offset", 0)
                    n.end_lineno = getattr(stmt, "end_lineno", n.lineno)
                    n.end_col_offset = getattr(stmt, "end_col_offset", 0)
        self.log.append(f"inlined {q} at {mod.path}:{getattr(stmt, 'lineno', 0)}")
        return out or [ast.copy_location(ast.Pass(), stmt)]

    def _instantiate(self, h, call, recv, is_static, fn_locals, keep=frozenset()):
        """(pre statements binding non-trivial actuals, helper body with parameters substituted) or None."""
        a = h.args
        if a.vararg or a.kwarg or a.posonlyargs:
            return None
        if any(isinstance(x, ast.Starred) for x in call.args) or any(k.arg is None for k in call.keywords):
            return None
        params = [x.arg for x in a.args]
        actual = {}
        pos = list(call.args)
        in_class_method = recv is not None or (isinstance(call.func, ast.Attribute) and not is_static and isinstance(call.func.value, ast.Name)
                                              and call.func.value.id[:1].isupper())
        if isinstance(call.func, ast.Attribute) and isinstance(call.func.value, ast.Name) and call.func.value.id in ("self", "cls"):
            if not is_static:
                pos = [call.func.value] + pos
        if len(pos) > len(params):
            return None
        for p, v in zip(params, pos):
            actual[p] = v
        for k in call.keywords:
            if k.arg in actual or (k.arg not in params and k.arg not in [x.arg for x in a.kwonlyargs]):
                return None
            actual[k.arg] = k.value
        defaults = dict(zip(params[len(params) - len(a.defaults):], a.defaults))
        for x, d in zip(a.kwonlyargs, a.kw_defaults):
            if d is not None:
                defaults[x.arg] = d
        allp = params + [x.arg for x in a.kwonlyargs]
        for p in allp:
            if p not in actual:
                if p not in defaults:
                    return None
                actual[p] = defaults[p]
        body = [copy.deepcopy(s) for s in h.body
                if not (isinstance(s, ast.Expr) and isinstance(s.value, ast.Constant) and isinstance(s.value.value, str))]
        assigned = set()
        for s in body:
            for n in ast.walk(s):
                if isinstance(n, ast.Name) and isinstance(n.ctx, (ast.Store, ast.Del)):
                    assigned.add(n.id)
                elif isinstance(n, ast.NamedExpr):
                    assigned.add(n.target.id)
        mapping, lambdas, pre = {}, {}, []
        self.count += 1
        self.fn_count = getattr(self, "fn_count", 0) + 1
        suffix = f"_{h.name.strip('_')}{self.fn_count}"
        for p in allp:
            v = actual[p]
            if isinstance(v, ast.Name) and p not in assigned:
                lam = self._local_lambda(v.id)
                if lam is not None:
                    v = lam
            if isinstance(v, ast.Lambda) and p not in assigned:
                lambdas[p] = v
            elif _simple(v) and p not in assigned:
                mapping[p] = v
            else:
                newname = p if (isinstance(v, ast.Name) and v.id == p) else (p + suffix if p in fn_locals else p)
                if p in fn_locals and not (isinstance(v, ast.Name) and v.id == p):
                    newname = p + suffix
                mapping[p] = ast.Name(id=newname, ctx=ast.Load())
                if not (isinstance(v, ast.Name) and v.id == newname):
                    pre.append(ast.Assign(targets=[ast.Name(id=newname, ctx=ast.Store())], value=copy.deepcopy(v)))
        for loc in sorted(assigned - set(allp)):
            if loc in fn_locals and loc not in keep:
                mapping[loc] = ast.Name(id=loc + suffix, ctx=ast.Load())
        sub = _Subst(mapping, lambdas)
        body = [sub.visit(s) for s in body]
        return pre, body

    def expand_for(self, mod, cls_node, stmt, fn_locals):
        """for T in gen(args): BODY   with gen an unknown generator helper
        ->  gen's body with every `yield E` replaced by `T = E; BODY`."""
        hit = self.helper_for(mod, cls_node, stmt.iter)
        if hit is None:
            return None
        h, recv, q = hit
        decos = [ast.unparse(d) for d in h.decorator_list]
        is_static = any(d.endswith("staticmethod") for d in decos)
        if any(not (d.endswith("staticmethod") or d.endswith("classmethod")) for d in decos):
            return None
        if any(isinstance(n, (ast.FunctionDef, ast.ClassDef, ast.Global, ast.Nonlocal, ast.AsyncFunctionDef, ast.Lambda, ast.YieldFrom))
               for s_ in h.body for n in ast.walk(s_)):
            return None
        ys = [n for s_ in h.body for n in ast.walk(s_) if isinstance(n, ast.Yield)]
        ystm = [n for s_ in h.body for n in ast.walk(s_) if isinstance(n, ast.Expr) and isinstance(n.value, ast.Yield)]
        if not ys or len(ys) != len(ystm) or any(y.value is None for y in ys):
            return None
        if any(isinstance(n, ast.Return) and n.value is not None for s_ in h.body for n in ast.walk(s_)):
            return None
        if any(isinstance(n, ast.Return) for s_ in h.body for n in ast.walk(s_)):
            return None
        # the consumer body must not leave or restart the loop on its own
        def escapes(stmts):
            for x in stmts:
                if isinstance(x, (ast.Break, ast.Continue)):
                    return True
                if isinstance(x, (ast.For, ast.While, ast.FunctionDef, ast.ClassDef)):
                    continue
                for field in ("body", "orelse", "finalbody"):
                    sub = getattr(x, field, None)
                    if isinstance(sub, list) and sub and isinstance(sub[0], ast.stmt) and escapes(sub):
                        return True
                if isinstance(x, ast.Try) and any(escapes(hh.body) for hh in x.handlers):
                    return True
            return False
        if escapes(stmt.body):
            return None
        # The loop variables may share their names with the generator's own locals when the consumer uses them
        # nowhere but in this loop and never assigns them: then `i, j = i, j` is the identity and is dropped.
        tnames = {n.id for n in ast.walk(stmt.target) if isinstance(n, ast.Name)}
        keep = set()
        fn = getattr(self, "cur_fn", None)
        if fn is not None:
            inside = {id(n) for n in ast.walk(stmt)}
            for t in tnames:
                occ = [n for n in ast.walk(fn) if isinstance(n, ast.Name) and n.id == t]
                stored_in_body = any(isinstance(n, ast.Name) and n.id == t and isinstance(n.ctx, (ast.Store, ast.Del))
                                     for b in stmt.body for n in ast.walk(b))
                is_param = t in {a.arg for a in fn.args.posonlyargs + fn.args.args + fn.args.kwonlyargs}
                if all(id(n) in inside for n in occ) and not stored_in_body and not is_param:
                    keep.add(t)
        inst = self._instantiate(h, stmt.iter, recv, is_static, fn_locals, keep=frozenset(keep))
        if inst is None:
            return None
        pre, body = inst

        def same(a, b):
            return ast.dump(ast.parse(ast.unparse(a), mode="eval").body).replace("Store()", "Load()") == \
                ast.dump(ast.parse(ast.unparse(b), mode="eval").body).replace("Store()", "Load()")

        def splice(stmts):
            out = []
            for x in stmts:
                if isinstance(x, ast.Expr) and isinstance(x.value, ast.Yield):
                    if not same(stmt.target, x.value.value):
                        out.append(ast.Assign(targets=[copy.deepcopy(stmt.target)], value=x.value.value))
                    out.extend(copy.deepcopy(b) for b in stmt.body)
                    continue
                for field in ("body", "orelse", "finalbody"):
                    sub = getattr(x, field, None)
                    if isinstance(sub, list) and sub and isinstance(sub[0], ast.stmt):
                        setattr(x, field, splice(sub))
                if isinstance(x, ast.Try):
                    for hh in x.handlers:
                        hh.body = splice(hh.body)
                out.append(x)
            return out
        out = pre + splice(body)
        for s_ in out:
            for n in ast.walk(s_):
                if isinstance(n, ast.Name) and isinstance(n.ctx, ast.Load) and isinstance(getattr(n, "ctx", None), ast.Load):
                    pass
                if not hasattr(n, "lineno"):
                    n.lineno = getattr(stmt, "lineno", 1)
                    n.col_offset = getattr(stmt, "col_offset", 0)
                    n.end_lineno = getattr(stmt, "end_lineno", n.lineno)
                    n.end_col_offset = getattr(stmt, "end_col_offset", 0)
        for s_ in out:
            ast.fix_missing_locations(s_)
        self.log.append(f"inlined generator {q} into the loop at {mod.path}:{getattr(stmt, 'lineno', 0)}")
        return out

    def _local_lambda(self, name):
        """The lambda a local name is bound to, when it is assigned exactly once in the current function."""
        fn = getattr(self, "cur_fn", None)
        if fn is None:
            return None
        defs = [n for n in ast.walk(fn) if isinstance(n, ast.Assign) and any(isinstance(t, ast.Name) and t.id == name for t in n.targets)]
        others = [n for n in ast.walk(fn) if isinstance(n, ast.Name) and n.id == name and isinstance(n.ctx, ast.Store)]
        if len(defs) == 1 and len(others) == 1 and isinstance(defs[0].value, ast.Lambda):
            return defs[0].value
        return None

    def hoist(self, mod, cls_node, stmt):
        """`yield a, h(x)` / `return a, h(x)` / `v = f(a, h(x))` with h an unknown helper:
        returns (temp_assign, rewritten_stmt) or None."""
        holder = None
        if isinstance(stmt, ast.Expr) and isinstance(stmt.value, ast.Yield):
            holder = stmt.value
        elif isinstance(stmt, ast.Expr) and isinstance(stmt.value, ast.Call) and self.helper_for(mod, cls_node, stmt.value) is None:
            holder = stmt          # parts.append(helper(x)) : the helper call is an argument of an ordinary call
        elif isinstance(stmt, (ast.Return, ast.Assign)):
            holder = stmt
        if holder is None or holder.value is None:
            return None
        val = holder.value
        seq = None
        if isinstance(val, ast.Tuple):
            seq = val.elts
        elif isinstance(val, ast.Call) and not (self.helper_for(mod, cls_node, val)):
            seq = val.args
        if seq is None:
            return None
        for i, e in enumerate(seq):
            if isinstance(e, ast.Call) and self.helper_for(mod, cls_node, e) is not None:
                if not all(_simple(x) for x in seq[:i]):
                    return None
                self.count += 1
                tmp = f"_h{self.count}"
                assign = ast.copy_location(ast.Assign(targets=[ast.Name(id=tmp, ctx=ast.Store())], value=e), stmt)
                seq[i] = ast.copy_location(ast.Name(id=tmp, ctx=ast.Load()), e)
                return assign, stmt, tmp
        return None

    # ---- walk a function body
    def process_function(self, mod, cls_node, fn):
        fn_locals = {a.arg for a in fn.args.posonlyargs + fn.args.args + fn.args.kwonlyargs}
        if fn.args.vararg:
            fn_locals.add(fn.args.vararg.arg)
        if fn.args.kwarg:
            fn_locals.add(fn.args.kwarg.arg)
        for n in ast.walk(fn):
            # stores, and loads as well: a helper's local must not capture a free variable of the caller either
            # (a closure reading the enclosing function's parameter, a module global)
            if isinstance(n, ast.Name):
                fn_locals.add(n.id)
        self.fn_count = 0
        self.cur_fn = fn
        any_change = False
        for _ in range(3):
            changed = self._block(mod, cls_node, fn, fn.body, fn_locals)
            any_change = any_change or changed
            if not changed:
                break
        # local lambdas called with simple arguments are substituted at their call sites in every function (a helper that
        # exists only to avoid writing an expression twice is not a shape any rule should depend on)
        before = ast.dump(fn)
        self._reduce_local_lambdas(fn)
        if any_change or ast.dump(fn) != before:
            self._drop_dead_lambdas(fn)

    @staticmethod
    def _reduce_local_lambdas(fn):
        """f = lambda x: E  ...  f(a)   ->   E[x:=a]   for a lambda bound once at the top level of the function whose
        every other use is a call with simple positional arguments (a lambda reads its free variables when it is
        called, so the substituted call site evaluates exactly what the call did)."""
        stores = {}
        for n in ast.walk(fn):
            if isinstance(n, ast.Name) and isinstance(n.ctx, (ast.Store, ast.Del)):
                stores[n.id] = stores.get(n.id, 0) + 1
        for k, s in enumerate(list(fn.body)):
            if not (isinstance(s, ast.Assign) and len(s.targets) == 1 and isinstance(s.targets[0], ast.Name)
                    and isinstance(s.value, ast.Lambda) and stores.get(s.targets[0].id) == 1):
                continue
            name, lam = s.targets[0].id, s.value
            a = lam.args
            if a.vararg or a.kwarg or a.kwonlyargs or a.defaults:
                continue
            nparams = len(a.posonlyargs + a.args)
            loads = [n for t in fn.body if t is not s for n in ast.walk(t) if isinstance(n, ast.Name) and n.id == name and isinstance(n.ctx, ast.Load)]
            calls = [n for t in fn.body if t is not s for n in ast.walk(t) if isinstance(n, ast.Call) and isinstance(n.func, ast.Name) and n.func.id == name]
            if not loads or len(loads) != len(calls):
                continue
            pnames = [p.arg for p in a.posonlyargs + a.args]
            once = all(sum(1 for m in ast.walk(lam.body) if isinstance(m, ast.Name) and m.id == p) <= 1 for p in pnames)

            def _arg_ok(x):
                # an element read x[i] is as good as a name when the parameter is used once (no duplicated evaluation)
                return _simple(x) or (once and isinstance(x, ast.Subscript) and _simple(x.value) and _simple(x.slice))
            if not all(len(c.args) == nparams and not c.keywords and all(_arg_ok(x) for x in c.args) for c in calls):
                continue
            if any(isinstance(n, ast.Name) and n.id == name for n in ast.walk(lam.body)):
                continue
            sub = _Subst({}, {name: lam})
            for j, t in enumerate(fn.body):
                if t is not s:
                    fn.body[j] = sub.visit(t)

    @staticmethod
    def _drop_dead_lambdas(fn):
        loads = {n.id for n in ast.walk(fn) if isinstance(n, ast.Name) and isinstance(n.ctx, ast.Load)}

        def prune(stmts):
            stmts[:] = [s for s in stmts if not (isinstance(s, ast.Assign) and len(s.targets) == 1
                                                 and isinstance(s.targets[0], ast.Name) and isinstance(s.value, ast.Lambda)
                                                 and s.targets[0].id not in loads)] or [ast.Pass()]
            for s in stmts:
                for field in ("body", "orelse", "finalbody"):
                    sub = getattr(s, field, None)
                    if isinstance(sub, list) and sub and isinstance(sub[0], ast.stmt) and not isinstance(s, (ast.FunctionDef, ast.ClassDef)):
                        prune(sub)
        prune(fn.body)

    def _block(self, mod, cls_node, fn, stmts, fn_locals):
        changed = False
        i = 0
        while i < len(stmts):
            s = stmts[i]
            rep = self.expand(mod, cls_node, s, fn_locals)
            if rep is None:
                h = self.hoist(mod, cls_node, s)
                if h is not None:
                    assign, s2, tmp = h
                    rep2 = self.expand(mod, cls_node, assign, fn_locals)
                    if rep2 is not None:
                        last = rep2[-1] if rep2 else None
                        if isinstance(last, ast.Assign) and isinstance(last.targets[0], ast.Name) and last.targets[0].id == tmp \
                                and isinstance(last.value, ast.Name):
                            s2 = _Subst({tmp: last.value}, {}).visit(s2)
                            rep2 = rep2[:-1]
                        rep = rep2 + [s2]
                    else:
                        # undo the hoisting
                        _Subst({tmp: assign.value}, {}).visit(s2)
            if rep is not None:
                stmts[i:i + 1] = rep
                for r in rep:
                    for n in ast.walk(r):
                        if isinstance(n, ast.Name) and isinstance(n.ctx, ast.Store):
                            fn_locals.add(n.id)
                changed = True
                i += len(rep)
                continue
            for field in ("body", "orelse", "finalbody"):
                sub = getattr(s, field, None)
                if isinstance(sub, list) and sub and isinstance(sub[0], ast.stmt) and not isinstance(s, (ast.FunctionDef, ast.ClassDef)):
                    if self._block(mod, cls_node, fn, sub, fn_locals):
                        changed = True
            if isinstance(s, ast.Try):
                for h in s.handlers:
                    if self._block(mod, cls_node, fn, h.body, fn_locals):
                        changed = True
            i += 1
        return changed


def _unroll_literal_loops(tree):
    """for T in (lit, lit, ...): body   ->   body[T:=lit] ..."""
    count = 0
    literal_tables = {}
    # module-level constant tables: NAME = ("a", "b", ...) bound once at module level and never stored to elsewhere
    mod_stores = {}
    for n in ast.walk(tree):
        if isinstance(n, ast.Name) and isinstance(n.ctx, (ast.Store, ast.Del)):
            mod_stores[n.id] = mod_stores.get(n.id, 0) + 1
        elif isinstance(n, (ast.Global, ast.Nonlocal)):
            for g in n.names:
                mod_stores[g] = mod_stores.get(g, 0) + 2
    module_tables = {}
    for n in getattr(tree, "body", []):
        if isinstance(n, ast.Assign) and len(n.targets) == 1 and isinstance(n.targets[0], ast.Name) \
                and isinstance(n.value, (ast.Tuple, ast.List)) and mod_stores.get(n.targets[0].id) == 1 \
                and all(isinstance(e, ast.Constant) for e in n.value.elts):
            module_tables[n.targets[0].id] = n.value

    class U(ast.NodeTransformer):
        def visit_FunctionDef(self, node):
            nonlocal literal_tables
            saved = literal_tables
            tables = {}
            stores = {}
            for n in ast.walk(node):
                if isinstance(n, ast.Name) and isinstance(n.ctx, ast.Store):
                    stores[n.id] = stores.get(n.id, 0) + 1
            for n in ast.walk(node):
                if isinstance(n, ast.Assign) and len(n.targets) == 1 and isinstance(n.targets[0], ast.Name) \
                        and isinstance(n.value, (ast.Tuple, ast.List)) and stores.get(n.targets[0].id) == 1:
                    tables[n.targets[0].id] = n.value
            literal_tables = tables
            node = self.generic_visit(node)
            literal_tables = saved
            return node

        def visit_For(self, node):
            nonlocal count
            node = self.generic_visit(node)
            it = node.iter
            if isinstance(it, ast.Name) and it.id in literal_tables:
                it = literal_tables[it.id]
            elif isinstance(it, ast.Name) and it.id in module_tables:
                it = module_tables[it.id]
            limit = 8 if len(node.body) > 3 else 24
            if not isinstance(it, (ast.Tuple, ast.List)) or not it.elts or len(it.elts) > limit or node.orelse:
                return node
            if any(isinstance(n, (ast.Break, ast.Continue)) for s in node.body for n in ast.walk(s)):
                return node
            names = []
            if isinstance(node.target, ast.Name):
                names = [node.target.id]
            elif isinstance(node.target, ast.Tuple) and all(isinstance(e, ast.Name) for e in node.target.elts):
                names = [e.id for e in node.target.elts]
            else:
                return node
            if any(isinstance(n, ast.Name) and n.id in names and isinstance(n.ctx, (ast.Store, ast.Del))
                   for s in node.body for n in ast.walk(s)):
                return node
            out = []
            for e in it.elts:
                if isinstance(node.target, ast.Tuple):
                    if not isinstance(e, (ast.Tuple, ast.List)) or len(e.elts) != len(names):
                        return node
                    vals = e.elts
                else:
                    vals = [e]
                if not all(_simple(v) for v in vals):
                    return node
                m = dict(zip(names, vals))
                for s in node.body:
                    out.append(_Subst(m, {}).visit(copy.deepcopy(s)))
            count += 1
            return out
    U().visit(tree)
    return count


def _attr_builtins(tree):
    """getattr(X, "name") -> X.name and setattr(X, "name", V) -> X.name = V for constant identifier names (the two
    spellings are the same operation); only where the builtins are not rebound in the module."""
    rebound = {n.id for n in ast.walk(tree) if isinstance(n, ast.Name) and isinstance(n.ctx, ast.Store) and n.id in ("getattr", "setattr")} | \
              {a.arg for n in ast.walk(tree) if isinstance(n, ast.arguments) for a in n.posonlyargs + n.args + n.kwonlyargs if a.arg in ("getattr", "setattr")}
    if rebound:
        return 0
    count = 0

    def ident(e):
        import keyword
        return isinstance(e, ast.Constant) and isinstance(e.value, str) and e.value.isidentifier() and not keyword.iskeyword(e.value) \
            and not (e.value.startswith("__") and not e.value.endswith("__"))

    class G(ast.NodeTransformer):
        def visit_Call(self, node):
            nonlocal count
            node = self.generic_visit(node)
            if isinstance(node.func, ast.Name) and node.func.id == "getattr" and len(node.args) == 2 and not node.keywords and ident(node.args[1]):
                count += 1
                return ast.copy_location(ast.Attribute(value=node.args[0], attr=node.args[1].value, ctx=ast.Load()), node)
            return node

        def visit_Expr(self, node):
            nonlocal count
            node = self.generic_visit(node)
            c = node.value
            if isinstance(c, ast.Call) and isinstance(c.func, ast.Name) and c.func.id == "setattr" and len(c.args) == 3 and not c.keywords \
                    and ident(c.args[1]) and isinstance(c.args[0], (ast.Name, ast.Attribute)):
                count += 1
                t = ast.Attribute(value=c.args[0], attr=c.args[1].value, ctx=ast.Store())
                return ast.copy_location(ast.Assign(targets=[ast.copy_location(t, c)], value=c.args[2]), node)
            return node
    G().visit(tree)
    return count


def canonicalise(modules):
    """modules: dict name -> Module (parsed).  Mutates the trees in place; returns a log."""
    known = known_functions()
    inl = _Inliner(modules, known)
    log = []
    for mod in modules.values():
        n = _unroll_literal_loops(mod.tree)
        if n:
            log.append(f"unrolled {n} literal loop(s) in {mod.path}")
        n = _attr_builtins(mod.tree)
        if n:
            log.append(f"rewrote {n} constant getattr/setattr call(s) as attribute syntax in {mod.path}")
    for mod in modules.values():
        for node in mod.tree.body:
            if isinstance(node, ast.FunctionDef):
                inl.process_function(mod, None, node)
                for sub in ast.walk(node):
                    if isinstance(sub, ast.FunctionDef) and sub is not node:
                        inl.process_function(mod, None, sub)
            elif isinstance(node, ast.ClassDef):
                for m in node.body:
                    if isinstance(m, ast.FunctionDef):
                        inl.process_function(mod, node, m)
                        for sub in ast.walk(m):
                            if isinstance(sub, ast.FunctionDef) and sub is not m:
                                inl.process_function(mod, node, sub)
        ast.fix_missing_locations(mod.tree)
    return log + inl.log
