"""E3 -- ownership / alias / effect abstract interpreter.

A flow-sensitive abstract interpretation of one function body at a time over a
small domain of *origins*.  Package callees are handled through computed
summaries (return value and write effects expressed over the callee's own
origins, substituted at the call site); external callees through the operation
table in ``tables.py``.  The result for a function is

    Result.returns   abstract value returned (join over return statements)
    Result.yields    [(node, abstract value)] for generators
    Result.events    write effects (element stores, in-place calls, structural
                     stores, attribute stores, item writes) with the may-alias
                     set of the written object, including effects of callees

Origins:  SELF (the receiver), ARG:<p> (parameter p), CB (result of a user
callback), EXT (module state / foreign object).  An empty alias set means the
object was created inside the analysed call: it is fresh.
"""
import ast
from .model import FunctionInfo, ClassInfo, AnalysisError, first_param, outermost, src
from . import tables

F0 = frozenset()


class AV:
    """Abstract value."""
    __slots__ = ("kind", "alias", "elem", "items", "flags", "ref")

    def __init__(self, kind, alias=F0, elem=None, items=None, flags=F0, ref=None):
        self.kind = kind        # frame col dict list tuple lod scalar func unknown
        self.alias = frozenset(alias)
        self.elem = elem
        self.items = items
        self.flags = frozenset(flags)
        self.ref = ref          # func: FunctionInfo / dotted / ('bound', fn, recv) / ('lambda', node, env)

    def with_(self, **kw):
        d = dict(kind=self.kind, alias=self.alias, elem=self.elem, items=self.items,
                 flags=self.flags, ref=self.ref)
        d.update(kw)
        return AV(**d)

    def key(self):
        return (self.kind, self.alias, self.elem.key() if self.elem else None,
                tuple(i.key() for i in self.items) if self.items else None, self.flags)

    def __repr__(self):
        a = "{" + ",".join(sorted(self.alias)) + "}" if self.alias else "fresh"
        s = f"{self.kind}[{a}]"
        if self.flags:
            s += "!" + ",".join(sorted(self.flags))
        if self.elem is not None:
            s += f"<{self.elem!r}>"
        if self.items is not None:
            s += "(" + ", ".join(repr(i) for i in self.items) + ")"
        return s


SCALAR = AV("scalar")
NONE = AV("scalar", flags={"none"})
UNKNOWN = AV("unknown")


def col(alias=F0, flags=F0):
    return AV("col", alias, flags=flags)


def lst(elem, alias=F0):
    return AV("list", alias, elem=elem)


def join(a, b):
    if a is None:
        return b
    if b is None:
        return a
    if a is b:
        return a
    if a.kind == b.kind:
        items = None
        elem = join(a.elem, b.elem) if (a.elem is not None or b.elem is not None) else None
        if a.kind == "tuple":
            if a.items is not None and b.items is not None and len(a.items) == len(b.items):
                items = tuple(join(x, y) for x, y in zip(a.items, b.items))
            else:
                e = None
                for x in (a.items or ()) + (b.items or ()):
                    e = join(e, x)
                return AV("list", a.alias | b.alias, elem=join(elem, e))
        flags = (a.flags & b.flags) | ((a.flags | b.flags) & {"uncertain", "none", "shallow", "unchecked-view", "via-slice", "may-slice"})
        if a.kind == "scalar":
            flags = a.flags & b.flags
        ref = a.ref if a.ref == b.ref else None
        if a.kind == "func" and ref is None and a.ref is not None and b.ref is not None:
            # a choice between two callables (f = g if c else h): applying it may apply either
            alts = (list(a.ref[1]) if a.ref[0] == "choice" else [a]) + (list(b.ref[1]) if b.ref[0] == "choice" else [b])
            ref = ("choice", tuple(alts))
        return AV(a.kind, a.alias | b.alias, elem, items, flags, ref)
    # scalar joined with something: keep the richer one (None/int defaults) -- but an index that MAY be a slice object
    # (rows = slice(i, j) on one path, an index array on the other) must stay known as such: basic slicing yields a view
    if a.kind == "scalar":
        return b.with_(flags=b.flags | {"may-slice"}) if "slice" in a.flags else b
    if b.kind == "scalar":
        return a.with_(flags=a.flags | {"may-slice"}) if "slice" in b.flags else a
    e = join(content(a), content(b))
    return AV("unknown", a.alias | b.alias, elem=e,
              flags=(a.flags | b.flags) & {"uncertain"})


def content(av):
    """Abstract element obtained by iterating / indexing the value once."""
    if av is None:
        return None
    if av.kind == "tuple" and av.items is not None:
        e = None
        for x in av.items:
            e = join(e, x)
        return e
    if av.kind == "frame":
        return av.elem
    if av.elem is not None:
        return av.elem
    if av.kind == "col":
        return SCALAR
    if av.kind == "unknown":
        return AV("unknown", av.alias, flags=av.flags | {"elemof"})
    return None


def iter_elem(av):
    """Element produced by ``for x in av``."""
    if av is None:
        return UNKNOWN
    if av.kind == "frame":
        return SCALAR                     # iterating a dict gives its keys
    if av.kind == "dict":
        return SCALAR
    if av.kind == "col":
        return SCALAR
    if av.kind == "scalar":
        return SCALAR
    c = content(av)
    return c if c is not None else UNKNOWN


def all_alias(av, depth=0):
    """Every origin reachable in the value (own identity and contents)."""
    if av is None or depth > 6:
        return F0
    out = set(av.alias)
    if av.elem is not None:
        out |= all_alias(av.elem, depth + 1)
    if av.items:
        for i in av.items:
            out |= all_alias(i, depth + 1)
    return frozenset(out)


class Event:
    __slots__ = ("kind", "target", "fn", "node", "detail", "chain", "value", "covered")

    def __init__(self, kind, target, fn, node, detail, chain=(), value=None, covered=False):
        self.covered = covered
        self.kind = kind        # elem-store inplace-call struct-store attr-store item-write list-write group-by
        self.target = target    # AV of the written object (alias set in the analysed function's origins)
        self.fn = fn
        self.node = node
        self.detail = detail
        self.chain = tuple(chain)
        self.value = value

    def __repr__(self):
        return f"<{self.kind} {self.detail} on {self.target!r} in {self.fn.qualname}:{getattr(self.node, 'lineno', '?')}>"


class Result:
    def __init__(self):
        self.returns = None
        self.yields = []
        self.events = []
        self.unclassified = []   # (fn, node, text)
        self.calls = []          # (fn, node, callee description)


class Interp:
    MAX_DEPTH = 6

    def __init__(self, repo, param_kinds=None):
        self.repo = repo
        self._summaries = {}
        self._inprogress = {}
        self.param_kinds = param_kinds or default_param_kinds
        self.unclassified = []

    # ----------------------------------------------------------- entry points
    def summary(self, fn):
        """Result of analysing ``fn`` with symbolic origins SELF / ARG:<p>."""
        q = fn.qualname
        if q in self._summaries:
            return self._summaries[q]
        if q in self._inprogress:
            return self._inprogress[q]
        prev = Result()
        self._inprogress[q] = prev
        for _ in range(3):
            env = self.initial_env(fn)
            res = self.run(fn, env)
            stable = (res.returns.key() if res.returns else None) == (prev.returns.key() if prev.returns else None) \
                and len(res.events) == len(prev.events)
            prev = res
            self._inprogress[q] = res
            if stable:
                break
        del self._inprogress[q]
        self._summaries[q] = prev
        return prev

    def initial_env(self, fn):
        env = {}
        top = outermost(fn)
        cls = top.cls
        for i, p in enumerate(fn.all_params):
            if fn.parent is None and cls is not None and i == 0 and not self.is_static(fn):
                if self.is_classmethod(fn):
                    env[p] = AV("func", ref=("cls", cls))
                else:
                    env[p] = self.self_value(cls)
                continue
            env[p] = self.param_kinds(fn, p)
        return env

    def self_value(self, cls, origin="SELF"):
        names = [c.qualname if isinstance(c, ClassInfo) else c for c in self.repo.mro(cls)]
        if "dataiter.data_frame.DataFrame" in names:
            return AV("frame", {origin}, elem=col({origin}))
        if "dataiter.vector.Vector" in names:
            return col({origin})
        if "dataiter.list_of_dicts.ListOfDicts" in names:
            return AV("lod", {origin}, elem=AV("dict", {origin}, elem=SCALAR))
        return AV("unknown", {origin})

    @staticmethod
    def is_classmethod(fn):
        return any(d == "builtins.classmethod" for d in fn.decorators)

    @staticmethod
    def is_static(fn):
        return any(d == "builtins.staticmethod" for d in fn.decorators)

    # -------------------------------------------------------------- execution
    def run(self, fn, env, depth=0):
        st = _State(self, fn, env, depth)
        st.exec_block(fn.node.body, st.env)
        # nested functions never called by name (callbacks, returned closures)
        # are analysed once with unknown parameters in the closure environment
        for name, sub in fn.nested.items():
            if name not in st.called_nested:
                st.call_nested(sub, [], {}, sub.node, dict(st.last_env), record=False)
        return self.dedupe(st.res)

    @staticmethod
    def dedupe(res):
        ys, order = {}, []
        for node, v in res.yields:
            if id(node) not in ys:
                order.append(node)
                ys[id(node)] = v
            else:
                ys[id(node)] = join(ys[id(node)], v)
        res.yields = [(n, ys[id(n)]) for n in order]
        seen, evs = set(), []
        for e in res.events:
            k = (e.kind, id(e.node), e.detail, e.target.key(), e.chain)
            if k not in seen:
                seen.add(k)
                evs.append(e)
        res.events = evs
        return res


def default_param_kinds(fn, p):
    """Documented parameter roles of the analysed classes."""
    top = outermost(fn)
    cls = top.cls.name if top.cls is not None else None
    o = f"ARG:{p}"
    if fn.parent is None and cls in ("DataFrame", "GeoJSON"):
        if p == "other":
            return AV("frame", {o}, elem=col({o}))
        if p == "others" and fn.vararg == p:
            return AV("tuple", F0, elem=AV("frame", {o}, elem=col({o})))
    if fn.parent is None and cls in ("Vector", "DataFrameColumn"):
        if p == "other":
            return col({o})
        if p == "others" and fn.vararg == p:
            return AV("tuple", F0, elem=col({o}))
    if fn.parent is None and cls == "ListOfDicts":
        if p == "other":
            return AV("lod", {o}, elem=AV("dict", {o}, elem=SCALAR))
    if fn.vararg == p:
        return AV("tuple", F0, elem=AV("unknown", {o}))
    if fn.kwarg == p:
        return AV("dict", F0, elem=AV("unknown", {o}))
    return AV("unknown", {o})


class _Dead(Exception):
    pass


class _State:
    def __init__(self, interp, fn, env, depth):
        self.I = interp
        self.repo = interp.repo
        self.fn = fn
        self.env = env
        self.depth = depth
        self.res = Result()
        self.loop_stack = []
        self.called_nested = set()
        self.last_env = env

    # ------------------------------------------------------------ statements
    def exec_block(self, stmts, env):
        for s in stmts:
            if env is None:
                return None
            env = self.exec_stmt(s, env)
            if env is not None:
                self.last_env = env
        return env

    def exec_stmt(self, s, env):
        m = getattr(self, "s_" + type(s).__name__, None)
        if m is None:
            raise AnalysisError(f"statement kind {type(s).__name__} not handled by the interpreter "
                                f"({self.fn.qualname}:{s.lineno})")
        return m(s, env)

    def s_Expr(self, s, env):
        self.ev(s.value, env)
        return env

    def s_Pass(self, s, env):
        return env

    s_Global = s_Nonlocal = s_Pass

    def s_Import(self, s, env):
        return env

    s_ImportFrom = s_Import

    def s_Assert(self, s, env):
        self.ev(s.test, env)
        return env

    def s_Raise(self, s, env):
        if s.exc is not None:
            self.ev(s.exc, env)
        return None

    def s_Return(self, s, env):
        v = self.ev(s.value, env) if s.value is not None else NONE
        self.res.returns = join(self.res.returns, v)
        return None

    def s_Continue(self, s, env):
        if self.loop_stack:
            self.loop_stack[-1]["continue"].append(env)
        return None

    def s_Break(self, s, env):
        if self.loop_stack:
            self.loop_stack[-1]["break"].append(env)
        return None

    def s_FunctionDef(self, s, env):
        sub = self.fn.nested.get(s.name)
        env = dict(env)
        env[s.name] = AV("func", ref=("nested", sub, None))
        return env

    def s_ClassDef(self, s, env):
        return env

    def s_Delete(self, s, env):
        env = dict(env)
        for t in s.targets:
            if isinstance(t, ast.Subscript):
                base = self.ev(t.value, env)
                self.ev(t.slice, env)
                self.write("del-item", base, t, f"del {src(t)}", env)
            elif isinstance(t, ast.Attribute):
                base = self.ev(t.value, env)
                self.write_attr(base, t.attr, None, t, env, delete=True)
            elif isinstance(t, ast.Name):
                env.pop(t.id, None)
        return env

    def s_Assign(self, s, env):
        v = self.ev(s.value, env)
        env = dict(env)
        for t in s.targets:
            self.assign(t, v, env, s)
        return env

    def s_AnnAssign(self, s, env):
        if s.value is None:
            return env
        v = self.ev(s.value, env)
        env = dict(env)
        self.assign(s.target, v, env, s)
        return env

    def s_AugAssign(self, s, env):
        v = self.ev(s.value, env)
        env = dict(env)
        t = s.target
        if isinstance(t, ast.Name):
            cur = env.get(t.id)
            if cur is None:
                cur = self.lookup(t.id, env)
            if cur is not None and cur.kind in ("col", "unknown") and cur.kind == "col":
                # ndarray augmented assignment works in place
                self.event("elem-store", cur, s, f"{src(t)} {type(s.op).__name__}= ... (in-place array operator)")
                env[t.id] = cur
            elif cur is not None and cur.kind == "unknown" and isinstance(s.op, (ast.BitAnd, ast.BitOr, ast.BitXor)) \
                    and any(o == "SELF" or o.startswith("ARG:") for o in cur.alias):
                # mask &= other on a value handed in by the caller: for an array (the only kind of argument the bitwise
                # operators are used on here) this works in place, on the caller's object
                self.event("elem-store", cur, s, f"{src(t)} {type(s.op).__name__}= ... (in-place operator on an argument that may be an array)")
                env[t.id] = cur
            elif cur is not None and cur.kind == "list":
                self.event("list-write", cur, s, f"{src(t)} += ...")
                env[t.id] = AV("list", cur.alias, elem=join(cur.elem, content(v)))
            else:
                env[t.id] = join(cur, v) if cur is not None and cur.kind != "scalar" else (cur or v)
        elif isinstance(t, ast.Subscript):
            base = self.ev(t.value, env)
            self.ev(t.slice, env)
            self.write("store", base, s, f"{src(t)} {type(s.op).__name__}= ...", env, value=v)
        elif isinstance(t, ast.Attribute):
            base = self.ev(t.value, env)
            self.write_attr(base, t.attr, v, s, env)
        return env

    def assign(self, t, v, env, stmt):
        if isinstance(t, ast.Name):
            env[t.id] = v
        elif isinstance(t, (ast.Tuple, ast.List)):
            n = len(t.elts)
            for i, e in enumerate(t.elts):
                if isinstance(e, ast.Starred):
                    self.assign(e.value, lst(content(v) or UNKNOWN), env, stmt)
                elif v.kind == "tuple" and v.items is not None and len(v.items) == n:
                    self.assign(e, v.items[i], env, stmt)
                else:
                    self.assign(e, content(v) or UNKNOWN, env, stmt)
        elif isinstance(t, ast.Subscript):
            base = self.ev(t.value, env)
            self.ev(t.slice, env)
            self.write("store", base, stmt, f"{src(t)} = ...", env, value=v)
            # weak update of the container's element
            if isinstance(t.value, ast.Name) and base.kind in ("frame", "dict", "list", "lod", "unknown") \
                    and t.value.id in env:
                if base.kind in ("frame",):
                    nv = v if v.kind in ("col",) else col(all_alias(v) if v.kind in ("unknown", "list", "tuple") else F0)
                    env[t.value.id] = base.with_(elem=join(base.elem, nv))
                elif base.kind in ("dict", "list", "lod"):
                    env[t.value.id] = base.with_(elem=join(base.elem, v))
        elif isinstance(t, ast.Attribute):
            base = self.ev(t.value, env)
            self.write_attr(base, t.attr, v, stmt, env)
            if isinstance(t.value, ast.Name) and base.kind == "frame" and t.value.id in env \
                    and t.attr not in self.frame_attributes(base):
                nv = v if v.kind == "col" else col(all_alias(v) if v.kind in ("unknown", "list", "tuple") else F0)
                env[t.value.id] = base.with_(elem=join(base.elem, nv))
        elif isinstance(t, ast.Starred):
            self.assign(t.value, v, env, stmt)

    def s_If(self, s, env):
        self.ev(s.test, env)
        a = self.exec_block(s.body, dict(env))
        b = self.exec_block(s.orelse, dict(env))
        return self.join_env(a, b)

    def s_While(self, s, env):
        return self.loop(s, env, None, None)

    def s_For(self, s, env):
        it = self.ev(s.iter, env)
        return self.loop(s, env, s.target, iter_elem(it))

    def loop(self, s, env, target, elem):
        frame = {"continue": [], "break": []}
        self.loop_stack.append(frame)
        head = env
        out = None
        for _ in range(3):
            cur = dict(head)
            if target is not None:
                self.assign(target, elem, cur, s)
            else:
                self.ev(s.test, cur)
            saved = len(self.res.events), len(self.res.yields)
            body = self.exec_block(s.body, cur)
            new_head = head
            for e in [body] + frame["continue"]:
                new_head = self.join_env(new_head, e)
            frame["continue"] = []
            if self.env_key(new_head) == self.env_key(head):
                head = new_head
                break
            head = new_head
        self.loop_stack.pop()
        out = head
        if s.orelse:
            out = self.exec_block(s.orelse, dict(head))
        for e in frame["break"]:
            out = self.join_env(out, e)
        return out

    def s_Try(self, s, env):
        body = self.exec_block(s.body, dict(env))
        outs = []
        els = self.exec_block(s.orelse, dict(body)) if body is not None else None
        outs.append(els)
        hstart = self.join_env(env, body)
        for h in s.handlers:
            henv = dict(hstart)
            if h.name:
                henv[h.name] = SCALAR
            outs.append(self.exec_block(h.body, henv))
        out = None
        for o in outs:
            out = self.join_env(out, o)
        if s.finalbody:
            out = self.exec_block(s.finalbody, dict(out) if out is not None else dict(hstart))
        return out

    def s_Match(self, s, env):
        self.ev(s.subject, env)
        out = env
        for case in s.cases:
            out = self.join_env(out, self.exec_block(case.body, dict(env)))
        return out

    def s_With(self, s, env):
        env = dict(env)
        for item in s.items:
            v = self.ev(item.context_expr, env)
            if item.optional_vars is not None:
                self.assign(item.optional_vars, AV("unknown", {"EXT"}) if v.kind in ("scalar",) else v, env, s)
        return self.exec_block(s.body, env)

    def join_env(self, a, b):
        if a is None:
            return b
        if b is None:
            return a
        out = {}
        for k in set(a) | set(b):
            if k in a and k in b:
                out[k] = join(a[k], b[k])
            else:
                out[k] = a.get(k) or b.get(k)
        return out

    @staticmethod
    def env_key(env):
        if env is None:
            return None
        return tuple(sorted((k, v.key()) for k, v in env.items()))

    # ----------------------------------------------------------------- events
    def event(self, kind, target, node, detail, chain=(), value=None):
        self.res.events.append(Event(kind, target, self.fn, node, detail, chain, value))

    def write(self, how, base, node, detail, env, value=None):
        k = base.kind
        if k == "col":
            self.event("elem-store", base, node, detail, value=value)
        elif k == "frame":
            self.event("struct-store", base, node, detail, value=value)
        elif k == "dict":
            self.event("item-write", base, node, detail, value=value)
        elif k in ("list", "tuple"):
            self.event("list-write", base, node, detail, value=value)
        elif k == "lod":
            self.event("list-write", base, node, detail, value=value)
        elif k == "unknown":
            self.event("elem-store", base, node, detail, value=value)
        # scalar / func: nothing

    def frame_attributes(self, base):
        return {"colnames", "_group_colnames", "metadata"}

    def write_attr(self, base, attr, v, node, env, delete=False):
        k = base.kind
        d = f"{'del ' if delete else ''}.{attr}"
        if k == "frame":
            if attr in self.frame_attributes(base):
                self.event("attr-store", base, node, d, value=v)
            else:
                self.event("struct-store", base, node, d + " (column through __setattr__)", value=v)
        elif k in ("col", "lod", "dict", "unknown", "list"):
            if k == "dict":
                self.event("item-write", base, node, d, value=v)
            else:
                self.event("attr-store", base, node, d, value=v)

    # ------------------------------------------------------------ expressions
    def lookup(self, name, env):
        if name in env:
            return env[name]
        return None

    def ev(self, e, env):
        if e is None:
            return NONE
        m = getattr(self, "e_" + type(e).__name__, None)
        if m is None:
            raise AnalysisError(f"expression kind {type(e).__name__} not handled ({self.fn.qualname}:{getattr(e, 'lineno', 0)})")
        return m(e, env)

    def e_Constant(self, e, env):
        return NONE if e.value is None else SCALAR

    def e_JoinedStr(self, e, env):
        for v in e.values:
            if isinstance(v, ast.FormattedValue):
                self.ev(v.value, env)
        return SCALAR

    def e_FormattedValue(self, e, env):
        self.ev(e.value, env)
        return SCALAR

    def e_Name(self, e, env):
        v = self.lookup(e.id, env)
        if v is not None:
            return v
        d = self.repo.dotted(self.fn, e)
        if d is None:
            # a local name not yet bound on this path (e.g. closure variable)
            return AV("unknown", {"EXT"})
        return self.dotted_value(d)

    def dotted_value(self, d):
        if d in self.repo.functions:
            return AV("func", ref=("pkg", self.repo.functions[d]))
        if d in self.repo.classes:
            return AV("func", ref=("cls", self.repo.classes[d]))
        parts = d.rsplit(".", 1)
        if len(parts) == 2 and parts[0] in self.repo.classes:
            hit = self.repo.lookup_method(self.repo.classes[parts[0]], parts[1])
            if isinstance(hit, FunctionInfo):
                return AV("func", ref=("pkg", hit))
            if parts[1] in self.repo.classes[parts[0]].attrs:
                return SCALAR
            if hit:
                return AV("func", ref=("ext", f"{hit}.{parts[1]}"))
        if d in tables.EXT_FUNCS or d in tables.EXT_WRITES:
            if tables.EXT_FUNCS.get(d) == "scalar" and not d.startswith("builtins."):
                return AV("func", ref=("ext", d))
            return AV("func", ref=("ext", d))
        if d in self.repo.modules:
            return AV("func", ref=("mod", d))
        # attribute chain hanging off a module-level variable of the package
        parts = d.split(".")
        for i in range(len(parts) - 1, 0, -1):
            m = self.repo.modules.get(".".join(parts[:i]))
            if m is not None:
                if parts[i] in m.globals:
                    v = AV("unknown", {"EXT"})
                    for a in parts[i + 1:]:
                        v = self.attr_of(v, a, None, {})
                    return v
                break
        return AV("func", ref=("ext", d))

    def e_NamedExpr(self, e, env):
        v = self.ev(e.value, env)
        env[e.target.id] = v
        return v

    def e_Starred(self, e, env):
        return self.ev(e.value, env)

    def e_Lambda(self, e, env):
        return AV("func", ref=("lambda", e, env))

    def e_IfExp(self, e, env):
        self.ev(e.test, env)
        return join(self.ev(e.body, env), self.ev(e.orelse, env))

    def e_BoolOp(self, e, env):
        out = None
        for v in e.values:
            out = join(out, self.ev(v, env))
        return out

    def e_UnaryOp(self, e, env):
        v = self.ev(e.operand, env)
        if isinstance(e.op, ast.Not):
            return SCALAR
        if v.kind in ("col",):
            return col()
        if v.kind == "unknown":
            return AV("unknown", F0)   # operators on arrays return new arrays
        return SCALAR

    def e_BinOp(self, e, env):
        a = self.ev(e.left, env)
        b = self.ev(e.right, env)
        if a.kind == "col" or b.kind == "col":
            return col()
        if a.kind in ("list", "tuple") or b.kind in ("list", "tuple"):
            return lst(join(content(a) if a.kind in ("list", "tuple") else None,
                            content(b) if b.kind in ("list", "tuple") else None))
        if a.kind == "lod" and isinstance(e.op, (ast.Add, ast.Mult)):
            name = "__add__" if isinstance(e.op, ast.Add) else "__mul__"
            return self.call_method_on(a, name, [b], {}, e, env)
        if a.kind == "unknown" or b.kind == "unknown":
            return AV("unknown", F0)   # arithmetic creates a new object
        return SCALAR

    def e_Compare(self, e, env):
        a = self.ev(e.left, env)
        kinds = [a.kind]
        for c in e.comparators:
            kinds.append(self.ev(c, env).kind)
        if any(isinstance(op, (ast.In, ast.NotIn, ast.Is, ast.IsNot)) for op in e.ops):
            return SCALAR
        if "col" in kinds:
            return col()
        if "unknown" in kinds:
            return AV("unknown", F0)
        return SCALAR

    def e_List(self, e, env):
        el = None
        for x in e.elts:
            v = self.ev(x, env)
            el = join(el, content(v) if isinstance(x, ast.Starred) else v)
        return lst(el)

    e_Set = e_List

    def e_Tuple(self, e, env):
        if any(isinstance(x, ast.Starred) for x in e.elts):
            return self.e_List(e, env).with_(kind="list")
        return AV("tuple", items=tuple(self.ev(x, env) for x in e.elts))

    def e_Dict(self, e, env):
        el = None
        for k, v in zip(e.keys, e.values):
            if k is None:
                d = self.ev(v, env)
                el = join(el, content(d) if d.kind in ("dict", "frame", "unknown") else None)
            else:
                self.ev(k, env)
                el = join(el, self.ev(v, env))
        return AV("dict", elem=el)

    def comp_env(self, generators, env):
        env = dict(env)
        for g in generators:
            it = self.ev(g.iter, env)
            self.assign(g.target, iter_elem(it), env, g)
            for c in g.ifs:
                self.ev(c, env)
        return env

    def e_ListComp(self, e, env):
        cenv = self.comp_env(e.generators, env)
        return lst(self.ev(e.elt, cenv))

    e_SetComp = e_GeneratorExp = e_ListComp

    def e_DictComp(self, e, env):
        cenv = self.comp_env(e.generators, env)
        self.ev(e.key, cenv)
        return AV("dict", elem=self.ev(e.value, cenv))

    def e_Yield(self, e, env):
        v = self.ev(e.value, env) if e.value is not None else NONE
        self.res.yields.append((e, v))
        return SCALAR

    def e_YieldFrom(self, e, env):
        v = self.ev(e.value, env)
        self.res.yields.append((e, iter_elem(v)))
        return SCALAR

    def e_Slice(self, e, env):
        for x in (e.lower, e.upper, e.step):
            if x is not None:
                self.ev(x, env)
        return AV("scalar", flags={"slice"})

    def e_Attribute(self, e, env):
        d = self.repo.dotted(self.fn, e)
        if d is not None:
            return self.dotted_value(d)
        base = self.ev(e.value, env)
        return self.attr_of(base, e.attr, e, env)

    def class_of_kind(self, av):
        k = av.kind
        if k == "frame":
            return self.repo.classes.get(av.ref) if isinstance(av.ref, str) else self.repo.classes.get("dataiter.data_frame.DataFrame")
        if k == "col":
            return self.repo.classes.get("dataiter.data_frame.DataFrameColumn")
        if k == "lod":
            return self.repo.classes.get("dataiter.list_of_dicts.ListOfDicts")
        return None

    def attr_of(self, base, attr, node, env):
        k = base.kind
        if k == "func":
            r = base.ref
            if r and r[0] == "cls":
                hit = self.repo.lookup_method(r[1], attr)
                if isinstance(hit, FunctionInfo):
                    return AV("func", ref=("clsmeth", hit, r[1]))
                if attr in r[1].attrs or any(isinstance(c, ClassInfo) and attr in c.attrs for c in self.repo.mro(r[1])):
                    return SCALAR
                return AV("func", ref=("ext", f"{hit}.{attr}" if hit else attr))
            if r and r[0] in ("nested", "pkg", "lambda"):
                return SCALAR      # function attributes (aggregate.default ...)
            if r and r[0] == "ext":
                return AV("func", ref=("ext", f"{r[1]}.{attr}"))
            return AV("unknown", F0)
        cls = self.class_of_kind(base)
        if cls is not None:
            if attr == "__class__":
                return AV("func", ref=("cls", cls))
            hit = self.repo.lookup_method(cls, attr)
            if isinstance(hit, FunctionInfo):
                if any(d == "builtins.property" for d in hit.decorators):
                    v = self.call_pkg([hit], base, [], {}, node, env)
                    ann = hit.node.returns
                    if isinstance(ann, ast.Name) and ann.id in ("DtProxy", "ReProxy", "StrProxy"):
                        # memoised proxy object bound to this vector (annotation of the property)
                        return AV("unknown", F0, elem=base, flags={"proxy:" + ann.id})
                    return v
                return AV("func", ref=("bound", hit, base))
            if k == "frame":
                if attr in self.frame_attributes(base):
                    return AV("unknown", F0) if attr != "colnames" else lst(SCALAR)
                if attr in tables.DICT_METHODS:
                    return AV("func", ref=("boundext", attr, base))
                return base.elem or col(base.alias)       # column through __getattr__
            if k == "col":
                if attr in tables.ARRAY_ATTRS_SCALAR:
                    return SCALAR
                if attr in tables.ARRAY_ATTRS_ALIAS:
                    return base
                return AV("func", ref=("boundext", attr, base))
            if k == "lod":
                if attr.startswith("_"):
                    return AV("unknown", F0)
                return AV("func", ref=("boundext", attr, base))
        if k == "dict":
            if attr in tables.DICT_METHODS:
                return AV("func", ref=("boundext", attr, base))
            return base.elem or AV("unknown", base.alias)   # AttributeDict attribute access
        if k in ("list", "tuple"):
            return AV("func", ref=("boundext", attr, base))
        if k == "scalar":
            return AV("func", ref=("boundext", attr, base))
        # proxies of Vector: .dt / .re forward to the module function, .str to numpy.strings
        for fl in base.flags:
            if fl.startswith("proxy:"):
                vec = base.elem or UNKNOWN
                if fl == "proxy:StrProxy":
                    return AV("func", ref=("vectorized",))     # numpy.strings.* return new arrays
                modname = "dataiter.dt" if fl == "proxy:DtProxy" else "dataiter.regex"
                target = self.repo.functions.get(f"{modname}.{attr}")
                if target is not None:
                    if fl == "proxy:DtProxy":
                        return AV("func", ref=("partial", AV("func", ref=("pkg", target)), (vec,), {}))
                    return AV("func", ref=("partial", AV("func", ref=("pkg", target)), (), {"string": vec}))
        # unknown receiver
        if attr in tables.ARRAY_ATTRS_SCALAR:
            return SCALAR
        return AV("func", ref=("boundext", attr, base))

    def index_kind(self, sl, env):
        if isinstance(sl, ast.Slice):
            self.e_Slice(sl, env)
            return "SLICE", None
        if isinstance(sl, ast.Tuple):
            for x in sl.elts:
                self.ev(x, env) if not isinstance(x, ast.Slice) else None
            return "UNKNOWN", None
        v = self.ev(sl, env)
        if "slice" in v.flags or "may-slice" in v.flags:
            return "SLICE", v
        if v.kind in ("col", "list"):
            return "ADV", v
        if v.kind == "tuple":
            return ("ADV" if all(i.kind in ("col", "list") for i in (v.items or ())) and v.items else "UNKNOWN"), v
        if v.kind == "scalar":
            return "SCALAR", v
        return "UNKNOWN", v

    def e_Subscript(self, e, env):
        base = self.ev(e.value, env)
        k = base.kind
        if k == "col":
            ik, _ = self.index_kind(e.slice, env)
            if ik == "ADV":
                return col()
            if ik == "SCALAR":
                return SCALAR
            return base.with_(flags=base.flags | ({"via-slice"} if ik == "SLICE" else {"via-unknown-index"}))
        ik, iv = self.index_kind(e.slice, env)
        if k == "frame":
            return base.elem or col(base.alias)
        if k == "dict":
            return base.elem or AV("unknown", base.alias)
        if k == "lod":
            if ik == "SLICE":
                return self.call_method_on(base, "__getitem__", [AV("scalar", flags={"slice"})], {}, e, env)
            return base.elem
        if k == "tuple":
            if ik == "SLICE":
                return lst(content(base))
            if isinstance(e.slice, ast.Constant) and isinstance(e.slice.value, int) and base.items is not None \
                    and -len(base.items) <= e.slice.value < len(base.items):
                return base.items[e.slice.value]
            return content(base) or UNKNOWN
        if k == "list":
            if ik == "SLICE":
                return lst(base.elem, F0)
            return base.elem or UNKNOWN
        if k == "scalar":
            return SCALAR
        if k == "func":
            return AV("unknown", F0)
        # unknown
        if ik == "ADV":
            return AV("unknown", F0, elem=None) if base.elem is None else join(AV("unknown", F0), base.elem)
        if base.elem is not None:
            return join(base.elem, AV("unknown", base.alias, flags=base.flags))
        return AV("unknown", base.alias, flags=base.flags)

    # ------------------------------------------------------------------ calls
    def eval_args(self, call, env):
        args = []
        for a in call.args:
            v = self.ev(a, env)
            if isinstance(a, ast.Starred):
                args.append(("*", v))
            else:
                args.append(v)
        kwargs = {}
        for kw in call.keywords:
            v = self.ev(kw.value, env)
            kwargs[kw.arg if kw.arg is not None else "**"] = v
        return args, kwargs

    @staticmethod
    def plain(args):
        return [a[1] if isinstance(a, tuple) else a for a in args]

    def e_Call(self, e, env):
        f = e.func
        # super().m(...)
        if (isinstance(f, ast.Attribute) and isinstance(f.value, ast.Call)
                and isinstance(f.value.func, ast.Name) and f.value.func.id == "super"):
            args, kwargs = self.eval_args(e, env)
            return self.call_super(f.attr, args, kwargs, e, env)
        fv = self.ev(f, env)
        args, kwargs = self.eval_args(e, env)
        return self.apply(fv, args, kwargs, e, env)

    def apply(self, fv, args, kwargs, node, env):
        if fv.kind != "func" or fv.ref is None:
            # call of a local value: a user callback
            return self.callback(fv, args, kwargs, node)
        r = fv.ref
        tag = r[0]
        if tag == "pkg":
            fn = r[1]
            if fn.cls is not None and fn.parent is None and not self.I.is_static(fn):
                # Class.method(self, ...) explicit receiver
                pa = self.plain(args)
                if self.I.is_classmethod(fn):
                    return self.call_pkg([fn], AV("func", ref=("cls", fn.cls)), args, kwargs, node, env)
                recv = pa[0] if pa else UNKNOWN
                return self.call_pkg([fn], recv, args[1:], kwargs, node, env)
            return self.call_pkg([fn], None, args, kwargs, node, env)
        if tag == "clsmeth":
            fn, cls = r[1], r[2]
            if self.I.is_classmethod(fn):
                return self.call_pkg([fn], AV("func", ref=("cls", cls)), args, kwargs, node, env)
            pa = self.plain(args)
            return self.call_pkg([fn], pa[0] if pa else UNKNOWN, args[1:], kwargs, node, env)
        if tag == "bound":
            fn, recv = r[1], r[2]
            if recv.kind == "col" and fn.qualname in self.I._inprogress and fn.key in tables.ARRAY_METHODS \
                    and "SELF" not in recv.alias:
                # same-named ndarray method on a plain array created inside the method itself
                return self.call_ext_method(recv, fn.key, args, kwargs, node, env)
            targets = [fn]
            if fn.cls is not None:
                cls = self.class_of_kind(recv) or fn.cls
                t2, _ = self.repo.method_targets(cls, fn.key)
                targets = t2 or [fn]
            if self.I.is_classmethod(fn):
                return self.call_pkg(targets, AV("func", ref=("cls", fn.cls)), args, kwargs, node, env)
            return self.call_pkg(targets, recv, args, kwargs, node, env)
        if tag == "cls":
            return self.construct(r[1], args, kwargs, node, env)
        if tag == "nested":
            return self.call_nested(r[1], args, kwargs, node, env)
        if tag == "lambda":
            return self.call_lambda(r[1], r[2], args, kwargs, node, env)
        if tag == "ext":
            return self.call_ext(r[1], args, kwargs, node, env)
        if tag == "boundext":
            return self.call_ext_method(r[2], r[1], args, kwargs, node, env)
        if tag == "partial":
            return self.apply(r[1], list(r[2]) + list(args), dict(r[3], **kwargs), node, env)
        if tag == "choice":
            out = None
            for alt in r[1]:
                out = join(out, self.apply(alt, args, kwargs, node, env))
            return out if out is not None else UNKNOWN
        if tag == "vectorized":
            return col()
        if tag == "itemgetter":
            pa = self.plain(args)
            return content(pa[0]) if pa and content(pa[0]) is not None else SCALAR
        return AV("unknown", F0)

    def callback(self, fv, args, kwargs, node):
        """A call through a parameter / local value: user code.  Its result may
        be anything the user can reach, so it is tagged CB; no effect on the
        package's side is assumed (see DESIGN 3.3)."""
        return AV("unknown", {"CB"})

    # package callee through its summary
    def call_pkg(self, targets, recv, args, kwargs, node, env):
        out = None
        for fn in targets:
            out = join(out, self.call_one(fn, recv, args, kwargs, node, env))
        return out if out is not None else UNKNOWN

    def bind(self, fn, recv, args, kwargs):
        """Map callee origins to actual abstract values."""
        mapping = {}
        params = list(fn.params)
        top_method = fn.cls is not None and fn.parent is None and not self.I.is_static(fn)
        if top_method and params:
            mapping["SELF"] = recv
            params = params[1:]
        pos = []
        star = None
        for a in args:
            if isinstance(a, tuple):
                star = join(star, content(a[1]) or UNKNOWN)
            else:
                pos.append(a)
        for i, p in enumerate(params):
            if i < len(pos):
                mapping[f"ARG:{p}"] = pos[i]
            elif p in kwargs:
                mapping[f"ARG:{p}"] = kwargs[p]
            elif star is not None:
                mapping[f"ARG:{p}"] = star
        if fn.vararg:
            rest = pos[len(params):]
            e = star
            for x in rest:
                e = join(e, x)
            mapping[f"ARG:{fn.vararg}"] = e if e is not None else None
        for p in fn.kwonly:
            if p in kwargs:
                mapping[f"ARG:{p}"] = kwargs[p]
            elif "**" in kwargs:
                mapping[f"ARG:{p}"] = content(kwargs["**"]) or UNKNOWN
        if fn.kwarg:
            e = None
            for k, v in kwargs.items():
                if k == "**":
                    e = join(e, content(v))
                elif k not in fn.params and k not in fn.kwonly:
                    e = join(e, v)
            mapping[f"ARG:{fn.kwarg}"] = e
        if "**" in kwargs:
            for p in params:
                mapping.setdefault(f"ARG:{p}", content(kwargs["**"]) or UNKNOWN)
        return mapping

    def call_one(self, fn, recv, args, kwargs, node, env):
        if self.depth > Interp.MAX_DEPTH:
            return AV("unknown", F0)
        summ = self.I.summary(fn)
        mapping = self.bind(fn, recv, args, kwargs)
        gen_new = fn.has_decorator("new_from_generator")
        # effects of the callee, expressed over our origins
        for ev in summ.events:
            tgt = self.subst(ev.target, mapping)
            if tgt is None:
                continue
            if not all_alias(tgt) and tgt.kind != "unknown":
                continue   # callee wrote to its own fresh object
            self.res.events.append(Event(ev.kind, tgt, self.fn, node, ev.detail,
                                         ((ev.fn.qualname, getattr(ev.node, "lineno", 0), ev.detail),) + ev.chain,
                                         ev.value,
                                         covered=ev.covered or fn.has_decorator("obsoletes")))
        if fn.has_decorator("obsoletes"):
            # deco.obsoletes: the wrapper marks the receiver (and its ancestors) obsolete
            self.event("obsoletes-call", recv if recv is not None else UNKNOWN, node, f"{fn.name}() is an editor")
        if gen_new:
            elem = None
            for _, y in summ.yields:
                elem = join(elem, self.subst(y, mapping))
            return self.from_generator(fn, recv, elem, node, env)
        if fn.has_decorator("listify") or fn.has_decorator("tuplefy"):
            elem = None
            for _, y in summ.yields:
                elem = join(elem, self.subst(y, mapping))
            return lst(elem if elem is not None else SCALAR)
        if fn.is_generator:
            elem = None
            for _, y in summ.yields:
                elem = join(elem, self.subst(y, mapping))
            return lst(elem if elem is not None else SCALAR)
        if summ.returns is None:
            return NONE
        out = self.subst(summ.returns, mapping) or UNKNOWN
        if fn.name == "_view_rows" and out.kind == "frame":
            # built by bypassing the checked constructor: must stay private
            out = out.with_(flags=out.flags | {"unchecked-view"})
        if fn.name == "_new" and out.kind == "lod":
            # ListOfDicts._new is the only place that records the predecessor
            out = out.with_(flags=out.flags | {"via-new"},
                            ref=("new-of", recv.alias if recv is not None else F0))
        return out

    def from_generator(self, fn, recv, elem, node, env):
        """deco.new_from_generator: wrapper returns self._new(<generator>)."""
        cls = outermost(fn).cls
        names = [c.qualname if isinstance(c, ClassInfo) else c for c in self.repo.mro(cls)]
        if "dataiter.list_of_dicts.ListOfDicts" in names:
            r = recv if recv is not None and recv.kind == "lod" else self.I.self_value(cls)
            return self.call_method_on(r, "_new", [lst(elem if elem is not None else AV("dict", F0, elem=SCALAR))], {}, node, env)
        # DataFrame._new(cls, *args) -> cls(*args): checked constructor
        pair = elem
        colv = None
        if pair is not None:
            if pair.kind == "tuple" and pair.items and len(pair.items) == 2:
                colv = pair.items[1]
            else:
                colv = content(pair)
        return self.make_frame(colv)

    def make_frame(self, colv, cls=None):
        if colv is None:
            e = col()
        elif colv.kind == "col":
            e = colv
        else:
            # the constructor converts anything that is not a conforming column
            # with DataFrameColumn(value, nrow=nrow): a copy
            e = col(colv.alias if colv.kind == "unknown" else F0,
                    flags=(colv.flags & {"uncertain"}))
            if colv.kind == "unknown" and colv.alias:
                e = col(colv.alias)
        return AV("frame", F0, elem=e)

    def subst(self, av, mapping, level=0):
        """Rewrite callee origins (SELF, ARG:p) into caller values."""
        if av is None:
            return None
        if level > 6:
            return AV("unknown", F0)
        alias = set()
        flags = set(av.flags)
        for o in av.alias:
            if o in mapping:
                actual = mapping[o]
                if actual is None:
                    continue
                if av.kind in ("col", "dict", "unknown", "scalar") and actual.kind in ("frame", "lod", "list", "tuple") \
                        and actual.kind != av.kind:
                    c = content(actual)
                    alias |= set(c.alias) if c is not None else set()
                    if c is not None:
                        flags |= (c.flags & {"uncertain"})
                    if av.kind == "unknown":
                        alias |= set(actual.alias)
                else:
                    alias |= set(actual.alias)
                    if av.kind == "unknown" and actual.elem is not None:
                        alias |= all_alias(actual.elem)
            elif o in ("CB", "EXT"):
                alias.add(o)
            elif o == "SELF" or o.startswith("ARG:"):
                # parameter not bound at this call (default value): nothing of ours
                continue
            else:
                alias.add(o)
        elem = self.subst(av.elem, mapping, level + 1) if av.elem is not None else None
        items = tuple(self.subst(i, mapping, level + 1) for i in av.items) if av.items is not None else None
        # an unknown-kind parameter handed back unchanged takes the actual's kind
        if av.kind == "unknown" and len(av.alias) == 1:
            (o,) = tuple(av.alias)
            actual = mapping.get(o)
            if actual is not None and av.elem is None and not (av.flags - {"elemof"}):
                if "elemof" in av.flags:
                    c = iter_elem(actual) if actual.kind not in ("frame", "dict") else content(actual)
                    return c if c is not None else AV("unknown", all_alias(actual), flags={"elemof"})
                return actual
        return AV(av.kind, alias, elem, items, flags, av.ref)

    def call_nested(self, sub, args, kwargs, node, env, record=True):
        if sub is None or self.depth > Interp.MAX_DEPTH:
            return AV("unknown", F0)
        if record:
            self.called_nested.add(sub.name)
        cenv = dict(env)
        pos = []
        star = None
        for a in args:
            if isinstance(a, tuple):
                star = join(star, content(a[1]) or UNKNOWN)
            else:
                pos.append(a)
        for i, p in enumerate(sub.params):
            if i < len(pos):
                cenv[p] = pos[i]
            elif p in kwargs:
                cenv[p] = kwargs[p]
            elif star is not None:
                cenv[p] = star
            else:
                cenv[p] = AV("unknown", F0)
        for p in sub.kwonly:
            cenv[p] = kwargs.get(p, AV("unknown", F0))
        if sub.vararg:
            cenv[sub.vararg] = AV("tuple", elem=star or UNKNOWN)
        if sub.kwarg:
            cenv[sub.kwarg] = AV("dict", elem=UNKNOWN)
        st = _State(self.I, sub, cenv, self.depth + 1)
        st.exec_block(sub.node.body, cenv)
        for ev in st.res.events:
            self.res.events.append(Event(ev.kind, ev.target, ev.fn, ev.node, ev.detail, ev.chain, ev.value, ev.covered))
        self.res.unclassified += st.res.unclassified
        if sub.is_generator:
            e = None
            for _, y in st.res.yields:
                e = join(e, y)
            return lst(e or SCALAR)
        return st.res.returns if st.res.returns is not None else NONE

    def call_lambda(self, lam, lenv, args, kwargs, node, env):
        cenv = dict(lenv)
        cenv.update({k: v for k, v in env.items() if k not in cenv})
        pos = self.plain(args)
        a = lam.args
        names = [x.arg for x in a.posonlyargs + a.args]
        for i, p in enumerate(names):
            cenv[p] = pos[i] if i < len(pos) else kwargs.get(p, AV("unknown", F0))
        if a.vararg:
            cenv[a.vararg.arg] = AV("tuple", elem=UNKNOWN)
        if a.kwarg:
            cenv[a.kwarg.arg] = AV("dict", elem=UNKNOWN)
        return self.ev(lam.body, cenv)

    def call_super(self, name, args, kwargs, node, env):
        cls = outermost(self.fn).cls
        target = self.repo.lookup_method(cls, name, after=cls) if cls is not None else None
        top = outermost(self.fn)
        selfname = top.params[0] if top.params else "self"
        recv = env.get(selfname) or self.lookup(selfname, env) or UNKNOWN
        if isinstance(target, FunctionInfo):
            return self.call_pkg([target], recv, args, kwargs, node, env)
        base = target or "builtins.object"
        return self.call_ext_method(recv, name, args, kwargs, node, env, via_super=base)

    def call_method_on(self, recv, name, args, kwargs, node, env):
        cls = self.class_of_kind(recv)
        if cls is not None:
            targets, _ = self.repo.method_targets(cls, name)
            if targets:
                return self.call_pkg(targets, recv, args, kwargs, node, env)
        return self.call_ext_method(recv, name, args, kwargs, node, env)

    # constructor calls
    def construct(self, cls, args, kwargs, node, env):
        names = [c.qualname if isinstance(c, ClassInfo) else c for c in self.repo.mro(cls)]
        pa = self.plain(args)
        if "dataiter.data_frame.DataFrame" in names:
            # dict.__init__ stores the given values; DataFrame.__init__ keeps a
            # conforming DataFrameColumn as is and converts (copies) anything else.
            colv = None
            for a in pa:
                if a.kind == "frame":
                    colv = join(colv, a.elem)
                elif a.kind in ("dict", "list", "tuple", "unknown"):
                    c = content(a)
                    if c is not None and c.kind == "tuple" and c.items and len(c.items) == 2:
                        c = c.items[1]
                    if c is not None:
                        colv = join(colv, c if c.kind in ("col", "unknown") else col())
            for k, v in kwargs.items():
                if k == "**":
                    c = content(v)
                    if c is not None:
                        colv = join(colv, c if c.kind in ("col", "unknown") else col())
                else:
                    colv = join(colv, v if v.kind in ("col", "unknown") else col())
            fr = self.make_frame(colv)
            init = self.repo.lookup_method(cls, "__init__")
            return fr
        if "dataiter.list_of_dicts.ListOfDicts" in names:
            as_is = kwargs.get("as_is")
            src_av = pa[0] if pa else lst(None)
            e = iter_elem(src_av)
            asis_true = isinstance(node, ast.Call) and any(
                kw.arg == "as_is" and isinstance(kw.value, ast.Constant) and kw.value.value is True
                for kw in node.keywords)
            if asis_true:
                item = e if e.kind in ("dict", "unknown") else AV("dict", F0, elem=SCALAR)
                flags = {"as-is"}
            else:
                # map(AttributeDict, dicts): AttributeDict(x) is a new (shallow) dict
                item = AV("dict", F0, elem=SCALAR,
                          flags={"shallow"} if (e is not None and all_alias(e)) else F0)
                flags = set()
            return AV("lod", F0, elem=item, flags=flags)
        if cls.name in ("DtProxy", "ReProxy", "StrProxy"):
            return AV("unknown", F0, elem=pa[0] if pa else None, flags={"proxy:" + cls.name})
        new = self.repo.lookup_method(cls, "__new__")
        if isinstance(new, FunctionInfo):
            return self.call_pkg([new], AV("func", ref=("cls", cls)), args, kwargs, node, env)
        init = self.repo.lookup_method(cls, "__init__")
        if isinstance(init, FunctionInfo):
            self.call_pkg([init], AV("unknown", F0), args, kwargs, node, env)
        return AV("unknown", F0)

    # external functions through the operation table
    def call_ext(self, d, args, kwargs, node, env):
        pa = self.plain(args)
        beh = tables.EXT_FUNCS.get(d)
        if "out" in kwargs and kwargs["out"].kind in ("col", "unknown") and d.startswith("numpy."):
            self.event("inplace-call", kwargs["out"], node, f"{d}(..., out=)")
        if d in tables.EXT_WRITES:
            i = tables.EXT_WRITES[d]
            if i < len(pa):
                self.event("inplace-call", pa[i], node, f"{d}()")
            return NONE
        if beh is None:
            if d.startswith("numpy.strings.") or d.startswith("numpy.char."):
                return col()
            if d.endswith("Error") or d.endswith("Exception"):
                return SCALAR
            # unknown external function: result may alias any argument
            al = set()
            for a in pa + list(kwargs.values()):
                al |= all_alias(a)
            self.res.unclassified.append((self.fn, node, f"external function {d} is not in the operation table"))
            return AV("unknown", al, flags={"uncertain"} if al else F0)
        a0 = pa[0] if pa else None
        if isinstance(node, ast.Call):
            kws = {k.arg: k.value for k in node.keywords if k.arg}
            not_true = lambda v: not (isinstance(v, ast.Constant) and v.value is True)
            not_false = lambda v: not (isinstance(v, ast.Constant) and v.value in (False, None))
            if d in ("numpy.array", "numpy.nan_to_num") and "copy" in kws and not_true(kws["copy"]):
                # copy=False / copy=None: the argument itself may come back (nan_to_num then also writes into it)
                if d == "numpy.nan_to_num" and a0 is not None:
                    self.event("inplace-call", a0, node, f"{d}(..., copy={ast.unparse(kws['copy'])})")
                beh = "alias0"
            if d in ("numpy.median", "numpy.nanmedian", "numpy.percentile", "numpy.nanpercentile", "numpy.quantile",
                     "numpy.nanquantile") and "overwrite_input" in kws and not_false(kws["overwrite_input"]) and a0 is not None:
                self.event("inplace-call", a0, node, f"{d}(..., overwrite_input={ast.unparse(kws['overwrite_input'])})")
        if beh == "fresh":
            return col()
        if beh == "scalar":
            return AV("scalar", flags={"slice"}) if d == "builtins.slice" else SCALAR
        if beh == "opaque":
            return AV("unknown", {"EXT"})
        if beh == "alias0":
            if a0 is None:
                return col()
            if a0.kind in ("col", "unknown"):
                return AV("col", all_alias(a0), flags=a0.flags)
            return col()     # lists are converted: a new array
        if beh == "where":
            return col() if len(pa) >= 3 else AV("tuple", items=(col(),))
        if beh == "tuple_fresh":
            return AV("tuple", items=(col(),))
        if beh == "fresh_or_tuple":
            if any(k.startswith("return_") for k in kwargs):
                return AV("tuple", elem=col(), items=None).with_(kind="list", elem=col())
            return col()
        if beh == "views0":
            return lst(AV("col", all_alias(a0) if a0 is not None else F0, flags={"view"}))
        if beh == "func_fresh":
            return AV("func", ref=("vectorized",))
        if beh == "elem":
            kf = kwargs.get("key")
            if kf is not None and kf.kind == "func" and kf.ref is not None and a0 is not None:
                self.apply(kf, [iter_elem(a0)], {}, node, env)
            e = content(a0) if a0 is not None else None
            if len(pa) > 1:
                e = None
                for a in pa:
                    e = join(e, a)
            return e if e is not None else SCALAR
        if beh == "box_scalar":
            return lst(SCALAR)
        if beh == "box":
            kf = kwargs.get("key")
            if kf is not None and kf.kind == "func" and kf.ref is not None and a0 is not None:
                # sorted(xs, key=f) / min / max: f is applied to every element
                self.apply(kf, [iter_elem(a0)], {}, node, env)
            return lst(iter_elem(a0) if a0 is not None else None)
        if beh == "box1":
            if len(pa) > 1 and pa[0].kind == "func" and pa[0].ref is not None:
                self.apply(pa[0], [iter_elem(pa[1])], {}, node, env)
            return lst(iter_elem(pa[1]) if len(pa) > 1 else None)
        if beh == "enumerate":
            return lst(AV("tuple", items=(SCALAR, iter_elem(a0) if a0 is not None else UNKNOWN)))
        if beh == "zip":
            return lst(AV("tuple", items=tuple(iter_elem(a) for a in pa))) if not any(
                isinstance(a, tuple) for a in args) else lst(lst(join_all(
                    [iter_elem(content(a[1]) or UNKNOWN) if isinstance(a, tuple) else iter_elem(a) for a in args])))
        if beh == "map":
            if not pa:
                return lst(None)
            f = pa[0]
            elems = [iter_elem(a) for a in pa[1:]]
            if f.kind == "func" and f.ref is not None:
                return lst(self.apply(f, elems, {}, node, env))
            return lst(self.callback(f, elems, {}, node))
        if beh == "chain":
            e = None
            for a in args:
                if isinstance(a, tuple):
                    e = join(e, iter_elem(content(a[1]) or UNKNOWN))
                else:
                    e = join(e, iter_elem(a))
            return lst(e)
        if beh == "chainfrom":
            return lst(iter_elem(iter_elem(a0)) if a0 is not None else None)
        if beh == "dictctor":
            e = None
            for a in pa:
                c = content(a)
                if a.kind in ("dict", "frame"):
                    e = join(e, c)
                elif c is not None and c.kind == "tuple" and c.items and len(c.items) == 2:
                    e = join(e, c.items[1])
                elif c is not None:
                    e = join(e, content(c) or UNKNOWN)
            for k, v in kwargs.items():
                e = join(e, content(v) if k == "**" else v)
            return AV("dict", elem=e)
        if beh == "dictfromkeys":
            return AV("dict", elem=pa[1] if len(pa) > 1 else NONE)
        if beh == "attrdict":
            # AttributeDict(x): always a new dict (shallow copy of x)
            e = None
            for a in pa:
                c = content(a)
                if a.kind in ("dict", "frame"):
                    e = join(e, c)
                elif c is not None and c.kind == "tuple" and c.items and len(c.items) == 2:
                    e = join(e, c.items[1])
            for k, v in kwargs.items():
                e = join(e, v)
            sh = {"shallow"} if any(a.kind in ("dict", "unknown") and all_alias(a) for a in pa) else set()
            return AV("dict", F0, elem=e if e is not None else SCALAR, flags={"attr"} | sh)
        if beh == "deepcopy":
            return self.deep(a0) if a0 is not None else UNKNOWN
        if beh == "shallowcopy":
            if a0 is None:
                return UNKNOWN
            sh = {"shallow"} if all_alias(a0) else set()
            return a0.with_(alias=F0, flags=a0.flags | sh)
        if beh == "getattr":
            if len(pa) >= 2 and isinstance(node, ast.Call) and len(node.args) >= 2 \
                    and isinstance(node.args[1], ast.Constant) and isinstance(node.args[1].value, str):
                v = self.attr_of(pa[0], node.args[1].value, node, env)
                return join(v, pa[2]) if len(pa) > 2 else v
            return AV("unknown", all_alias(pa[0]) if pa else F0)
        if beh == "setattr":
            if pa:
                self.write_attr(pa[0], "<dynamic>", pa[2] if len(pa) > 2 else None, node, env)
            return NONE
        if beh == "partial":
            if pa and pa[0].kind == "func":
                return AV("func", ref=("partial", pa[0], tuple(pa[1:]), dict(kwargs)))
            return AV("unknown", F0)
        if beh == "itemgetter":
            return AV("func", ref=("itemgetter",))
        if beh in ("dict_update", "dict_setitem", "dict_pop", "dict_delitem", "dict_clear"):
            if a0 is not None:
                self.write("store", a0, node, f"{d}(...) (base-class storage primitive)", env,
                           value=pa[-1] if len(pa) > 1 else None)
                if beh in ("dict_update", "dict_setitem") and isinstance(node, ast.Call) and node.args \
                        and isinstance(node.args[0], ast.Name) and node.args[0].id in env and len(pa) > 1:
                    v = pa[-1]
                    nv = content(v) if beh == "dict_update" and v.kind in ("dict", "frame", "unknown", "list") else v
                    if nv is not None and a0.kind in ("frame", "dict"):
                        if a0.kind == "frame" and nv.kind not in ("col",):
                            nv = col(all_alias(nv))
                        env[node.args[0].id] = a0.with_(elem=join(a0.elem, nv))
            if beh == "dict_pop":
                return content(a0) if a0 is not None else UNKNOWN
            return NONE
        if beh == "dict_copy":
            if a0 is None:
                return AV("dict")
            return AV("dict", F0, elem=content(a0))
        if beh == "dict_getitem":
            return content(a0) if a0 is not None else UNKNOWN
        return AV("unknown", F0)

    def deep(self, av):
        if av is None:
            return None
        return AV(av.kind, F0, self.deep(av.elem), tuple(self.deep(i) for i in av.items) if av.items else av.items,
                  av.flags - {"as-is"}, av.ref)

    def call_ext_method(self, recv, name, args, kwargs, node, env, via_super=None):
        """Method that no package class defines: builtin / ndarray / foreign."""
        pa = self.plain(args)
        k = recv.kind
        if "out" in kwargs and kwargs["out"].kind in ("col", "unknown"):
            self.event("inplace-call", kwargs["out"], node, f".{name}(..., out=)")
        if k in ("col",) or (k == "unknown" and (name in tables.ARRAY_METHODS or name in tables.ARRAY_INPLACE)
                             and name not in ("copy", "pop", "update", "clear", "get", "items", "keys", "values")):
            if name in tables.ARRAY_INPLACE:
                self.event("inplace-call", recv, node, f".{name}() (in-place ndarray method)")
                return NONE
            if name == "sort" and via_super:
                self.event("inplace-call", recv, node, ".sort() (ndarray.sort is in place)")
                return NONE
            beh = tables.ARRAY_METHODS.get(name)
            if name == "astype" and isinstance(node, ast.Call):
                # astype(dtype, copy=False) hands back the array itself when no conversion is needed
                cp = [k.value for k in node.keywords if k.arg == "copy"]
                if (cp and not (isinstance(cp[0], ast.Constant) and cp[0].value is True)) or \
                        (len(node.args) >= 5 and not (isinstance(node.args[4], ast.Constant) and node.args[4].value is True)):
                    return AV("col", recv.alias, flags=recv.flags)
            if beh == "fresh":
                return col()
            if beh == "alias":
                return AV("col", recv.alias, flags=recv.flags)
            if beh == "scalar":
                return SCALAR
            if beh == "tuple_fresh":
                return AV("tuple", items=(col(),))
            if beh == "box_scalar":
                return lst(SCALAR)
            if k == "col":
                self.res.unclassified.append((self.fn, node, f"array method .{name}() is not in the operation table"))
                return AV("col", recv.alias, flags=recv.flags | {"uncertain"})
        if k in ("frame", "dict") or (via_super and via_super.endswith("dict")):
            e = content(recv)
            if name == "items":
                return lst(AV("tuple", items=(SCALAR, e or UNKNOWN)))
            if name == "values":
                return lst(e)
            if name == "keys":
                return lst(SCALAR)
            if name == "get":
                return join(e, pa[1] if len(pa) > 1 else NONE)
            if name == "__getitem__":
                return e or UNKNOWN
            if name == "copy":
                return AV("dict", F0, elem=e)
            if name in tables.DICT_WRITES:
                self.write("store", recv, node, f".{name}(...)" + (f" [{via_super}.{name}]" if via_super else ""),
                           env, value=pa[-1] if pa else None)
                if name in ("pop",):
                    return join(e, pa[1] if len(pa) > 1 else None) or UNKNOWN
                if name == "popitem":
                    return AV("tuple", items=(SCALAR, e or UNKNOWN))
                if name == "setdefault":
                    return join(e, pa[1] if len(pa) > 1 else NONE)
                return NONE
            if name in ("__init__", "__setattr__", "__delattr__", "__getattribute__", "__contains__"):
                if name in ("__setattr__", "__delattr__"):
                    self.event("attr-store", recv, node, f"super().{name}(...)")
                if name == "__getattribute__":
                    return AV("unknown", all_alias(recv))
                return NONE
        if k in ("list", "tuple", "lod") or (via_super and via_super.endswith("list")):
            e = content(recv)
            if name in tables.LIST_WRITES:
                self.write("store", recv, node, f".{name}(...)", env, value=pa[-1] if pa else None)
                kf = kwargs.get("key")
                if name == "sort" and kf is not None and kf.kind == "func" and kf.ref is not None:
                    self.apply(kf, [e or UNKNOWN], {}, node, env)
                if name == "pop":
                    return e or UNKNOWN
                return NONE
            if name == "__getitem__":
                if pa and "slice" in pa[0].flags:
                    return lst(e)
                if pa and pa[0].kind == "scalar":
                    return e or UNKNOWN
                return AV("unknown", F0, elem=e)       # element or sub-list
            if name in ("copy",):
                return lst(e)
            if name in ("index", "count", "__len__", "__contains__", "__init__"):
                return SCALAR if name != "__init__" else NONE
            if name in ("__iter__",):
                return lst(e)
        if k == "scalar":
            # str / int methods and friends
            if name in ("split", "splitlines", "rsplit", "partition"):
                return lst(SCALAR)
            if name in ("items",):
                return lst(AV("tuple", items=(SCALAR, SCALAR)))
            return SCALAR
        if k == "func":
            return AV("unknown", F0)
        # unknown receiver, unknown method
        if name == "copy":
            # X.copy() of something of unknown kind that belongs to the caller: a new outer object whose contents may
            # still be shared (dict.copy / list.copy are shallow); only the deepcopy rules read the flag
            return AV("unknown", F0, flags={"shallow"} if all_alias(recv) else F0)
        if name == "deepcopy":
            return AV("unknown", F0)
        if name in ("items",):
            e = content(recv) or AV("unknown", recv.alias)
            return lst(AV("tuple", items=(SCALAR, e)))
        if name in ("values",):
            return lst(content(recv) or AV("unknown", recv.alias))
        if name in ("keys",):
            return lst(SCALAR)
        if name in ("get",):
            return join(content(recv) or AV("unknown", recv.alias), pa[1] if len(pa) > 1 else NONE)
        if name in tables.DICT_WRITES or name in tables.LIST_WRITES:
            if recv.alias:
                self.write("store", recv, node, f".{name}(...)", env, value=pa[-1] if pa else None)
            return AV("unknown", recv.alias)
        al = set(all_alias(recv))
        return AV("unknown", al, flags=recv.flags)


def join_all(vs):
    out = None
    for v in vs:
        out = join(out, v)
    return out
