"""Obligations, evidence, findings, known findings, exit codes (fail closed)."""
import hashlib
import json
import os
import time

VERIF = os.path.dirname(os.path.dirname(os.path.abspath(__file__)))

DISCHARGED = "discharged"
VIOLATED = "violated"
NOTE = "note"


class Obligation:
    __slots__ = ("prop", "rule", "function", "construct", "loc", "verdict", "why",
                 "chain", "nontrivial", "clause")

    def __init__(self, prop, rule, function, construct, loc, verdict, why,
                 chain=None, nontrivial=True, clause=""):
        self.prop = prop
        self.rule = rule
        self.function = function
        self.construct = " ".join(str(construct).split())
        self.loc = loc
        self.verdict = verdict
        self.why = why
        self.chain = list(chain or [])
        self.nontrivial = nontrivial
        self.clause = clause

    @property
    def key(self):
        return f"{self.prop}|{self.rule}|{self.function}|{self.construct}"

    def to_json(self):
        return {"rule": self.rule, "function": self.function, "construct": self.construct,
                "loc": self.loc, "verdict": self.verdict, "why": self.why,
                "chain": self.chain, "clause": self.clause}


class Context:
    """Collects obligations for one property run."""

    def __init__(self, prop, repo, tier="quick"):
        self.prop = prop
        self.repo = repo
        self.tier = tier
        self.obligations = []
        self.notes = []
        self.counts = {}          # name -> (count, minimum)
        self.rules = {}           # rule -> description
        self.trusted = []
        self.analysed_functions = set()

    def rule(self, name, text):
        self.rules[name] = text

    def ob(self, rule, fn, construct, node, ok, why, chain=None, nontrivial=True, clause=""):
        from .model import FunctionInfo
        if isinstance(fn, FunctionInfo):
            fq = fn.qualname
            loc = f"{fn.module.path}:{getattr(node, 'lineno', fn.lineno) if node is not None else fn.lineno}"
            self.analysed_functions.add(fq)
        else:
            fq = str(fn)
            loc = str(node) if node is not None else ""
        o = Obligation(self.prop, rule, fq, construct, loc,
                       DISCHARGED if ok else VIOLATED, why, chain, nontrivial, clause)
        self.obligations.append(o)
        return o

    def note(self, text):
        self.notes.append(text)

    def count(self, name, count, minimum):
        """Vacuity guard: an instance count below the hand-confirmed minimum is
        an analysis error, never a pass."""
        from .model import AnalysisError
        self.counts[name] = (count, minimum)
        if count < minimum:
            raise AnalysisError(
                f"instance count for '{name}' is {count}, below the hand-confirmed minimum {minimum}: "
                f"the analysis no longer sees the code it was written for")

    def trust(self, text):
        if text not in self.trusted:
            self.trusted.append(text)


def load_known():
    path = os.path.join(VERIF, "known_findings.json")
    if not os.path.exists(path):
        return []
    with open(path) as f:
        return json.load(f)["entries"]


def match_known(o, entries):
    for e in entries:
        if e.get("status") != "finding":
            continue
        if (e["property"] == o.prop and e["rule"] == o.rule and e["function"] == o.function
                and " ".join(e["construct"].split()) == o.construct):
            return e
    return None


def run_check(mod, ctx):
    """Run one property's rules.  An AnalysisError raised after a violation has already been established does not
    hide that violation: the check reports it (exit 1) and notes which part could not be analysed.  With no
    violation established the AnalysisError propagates (exit 2) as before."""
    from .model import AnalysisError
    try:
        mod.check(ctx)
    except AnalysisError as e:
        known = load_known()
        if not any(o.verdict == VIOLATED and not match_known(o, known) for o in ctx.obligations):
            raise
        ctx.incomplete = str(e)
        ctx.note(f"analysis incomplete after the violation(s) above were established: {e}")


def finalize(ctx, t0, seed, explanation, assumptions, extra=None, write=True, variants=None):
    """Write evidence, print KNOWN-FINDING / VIOLATION lines, return exit code."""
    entries = load_known()
    violated = [o for o in ctx.obligations if o.verdict == VIOLATED]
    known, fresh = [], []
    seen_keys = set()
    for o in violated:
        if o.key in seen_keys:
            continue
        seen_keys.add(o.key)
        e = match_known(o, entries)
        (known if e else fresh).append((o, e))
    obligations = [o for o in ctx.obligations if o.verdict in (DISCHARGED, VIOLATED)]
    discharged = [o for o in obligations if o.verdict == DISCHARGED]
    distinct_nontrivial = len({o.key for o in obligations if o.nontrivial})
    samples = []
    per_rule = {}
    for o in obligations:
        per_rule.setdefault(o.rule, []).append(o)
    for rule, obs in sorted(per_rule.items()):
        for o in obs[:3]:
            samples.append(o.to_json())
    for o, _ in known + fresh:
        j = o.to_json()
        if j not in samples:
            samples.append(j)
    rule_instances = {r: {"instances": len(obs),
                          "discharged": sum(1 for o in obs if o.verdict == DISCHARGED),
                          "violated": sum(1 for o in obs if o.verdict == VIOLATED)}
                      for r, obs in sorted(per_rule.items())}
    coverage = {
        "explanation": explanation,
        "obligations": len(obligations),
        "discharged": len(discharged),
        "evaluations": len(obligations),
        "distinct_nontrivial": distinct_nontrivial,
        "rule": "one evaluation = one (rule, function, construct) obligation decided on the current source; "
                "non-trivial = its verdict needed a CFG / dataflow / resolved-callee fact (not the mere "
                "presence of a name); distinct = distinct obligation keys",
        "samples": samples,
        "rules": ctx.rules,
        "rule_instances": rule_instances,
        "instance_counts_vs_minimum": {k: {"count": c, "minimum": m} for k, (c, m) in ctx.counts.items()},
        "analysed": dict(ctx.repo.stats(), functions_with_obligations=len(ctx.analysed_functions)),
        "trusted_base": ctx.trusted,
        "checker_cmd": f"./vcheck {ctx.prop} --tier {ctx.tier}",
        "notes": ctx.notes,
        "known_findings_printed": [o.key for o, _ in known],
        "exhaustive": False,
    }
    if variants is not None:
        coverage["variants"] = variants
    if extra:
        coverage.update(extra)
    ev = {
        "property_id": ctx.prop,
        "tier": ctx.tier,
        "seed": seed,
        "level": "other",
        "coverage": coverage,
        "assumptions": assumptions,
        "wall_s": round(time.time() - t0, 3),
        "violations": len(fresh),
    }
    if write:
        os.makedirs(os.path.join(VERIF, "evidence"), exist_ok=True)
        tmp = os.path.join(VERIF, "evidence", f".{ctx.prop}.json.tmp")
        with open(tmp, "w") as f:
            json.dump(ev, f, indent=1, sort_keys=False)
            f.write("\n")
        os.replace(tmp, os.path.join(VERIF, "evidence", f"{ctx.prop}.json"))
    for o, e in known:
        print(f"KNOWN-FINDING: property={ctx.prop} {e.get('what', o.why)} [{o.rule} at {o.function}: {o.construct}]")
    for o, _ in fresh:
        path = write_finding(o) if write else "-"
        print(f"{o.loc}: {o.rule}: {o.function}: {o.construct}")
        print(f"    {o.why}")
        for c in o.chain:
            print(f"    . {c}")
        print(f"VIOLATION property={ctx.prop} replay={path}")
    return 1 if fresh else 0


def write_finding(o):
    d = os.path.join(VERIF, "findings", o.prop)
    os.makedirs(d, exist_ok=True)
    h = hashlib.sha1(o.key.encode()).hexdigest()[:12]
    path = os.path.join(d, f"{o.rule}-{h}.json")
    with open(path, "w") as f:
        json.dump({"property": o.prop, "rule": o.rule, "function": o.function,
                   "construct": o.construct, "loc": o.loc, "why": o.why, "chain": o.chain,
                   "key": o.key}, f, indent=1)
        f.write("\n")
    return path
