"""Form-agnostic views of code, so that rules do not depend on which of several equivalent
ways a maintainer chose to write something:

 * value_cases: the values a function returns / yields, with the facts under which each is
   produced -- `return A if c else B`, `if c: return A` + `return B`, and if/else all give
   the same two (value, facts) cases;
 * contributions: the elements a list/dict variable receives -- from a comprehension, a
   literal, or an explicit loop with append()/subscript stores -- each with the iterable of
   the loop or comprehension that produces it;
 * resolve: a local name standing for a pure expression is replaced by that expression.
"""
import ast
from .facts import facts_at, test_facts, norm, close_under_negation
from .dataflow import defs_reaching, comprehension_binding
from .model import body_nodes


def split_ifexp(expr, facts=frozenset()):
    """[(leaf_expr, facts)] for nested conditional expressions."""
    if isinstance(expr, ast.IfExp) and isinstance(expr.body, ast.Call) and isinstance(expr.body.func, ast.Attribute) \
            and expr.body.func.attr == "item" and not expr.body.args and norm(expr.body.func.value) == norm(expr.orelse) \
            and ("isinstance(" in norm(expr.test) or "hasattr(" in norm(expr.test)):
        # V.item() if isinstance(V, np.generic) else V : one value, converted when it can be -- not two cases
        return [(expr, frozenset(facts))]
    if isinstance(expr, ast.IfExp):
        return (split_ifexp(expr.body, frozenset(facts) | frozenset(test_facts(expr.test, True)))
                + split_ifexp(expr.orelse, frozenset(facts) | frozenset(test_facts(expr.test, False))))
    return [(expr, frozenset(facts))]


def value_cases(fn, kind="return"):
    """All (node, leaf_value_expr, facts) the function can return (kind='return') or yield."""
    out = []
    for n in body_nodes(fn.node):
        if kind == "return" and isinstance(n, ast.Return) and n.value is not None:
            base = frozenset(facts_at(fn, n))
            for leaf, f in split_ifexp(n.value):
                out.append((n, leaf, frozenset(close_under_negation(base | f))))
        elif kind == "yield" and isinstance(n, ast.Yield) and n.value is not None:
            base = frozenset(facts_at(fn, n))
            for leaf, f in split_ifexp(n.value):
                out.append((n, leaf, frozenset(close_under_negation(base | f))))
    return sorted(out, key=lambda t: (t[0].lineno, t[0].col_offset))


def _enclosing_loops(fn, node):
    out = []
    p = fn.module.parent.get(node)
    while p is not None and p is not fn.node:
        if isinstance(p, ast.For):
            out.append(p)
        p = fn.module.parent.get(p)
    return out


def contributions(fn, name, at=None):
    """Elements contributed to the container bound to local ``name``:
    list of dicts {value, key (for dict stores), iter (innermost producing iterable or None),
    conds (comprehension/loop conditions), node}."""
    out = []
    for n in body_nodes(fn.node):
        if isinstance(n, ast.Assign) and any(isinstance(t, ast.Name) and t.id == name for t in n.targets):
            v = n.value
            if isinstance(v, (ast.ListComp, ast.SetComp, ast.GeneratorExp)):
                out.append({"value": v.elt, "key": None, "iter": v.generators[0].iter, "conds": [c for g in v.generators for c in g.ifs],
                            "target": v.generators[0].target, "node": n})
            elif isinstance(v, ast.DictComp):
                out.append({"value": v.value, "key": v.key, "iter": v.generators[0].iter, "conds": [c for g in v.generators for c in g.ifs],
                            "target": v.generators[0].target, "node": n})
            elif isinstance(v, ast.Call) and isinstance(v.func, ast.Name) and v.func.id in ("list", "tuple", "set", "dict") and v.args \
                    and isinstance(v.args[0], (ast.ListComp, ast.GeneratorExp, ast.DictComp)):
                c = v.args[0]
                out.append({"value": getattr(c, "elt", getattr(c, "value", None)), "key": getattr(c, "key", None),
                            "iter": c.generators[0].iter, "conds": [x for g in c.generators for x in g.ifs],
                            "target": c.generators[0].target, "node": n})
            elif isinstance(v, (ast.List, ast.Tuple, ast.Set)):
                for e in v.elts:
                    out.append({"value": e, "key": None, "iter": None, "conds": [], "target": None, "node": n})
            elif isinstance(v, ast.Dict):
                for k, e in zip(v.keys, v.values):
                    out.append({"value": e, "key": k, "iter": None, "conds": [], "target": None, "node": n})
            elif isinstance(v, ast.Call) and isinstance(v.func, ast.Name) and v.func.id in ("list", "dict", "set") and not v.args:
                pass
            else:
                out.append({"value": v, "key": None, "iter": None, "conds": [], "target": None, "node": n, "whole": True})
        elif isinstance(n, ast.Call) and isinstance(n.func, ast.Attribute) and isinstance(n.func.value, ast.Name) \
                and n.func.value.id == name and n.func.attr in ("append", "add", "insert") and n.args:
            loops = _enclosing_loops(fn, n)
            conds = [t for k, t in facts_at(fn, n) if k in ("T", "F") and not t.startswith("iter:")]
            out.append({"value": n.args[-1], "key": None, "iter": loops[0].iter if loops else None, "conds": conds,
                        "target": loops[0].target if loops else None, "node": n})
        elif isinstance(n, ast.Assign) and isinstance(n.targets[0], ast.Subscript) and isinstance(n.targets[0].value, ast.Name) \
                and n.targets[0].value.id == name:
            loops = _enclosing_loops(fn, n)
            conds = [t for k, t in facts_at(fn, n) if k in ("T", "F") and not t.startswith("iter:")]
            out.append({"value": n.value, "key": n.targets[0].slice, "iter": loops[0].iter if loops else None, "conds": conds,
                        "target": loops[0].target if loops else None, "node": n})
    return out


PURE = (ast.Name, ast.Constant, ast.Attribute, ast.Subscript, ast.UnaryOp, ast.BinOp, ast.Compare, ast.BoolOp, ast.IfExp, ast.Tuple,
        ast.Slice, ast.Load, ast.Store, ast.operator, ast.unaryop, ast.cmpop, ast.boolop, ast.expr_context)


def is_pure(expr):
    return all(isinstance(n, PURE) for n in ast.walk(expr))


def element_value(d, name):
    """The expression assigned to ``name`` by definition ``d``: the value itself for `name = v`, the matching element for
    `a, name = (x, y)`; None when it cannot be told."""
    if d.kind != "assign" or d.value is None:
        return None
    if isinstance(d.target, ast.Name):
        return d.value
    if isinstance(d.target, (ast.Tuple, ast.List)) and isinstance(d.value, (ast.Tuple, ast.List)) and len(d.target.elts) == len(d.value.elts):
        for t, v in zip(d.target.elts, d.value.elts):
            if isinstance(t, ast.Name) and t.id == name:
                return v
    return None


def resolve(fn, expr, at=None, depth=3):
    """Replace a local name that has exactly one reaching pure definition by that definition."""
    if depth == 0 or not isinstance(expr, ast.Name):
        return expr
    if comprehension_binding(fn, expr.id, expr):
        return expr
    ds = defs_reaching(fn, expr.id, at if at is not None else expr)
    if len(ds) == 1:
        v = element_value(ds[0], expr.id)
        if v is not None and is_pure(v):
            return resolve(fn, v, ds[0].node.ast if ds[0].node is not None else at, depth - 1)
    return expr


def resolved_text(fn, expr, at=None):
    """Source text of expr with every pure single-definition local replaced by its definition."""
    import copy

    class R(ast.NodeTransformer):
        def visit_Name(self, node):
            if isinstance(node.ctx, ast.Load):
                r = resolve(fn, node, at if at is not None else expr)
                if r is not node:
                    return copy.deepcopy(r)
            return node
    # names inside must be looked up at the original location, so resolve first on the original nodes
    mapping = {}
    for n in ast.walk(expr):
        if isinstance(n, ast.Name) and isinstance(n.ctx, ast.Load):
            r = resolve(fn, n, at if at is not None else n)
            if r is not n:
                mapping[id(n)] = r
    if not mapping:
        return norm(expr)

    class S(ast.NodeTransformer):
        def visit_Name(self, node):
            r = mapping.get(id(node))
            return copy.deepcopy(r) if r is not None else node
    new = S().visit(copy_with_ids(expr, mapping))
    return norm(new)


def copy_with_ids(expr, mapping):
    """Deep copy of expr keeping the id()-keyed mapping valid (maps copied nodes to the same replacements)."""
    import copy
    memo = {}
    new = copy.deepcopy(expr, memo)
    for k, v in list(mapping.items()):
        if k in memo:
            mapping[id(memo[k])] = v
    return new


def is_pure_call_free(expr, var):
    """Boolean combination of comparisons and of predicate calls on ``var`` (var.is_x()) -- nothing with effects."""
    for n in ast.walk(expr):
        if isinstance(n, ast.Call):
            if not (isinstance(n.func, ast.Attribute) and isinstance(n.func.value, ast.Name) and n.func.value.id == var
                    and not n.args and not n.keywords and (n.func.attr.startswith("is_") or n.func.attr.startswith("_is_"))):
                return False
        elif not isinstance(n, PURE + (ast.Not, ast.And, ast.Or)):
            return False
    return True


def expand(fn, expr, at, depth=4, keep=()):
    """``expr`` with every single-assignment local temporary replaced by the expression it was assigned -- calls
    included (na = self.is_na(); array = np.where(na, None, self); array.tolist()  ->  np.where(self.is_na(), None,
    self).tolist()).  A temporary is substituted only when it has exactly one reaching definition and none of the names
    that definition reads has been rebound between the definition and the use.  Used to match shapes, never to judge
    effects."""
    import copy

    def same_bindings(value, def_at, use_at):
        for n in ast.walk(value):
            if isinstance(n, ast.Name) and isinstance(n.ctx, ast.Load) and not comprehension_binding(fn, n.id, n):
                a = {id(d.node) for d in defs_reaching(fn, n.id, def_at)}
                b = {id(d.node) for d in defs_reaching(fn, n.id, use_at)}
                if a != b:
                    return False
        return True

    def go(e, where, d):
        if d == 0:
            return copy.deepcopy(e)

        class S(ast.NodeTransformer):
            def visit_Name(self, node):
                if not isinstance(node.ctx, ast.Load) or comprehension_binding(fn, node.id, node):
                    return node
                ds = defs_reaching(fn, node.id, where)
                if len(ds) == 1 and ds[0].kind == "assign" and ds[0].value is not None and isinstance(ds[0].target, ast.Name) \
                        and ds[0].node is not None and not any(isinstance(x, (ast.Yield, ast.YieldFrom, ast.Await, ast.NamedExpr))
                                                              for x in ast.walk(ds[0].value)) \
                        and same_bindings(ds[0].value, ds[0].node.ast, where):
                    return go(ds[0].value, ds[0].node.ast, d - 1)
                return node

            def visit_Lambda(self, node):
                return node
        return S().visit(copy.deepcopy(e))
    # names must be looked up at their original positions: work on the original nodes, copy on substitution
    mapping = {}
    for n in ast.walk(expr):
        if isinstance(n, ast.Name) and isinstance(n.ctx, ast.Load) and n.id not in keep and not comprehension_binding(fn, n.id, n):
            ds = defs_reaching(fn, n.id, at)
            if len(ds) == 1 and ds[0].kind == "assign" and ds[0].value is not None and isinstance(ds[0].target, ast.Name) \
                    and ds[0].node is not None and not any(isinstance(x, (ast.Yield, ast.YieldFrom, ast.Await, ast.NamedExpr))
                                                          for x in ast.walk(ds[0].value)) \
                    and same_bindings(ds[0].value, ds[0].node.ast, at):
                mapping[id(n)] = expand(fn, ds[0].value, ds[0].node.ast, depth - 1, keep) if depth > 1 else copy.deepcopy(ds[0].value)
    if not mapping:
        return expr
    new = copy_with_ids(expr, mapping)

    class R(ast.NodeTransformer):
        def visit_Name(self, node):
            r = mapping.get(id(node))
            return copy.deepcopy(r) if r is not None else node
    return R().visit(new)
