import sys, itertools
import dataiter as di, numpy as np
names = sys.argv[1].split(",")
kind = sys.argv[2] if len(sys.argv) > 2 else "float"
if kind == "float": a = np.array([1, np.nan, 3, np.nan, 5, 6, 6.0])
elif kind == "int": a = np.array([1, 2, 3, 4, 5, 6, 6])
elif kind == "date": a = np.array(['2020-01-01','NaT','2020-01-03','NaT','2020-01-05','2020-01-06','2020-01-06'], dtype='datetime64[D]')
d = di.DataFrame(g=[1,1,1,2,2,2,2], t=a)
H = {"max": lambda: di.max("t"), "min": lambda: di.min("t"), "mode": lambda: di.mode("t"), "first": lambda: di.first("t", drop_na=True),
     "last": lambda: di.last("t", drop_na=True), "nth5": lambda: di.nth("t", 5), "mean": lambda: di.mean("t"), "count": lambda: di.count("t"), "sum": lambda: di.sum("t")}
res = {}
di.USE_NUMBA = True
for n in names:
    res[n] = d.group_by("g").aggregate(v=H[n]()).v.tolist()
di.USE_NUMBA = False
ok = True
for n in names:
    want = d.group_by("g").aggregate(v=H[n]()).v.tolist()
    if repr(want) != repr(res[n]):
        ok = False
        print("MISMATCH", names, n, "numba", res[n], "python", want)
print("OK" if ok else "FAIL", names)
